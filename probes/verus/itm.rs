use vstd::prelude::*;
verus! {
pub struct L { a: u32, b: u32 }
fn bump(v: &mut Vec<L>)
    ensures final(v).len() == old(v).len(),
        forall|i: int| 0 <= i < old(v).len() ==> (#[trigger] final(v)[i]).a == old(v)[i].b && final(v)[i].b == old(v)[i].b,
{
    for x in it: &mut *v
        invariant
            forall|k: int| 0 <= k < it.index@ ==> (#[trigger] final(it.history@[k])).a == old(v)[k].b && final(it.history@[k]).b == old(v)[k].b,
    {
        x.a = x.b;
    }
}
}
fn main() {}
