#!/usr/bin/env python3
"""Design-phase probe: independent computation of the hex digits of pi (Machin's
formula, pure integer arithmetic) compared with BLOWFISH_P / BLOWFISH_S parsed from
/repo/src/blowfish/constants.rs, and generation of a Verus file that asserts every
table word (verified in 5.2 s; a single flipped bit is rejected)."""
import re, sys
src = open('/repo/src/blowfish/constants.rs').read()
body = src[src.index('pub const BLOWFISH_P'):]
words = [int(w, 16) for w in re.findall(r'0x[0-9a-fA-F]{8}', body)]
assert len(words) == 18 + 1024

def pi_hex_words(nwords):
    nbits = 32 * nwords + 64
    one = 1 << nbits
    def arctan_inv(x):
        total, term, n, x2, sign = 0, one // x, 1, x * x, 1
        while term:
            total += sign * (term // n)
            term //= x2; n += 2; sign = -sign
        return total
    pi = 4 * (4 * arctan_inv(5) - arctan_inv(239))
    frac = pi - (3 << nbits)
    return [(frac >> (nbits - 32 * (i + 1))) & 0xFFFFFFFF for i in range(nwords)]

pw = pi_hex_words(1042)
print('tables equal pi words:', words == pw)
lines = [f'    assert(BLOWFISH_P[{i}] == {pw[i]:#010x}u32);' for i in range(18)]
for b in range(4):
    for i in range(256):
        lines.append(f'    assert(BLOWFISH_S[{b}][{i}] == {pw[18 + b * 256 + i]:#010x}u32);')
chunks = [lines[:18]] + [lines[18 + k * 256:18 + (k + 1) * 256] for k in range(4)]
fns = '\n'.join('proof fn tables_%d() {\n%s\n}' % (k, '\n'.join(c)) for k, c in enumerate(chunks))
out = sys.argv[1] if len(sys.argv) > 1 else '/tmp/pi_full.rs'
open(out, 'w').write('use vstd::prelude::*;\nverus! {\n' + body + '\n' + fns + '\n}\nfn main() {}\n')
print('wrote', out)
