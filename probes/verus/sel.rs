use vstd::prelude::*;
use vstd::arithmetic::div_mod::*;
use vstd::arithmetic::mul::*;
verus! {
const SELECTOR_MULTIPLER: u32 = 31;

pub open spec fn pow31(n: nat) -> int decreases n { if n == 0 { 1 } else { 31 * pow31((n - 1) as nat) } }
pub open spec fn poly(keys: Seq<u32>) -> int decreases keys.len() {
    if keys.len() == 0 { 0 } else { poly(keys.drop_last()) + keys.last() as int * pow31((keys.len() - 1) as nat) }
}
pub open spec fn M() -> int { 0x1_0000_0000 }

proof fn lemma_pow31_nonneg(n: nat) ensures pow31(n) >= 1 decreases n { if n > 0 { lemma_pow31_nonneg((n - 1) as nat); } }

proof fn step_lemma(sel: int, mult: int, key: int, p: int, pw: int)
    requires 0 <= sel < M(), 0 <= mult < M(), 0 <= key < M(), sel == p % M(), mult == pw % M(), p >= 0, pw >= 0
    ensures (sel + ((key * mult) % M())) % M() == (p + key * pw) % M(),
            (mult * 31) % M() == (31 * pw) % M(),
{
    // key*mult ≡ key*pw
    lemma_mul_mod_noop_right(key, pw, M());
    assert((key * (pw % M())) % M() == (key * pw) % M());
    lemma_add_mod_noop(p, key * pw, M());
    lemma_add_mod_noop(sel, (key * mult) % M(), M());
    lemma_small_mod(sel as nat, M() as nat);
    lemma_mod_twice(key * mult, M());
    lemma_mul_mod_noop_left(pw, 31, M());
    lemma_mul_is_commutative(31, pw);
    lemma_mul_is_commutative(mult, 31);
    lemma_mul_is_commutative(pw % M(), 31);
}

pub fn build_selector(keys: &[u32]) -> (r: u32)
    ensures r as int == poly(keys@) % M()
{
    let mut selector: u32 = 0;
    let mut multiplier: u32 = 1;

    for key in it: keys
        invariant
            selector as int == poly(keys@.take(it.index as int)) % M(),
            multiplier as int == pow31(it.index as nat) % M(),
            poly(keys@.take(it.index as int)) >= 0,
    {
        proof {
            let i = it.index as int;
            let pre = keys@.take(i);
            let nxt = keys@.take(i + 1);
            assert(nxt.drop_last() =~= pre);
            assert(nxt.last() == *key);
            lemma_pow31_nonneg(i as nat);
            step_lemma(selector as int, multiplier as int, *key as int, poly(pre), pow31(i as nat));
            assert(poly(nxt) == poly(pre) + (*key) as int * pow31(i as nat));
            lemma_mul_nonnegative((*key) as int, pow31(i as nat));
        }
        selector = selector.wrapping_add(key.wrapping_mul(multiplier));
        multiplier = multiplier.wrapping_mul(SELECTOR_MULTIPLER);
    }

    proof { assert(keys@.take(keys@.len() as int) =~= keys@); }
    selector
}
}
fn main() {}
