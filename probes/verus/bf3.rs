use vstd::prelude::*;
verus! {
const ROUNDS: usize = 16;
const KEYBITS: u32 = 64u32 >> 3;

pub struct Blowfish {
    p: [u32; 18],
    s: [[u32; 256]; 4],
}

pub open spec fn wadd(a: u32, b: u32) -> u32 { ((a as int + b as int) % 0x1_0000_0000) as u32 }

pub open spec fn sf(s: [[u32; 256]; 4], x: u32) -> u32 {
    wadd(wadd(s[0][(x >> 24u32) as int], s[1][((x >> 16u32) & 0xFF) as int]) ^ s[2][((x >> 8u32) & 0xFF) as int], s[3][(x & 0xFF) as int])
}

pub open spec fn rounds(p: [u32; 18], s: [[u32; 256]; 4], l: u32, r: u32, n: nat) -> (u32, u32)
    decreases n
{
    if n == 0 { (l, r) } else {
        let (pl, pr) = rounds(p, s, l, r, (n - 1) as nat);
        let xl = pl ^ p[n - 1];
        let xr = pr ^ sf(s, xl);
        (xr, xl)
    }
}
pub open spec fn enc_spec(p: [u32; 18], s: [[u32; 256]; 4], l: u32, r: u32) -> (u32, u32) {
    let (a, b) = rounds(p, s, l, r, 16);
    (b ^ p[17], a ^ p[16])
}
// decryption rounds use p[17 - k]
pub open spec fn drounds(p: [u32; 18], s: [[u32; 256]; 4], l: u32, r: u32, n: nat) -> (u32, u32)
    decreases n
{
    if n == 0 { (l, r) } else {
        let (pl, pr) = drounds(p, s, l, r, (n - 1) as nat);
        let xl = pl ^ p[17 - (n - 1)];
        let xr = pr ^ sf(s, xl);
        (xr, xl)
    }
}
pub open spec fn dec_spec(p: [u32; 18], s: [[u32; 256]; 4], l: u32, r: u32) -> (u32, u32) {
    let (a, b) = drounds(p, s, l, r, 16);
    (b ^ p[0], a ^ p[1])
}

proof fn xor_cancel(a: u32, b: u32) ensures (a ^ b) ^ b == a { assert((a ^ b) ^ b == a) by(bit_vector); }

// one decryption round undoes one encryption round
proof fn lemma_inverse(p: [u32; 18], s: [[u32; 256]; 4], l: u32, r: u32)
    ensures dec_spec(p, s, enc_spec(p, s, l, r).0, enc_spec(p, s, l, r).1) == (l, r)
{
    reveal_with_fuel(rounds, 17);
    reveal_with_fuel(drounds, 17);
    assert(forall|a: u32, b: u32| #[trigger] ((a ^ b) ^ b) == a) by {
        assert forall|a: u32, b: u32| #[trigger] ((a ^ b) ^ b) == a by { xor_cancel(a, b); }
    }
}

impl Blowfish {
    fn f(&self, x: u32) -> (r: u32)
        ensures r == sf(self.s, x)
    {
        proof {
            assert((x >> 24u32) < 256) by(bit_vector);
            assert(((x >> 16u32) & 0xFF) < 256) by(bit_vector);
            assert(((x >> 8u32) & 0xFF) < 256) by(bit_vector);
            assert((x & 0xFF) < 256) by(bit_vector);
        }
        let a = self.s[0][(x >> 24) as usize];
        let b = self.s[1][((x >> 16) & 0xFF) as usize];
        let c = self.s[2][((x >> 8) & 0xFF) as usize];
        let d = self.s[3][(x & 0xFF) as usize];

        (a.wrapping_add(b) ^ c).wrapping_add(d)
    }

    fn decrypt_pair(&self, mut l: u32, mut r: u32) -> (res: (u32, u32))
        ensures res == dec_spec(self.p, self.s, l, r)
    {
        let ghost l0 = l; let ghost r0 = r;
        let mut i = 16;
        while i >= 2
            invariant i % 2 == 0, 0 <= i <= 16, (l, r) == drounds(self.p, self.s, l0, r0, (16 - i) as nat),
            decreases i
        {
            proof { reveal_with_fuel(drounds, 3); }
            l ^= self.p[i + 1];
            r ^= self.f(l);
            r ^= self.p[i];
            l ^= self.f(r);
            i -= 2;
        }

        (r ^ self.p[0], l ^ self.p[1])
    }
}
}
fn main() {}
