use vstd::prelude::*;
verus! {

pub open spec fn cw(bx: int, w: int, bw: int) -> int { if bw * (bx + 1) > w { w - bw * bx } else { bw } }
pub open spec fn ch(by: int, h: int, bh: int) -> int { if bh * (by + 1) > h { h - by * bh } else { bh } }

pub fn copy_block_buffer(
    bx: usize,
    by: usize,
    w: usize,
    h: usize,
    bw: usize,
    bh: usize,
    buffer: &[u32],
    image: &mut [u32],
)
    requires
        bw == 4, bh == 4, buffer.len() == 16,
        w <= 0x10000, h <= 0x10000,
        bw * bx < w, bh * by < h,
        old(image).len() >= w * h,
    ensures
        final(image).len() == old(image).len(),
        forall|x: int, y: int| 0 <= y < h && 0 <= x < w ==>
            #[trigger] final(image)[y * w + x] == (
                if by * bh <= y < by * bh + ch(by as int, h as int, bh as int) && bx * bw <= x < bx * bw + cw(bx as int, w as int, bw as int)
                { buffer[(y - by * bh) * bw + (x - bx * bw)] } else { old(image)[y * w + x] }),
{
    let x: usize = bw * bx;
    let copy_width: usize = if bw * (bx + 1) > w { w - bw * bx } else { bw };

    let y_0 = by * bh;
    let copy_height: usize = if bh * (by + 1) > h { h - y_0 } else { bh };
    let mut buffer_offset = 0;

    for y in y_0..y_0 + copy_height {
        let image_offset = y * w + x;
        image[image_offset..image_offset + copy_width]
            .copy_from_slice(&buffer[buffer_offset..buffer_offset + copy_width]);

        buffer_offset += bw;
    }
}
}
fn main() {}
