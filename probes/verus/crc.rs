use vstd::prelude::*;
verus! {

pub open spec fn crc_step_bit(c: u32) -> u32 {
    if c & 1u32 == 1u32 { 0xEDB88320u32 ^ (c >> 1u32) } else { c >> 1u32 }
}
pub open spec fn crc_bits(c: u32, n: nat) -> u32 decreases n {
    if n == 0 { c } else { crc_step_bit(crc_bits(c, (n - 1) as nat)) }
}
pub open spec fn table_entry(i: u32) -> u32 { crc_bits(i, 8) }

pub open spec fn crc_update(c: u32, b: u8) -> u32 {
    table_entry((c ^ (b as u32)) & 0xFF) ^ (c >> 8u32)
}
pub open spec fn crc_fold(s: Seq<u8>) -> u32 decreases s.len() {
    if s.len() == 0 { 0xFFFFFFFFu32 } else { crc_update(crc_fold(s.drop_last()), s.last()) }
}

pub(crate) struct Jamcrc {
    table: [u32; 256],
}

impl Jamcrc {
    pub closed spec fn wf(&self) -> bool {
        forall|i: int| 0 <= i < 256 ==> self.table[i] == table_entry(i as u32)
    }

    pub(crate) const fn new() -> (r: Self)
        ensures r.wf()
    {
        let mut table: [u32; 256] = [0u32; 256];

        let polynomial: u32 = 0xEDB88320;
        let mut i = 0;
        while i < table.len()
            invariant 0 <= i <= 256, table.len() == 256, polynomial == 0xEDB88320u32,
                forall|k: int| 0 <= k < i ==> table[k] == table_entry(k as u32),
            decreases 256 - i
        {
            let mut c: u32 = i as u32;
            let mut j = 0;
            while j < 8
                invariant 0 <= j <= 8, c == crc_bits(i as u32, j as nat), polynomial == 0xEDB88320u32,
                decreases 8 - j
            {
                if (c & 1u32) == 1u32 {
                    c = polynomial ^ (c >> 1);
                } else {
                    c >>= 1;
                }
                j += 1;
            }

            table[i] = c;
            i += 1;
        }

        Self { table }
    }

    pub(crate) fn checksum(&self, bytes: &[u8]) -> (r: u32)
        requires self.wf()
        ensures r == crc_fold(bytes@)
    {
        let mut c: u32 = 0xFFFFFFFF;
        for byte in it: bytes
            invariant self.wf(), c == crc_fold(bytes@.take(it.index as int)),
        {
            proof {
                let cc = c; let bb = *byte;
                assert(((cc ^ bb as u32) & 0xFF) < 256) by(bit_vector);
                assert(bytes@.take(it.index + 1).drop_last() =~= bytes@.take(it.index as int));
            }
            c = self.table[((c ^ *byte as u32) & 0xFF) as usize] ^ (c >> 8);
        }

        proof { let cc = c; assert(!(cc ^ 0xFFFFFFFFu32) == cc) by(bit_vector); assert(bytes@.take(bytes@.len() as int) =~= bytes@); }
        !(c ^ 0xFFFFFFFF)
    }
}

} // verus!
fn main() {}
