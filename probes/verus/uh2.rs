use vstd::prelude::*;
use std::mem::size_of;
verus! {

pub const NUM_VERTICES: u32 = 17;

pub struct ModelFileHeader {
    pub version: u32,
    pub stack_size: u32,
    pub runtime_size: u32,
    pub vertex_declaration_count: u16,
    pub material_count: u16,
    pub vertex_offsets: [u32; 3],
    pub index_offsets: [u32; 3],
    pub vertex_buffer_size: [u32; 3],
    pub index_buffer_size: [u32; 3],
    pub lod_count: u8,
    pub index_buffer_streaming_enabled: bool,
    pub has_edge_geometry: bool,
}

pub struct MeshLod {
    mesh_index: u16,
    mesh_count: u16,
    vertex_buffer_size: u32,
    index_buffer_size: u32,
    vertex_data_offset: u32,
    index_data_offset: u32,
    edge_geometry_data_offset: u32,
}

pub struct Mesh {
    vertex_count: u16,
    index_count: u32,
    submesh_index: u16,
    start_index: u32,
    vertex_buffer_offsets: [u32; 3],
    vertex_buffer_strides: [u8; 3],
    vertex_stream_count: u8,
}

pub struct Submesh { index_offset: u32, index_count: u32 }

pub struct ModelData {
    lods: Vec<MeshLod>,
    meshes: Vec<Mesh>,
    submeshes: Vec<Submesh>,
}

pub struct Lod { pub x: u8 }

pub struct MDL {
    file_header: ModelFileHeader,
    pub model_data: ModelData,
    pub lods: Vec<Lod>,
}

// ---------------- spec ----------------
spec fn stride_sum(m: Mesh, n: int) -> int decreases n {
    if n <= 0 { 0 } else { stride_sum(m, n - 1) + m.vertex_buffer_strides[n - 1] as int }
}
// bytes of vertex data of meshes [a, b)
spec fn vbytes(ms: Seq<Mesh>, a: int, b: int) -> int decreases b - a {
    if b <= a { 0 } else { vbytes(ms, a, b - 1) + ms[b - 1].vertex_count as int * stride_sum(ms[b - 1], ms[b - 1].vertex_stream_count as int) }
}
spec fn ibytes(ms: Seq<Mesh>, a: int, b: int) -> int decreases b - a {
    if b <= a { 0 } else { ibytes(ms, a, b - 1) + ms[b - 1].index_count as int * 2 }
}

impl MDL {
    pub(crate) fn update_headers_part2(&mut self)
        requires
            old(self).model_data.lods.len() == 3,
            forall|l: int| 0 <= l < 3 ==> (#[trigger] old(self).model_data.lods[l]).mesh_index as int + old(self).model_data.lods[l].mesh_count as int <= old(self).model_data.meshes.len(),
            old(self).model_data.meshes.len() <= 0xFFFF,
            forall|j: int| 0 <= j < old(self).model_data.meshes.len() ==> (#[trigger] old(self).model_data.meshes[j]).vertex_stream_count <= 3,
            forall|l: int| 0 <= l < 3 ==> vbytes(old(self).model_data.meshes@, (#[trigger] old(self).model_data.lods[l]).mesh_index as int, old(self).model_data.lods[l].mesh_index as int + old(self).model_data.lods[l].mesh_count as int) < 0x4000_0000,
            forall|l: int| 0 <= l < 3 ==> ibytes(old(self).model_data.meshes@, (#[trigger] old(self).model_data.lods[l]).mesh_index as int, old(self).model_data.lods[l].mesh_index as int + old(self).model_data.lods[l].mesh_count as int) < 0x4000_0000,
        ensures
            final(self).model_data.meshes == old(self).model_data.meshes,
            final(self).model_data.lods.len() == 3,
            forall|l: int| 0 <= l < 3 ==> (#[trigger] final(self).model_data.lods[l]).vertex_buffer_size as int == vbytes(old(self).model_data.meshes@, old(self).model_data.lods[l].mesh_index as int, old(self).model_data.lods[l].mesh_index as int + old(self).model_data.lods[l].mesh_count as int),
            forall|l: int| 0 <= l < 3 ==> (#[trigger] final(self).model_data.lods[l]).index_buffer_size as int % 16 == 0,
            forall|l: int| 0 <= l < 3 ==> {
                let ib = ibytes(old(self).model_data.meshes@, old(self).model_data.lods[l].mesh_index as int, old(self).model_data.lods[l].mesh_index as int + old(self).model_data.lods[l].mesh_count as int);
                ib < (#[trigger] final(self).model_data.lods[l]).index_buffer_size as int <= ib + 16 },
    {
        for lod in &mut self.model_data.lods {
            let mut total_vertex_buffer_size = 0;
            let mut total_index_buffer_size = 0;

            // still slightly off?
            for j in lod.mesh_index..lod.mesh_index + lod.mesh_count {
                let vertex_count = self.model_data.meshes[j as usize].vertex_count;
                let index_count = self.model_data.meshes[j as usize].index_count;

                let mut total_vertex_stride: u32 = 0;
                for i in 0..self.model_data.meshes[j as usize].vertex_stream_count as usize {
                    total_vertex_stride +=
                        self.model_data.meshes[j as usize].vertex_buffer_strides[i] as u32;
                }

                total_vertex_buffer_size += vertex_count as u32 * total_vertex_stride;
                total_index_buffer_size += index_count * size_of::<u16>() as u32;
            }

            // TODO: this can definitely be written better
            let mut index_padding = total_index_buffer_size % 16;
            if index_padding == 0 {
                index_padding = 16;
            } else {
                index_padding = 16 - index_padding;
            }

            lod.vertex_buffer_size = total_vertex_buffer_size;
            lod.index_buffer_size = total_index_buffer_size.wrapping_add(index_padding);
        }
    }
}
}
fn main() {}
