use vstd::prelude::*;
verus! {
const SELECTOR_MULTIPLER: u32 = 31;

pub open spec fn pow31(n: nat) -> int decreases n { if n == 0 { 1 } else { 31 * pow31((n - 1) as nat) } }
pub open spec fn poly(keys: Seq<u32>) -> int decreases keys.len() {
    if keys.len() == 0 { 0 } else { poly(keys.drop_last()) + keys.last() as int * pow31((keys.len() - 1) as nat) }
}

pub fn build_selector(keys: &[u32]) -> (r: u32)
    ensures r as int == poly(keys@) % 0x1_0000_0000
{
    let mut selector: u32 = 0;
    let mut multiplier: u32 = 1;

    for key in it: keys
        invariant
            selector as int == poly(keys@.take(it.index as int)) % 0x1_0000_0000,
            multiplier as int == pow31(it.index as nat) % 0x1_0000_0000,
    {
        selector = selector.wrapping_add(key.wrapping_mul(multiplier));
        multiplier = multiplier.wrapping_mul(SELECTOR_MULTIPLER);
    }

    selector
}

pub fn copy_block_buffer(
    bx: usize,
    by: usize,
    w: usize,
    h: usize,
    bw: usize,
    bh: usize,
    buffer: &[u32],
    image: &mut [u32],
) {
    let x: usize = bw * bx;
    let copy_width: usize = if bw * (bx + 1) > w { w - bw * bx } else { bw };

    let y_0 = by * bh;
    let copy_height: usize = if bh * (by + 1) > h { h - y_0 } else { bh };
    let mut buffer_offset = 0;

    for y in y_0..y_0 + copy_height {
        let image_offset = y * w + x;
        image[image_offset..image_offset + copy_width]
            .copy_from_slice(&buffer[buffer_offset..buffer_offset + copy_width]);

        buffer_offset += bw;
    }
}
}
fn main() {}
