use vstd::prelude::*;
verus! {

pub type P = [u32; 18];
pub type S = [[u32; 256]; 4];

pub uninterp spec fn sf(s: S, x: u32) -> u32;

// one Feistel round with round key k, followed by the swap
pub open spec fn rnd(s: S, k: u32, st: (u32, u32)) -> (u32, u32) {
    let xl = st.0 ^ k;
    let xr = st.1 ^ sf(s, xl);
    (xr, xl)
}
pub open spec fn rounds(p: P, s: S, st: (u32, u32), n: nat) -> (u32, u32) decreases n {
    if n == 0 { st } else { rnd(s, p[n - 1], rounds(p, s, st, (n - 1) as nat)) }
}
pub open spec fn drounds(p: P, s: S, st: (u32, u32), n: nat) -> (u32, u32) decreases n {
    if n == 0 { st } else { rnd(s, p[17 - (n - 1)], drounds(p, s, st, (n - 1) as nat)) }
}
pub open spec fn enc_spec(p: P, s: S, l: u32, r: u32) -> (u32, u32) {
    let (a, b) = rounds(p, s, (l, r), 16);
    (b ^ p[17], a ^ p[16])
}
pub open spec fn dec_spec(p: P, s: S, l: u32, r: u32) -> (u32, u32) {
    let (a, b) = drounds(p, s, (l, r), 16);
    (b ^ p[0], a ^ p[1])
}

proof fn xor_cancel(a: u32, b: u32) ensures (a ^ b) ^ b == a { assert((a ^ b) ^ b == a) by(bit_vector); }

// swapped-state round inverse: if (xr, xl) = rnd(k, (l, r)) then rnd(k, (xl, xr)) = (r, l)
proof fn rnd_inv(s: S, k: u32, st: (u32, u32))
    ensures ({ let o = rnd(s, k, st); rnd(s, k, (o.1 ^ k, o.0)) == (st.1, st.0 ^ k) })
{
    let xl = st.0 ^ k;
    xor_cancel(st.0, k);
    xor_cancel(st.1, sf(s, xl));
}


proof fn xor3(b: u32, f: u32, k: u32) ensures ((b ^ f) ^ k) ^ f == b ^ k { assert(((b ^ f) ^ k) ^ f == b ^ k) by(bit_vector); }

// decryption state after j rounds, in terms of the encryption states
pub open spec fn dpat(p: P, s: S, st: (u32, u32), j: nat) -> (u32, u32) {
    let e = rounds(p, s, st, (16 - j) as nat);
    (e.1 ^ p[17 - j], e.0 ^ p[16 - j])
}

proof fn lemma_dec_pattern(p: P, s: S, st: (u32, u32), j: nat)
    requires j <= 16
    ensures drounds(p, s, dpat(p, s, st, 0), j) == dpat(p, s, st, j)
    decreases j
{
    if j == 0 {
    } else {
        let jj = (j - 1) as nat;
        lemma_dec_pattern(p, s, st, jj);
        let n = (16 - jj) as nat;            // >= 1
        let e1 = rounds(p, s, st, n);        // (A_n, B_n)
        let e0 = rounds(p, s, st, (n - 1) as nat);
        assert(e1 == rnd(s, p[n - 1], e0));
        let k = p[17 - jj];
        // d_jj = (B_n ^ p[17-jj], A_n ^ p[16-jj])
        let d = dpat(p, s, st, jj);
        xor_cancel(e1.1, k);
        // A_n = B_{n-1} ^ F(B_n), B_n = A_{n-1} ^ p[n-1]
        let bn = e0.0 ^ p[n - 1];
        assert(e1.1 == bn);
        assert(e1.0 == e0.1 ^ sf(s, bn));
        xor3(e0.1, sf(s, bn), p[16 - jj]);
        assert(rnd(s, k, d) == dpat(p, s, st, j));
    }
}

pub proof fn lemma_decrypt_inverts_encrypt(p: P, s: S, l: u32, r: u32)
    ensures dec_spec(p, s, enc_spec(p, s, l, r).0, enc_spec(p, s, l, r).1) == (l, r)
{
    lemma_dec_pattern(p, s, (l, r), 16);
    let c = enc_spec(p, s, l, r);
    assert((c.0, c.1) == dpat(p, s, (l, r), 0));
    let d = drounds(p, s, (c.0, c.1), 16);
    assert(d == dpat(p, s, (l, r), 16));
    assert(rounds(p, s, (l, r), 0) == (l, r));
    xor_cancel(r, p[1]);
    xor_cancel(l, p[0]);
}

} // verus!
fn main() {}
