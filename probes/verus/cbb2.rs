use vstd::prelude::*;
verus! {

pub open spec fn cw(bx: int, w: int, bw: int) -> int { if bw * (bx + 1) > w { w - bw * bx } else { bw } }
pub open spec fn chh(by: int, h: int, bh: int) -> int { if bh * (by + 1) > h { h - by * bh } else { bh } }

pub fn copy_block_buffer(
    bx: usize,
    by: usize,
    w: usize,
    h: usize,
    bw: usize,
    bh: usize,
    buffer: &[u32],
    image: &mut [u32],
)
    requires
        bw == 4, bh == 4, buffer.len() == 16,
        w <= 0x10000, h <= 0x10000,
        bw * bx < w, bh * by < h,
        old(image).len() >= w * h,
    ensures
        final(image).len() == old(image).len(),
        forall|i: int| 0 <= i < old(image).len() ==> #[trigger] final(image)[i] == (
            if i < w * h && by * 4 <= i / (w as int) < by * 4 + chh(by as int, h as int, 4) && bx * 4 <= i % (w as int) < bx * 4 + cw(bx as int, w as int, 4)
            { buffer[(i / (w as int) - by * 4) * 4 + (i % (w as int) - bx * 4)] } else { old(image)[i] }),
{
    let x: usize = bw * bx;
    let copy_width: usize = if bw * (bx + 1) > w { w - bw * bx } else { bw };

    let y_0 = by * bh;
    let copy_height: usize = if bh * (by + 1) > h { h - y_0 } else { bh };
    let mut buffer_offset = 0;

    for y in y_0..y_0 + copy_height
        invariant
            bw == 4, bh == 4, buffer.len() == 16, w <= 0x10000, h <= 0x10000,
            x == 4 * bx, x < w, y_0 == 4 * by, y_0 < h,
            copy_width == cw(bx as int, w as int, 4), 1 <= copy_width <= 4, x + copy_width <= w,
            copy_height == chh(by as int, h as int, 4), 1 <= copy_height <= 4, y_0 + copy_height <= h,
            buffer_offset == (y - y_0) * 4,
            image.len() == old(image).len(), image.len() >= w * h,
            forall|i: int| 0 <= i < image.len() ==> #[trigger] image[i] == (
                if i < w * h && y_0 <= i / (w as int) < y && x <= i % (w as int) < x + copy_width
                { buffer[(i / (w as int) - y_0) * 4 + (i % (w as int) - x)] } else { old(image)[i] }),
    {
        proof {
            assert(y * w + x + copy_width <= w * h) by(nonlinear_arith)
                requires y < h, x + copy_width <= w, w >= 1, h >= 1, y >= 0;
            assert(y * w <= 0x10000 * 0x10000) by(nonlinear_arith) requires y < h, h <= 0x10000, w <= 0x10000, y >= 0, w >= 0;
        }
        let image_offset = y * w + x;
        let ghost pre = image@;
        image[image_offset..image_offset + copy_width]
            .copy_from_slice(&buffer[buffer_offset..buffer_offset + copy_width]);
        proof {
            assert forall|i: int| 0 <= i < image.len() implies #[trigger] image[i] == (
                if i < w * h && y_0 <= i / (w as int) < y + 1 && x <= i % (w as int) < x + copy_width
                { buffer[(i / (w as int) - y_0) * 4 + (i % (w as int) - x)] } else { old(image)[i] }) by {
                let wi = w as int;
                if image_offset <= i < image_offset + copy_width {
                    // i = y*w + c with x <= c < x+cw <= w
                    let c = i - y * wi;
                    assert(i == y * wi + c && 0 <= c < wi);
                    vstd::arithmetic::div_mod::lemma_fundamental_div_mod_converse(i, wi, y as int, c);
                } else {
                    assert(image[i] == pre[i]);
                    if i < w * h && i / wi == y && x <= i % wi < x + copy_width {
                        vstd::arithmetic::div_mod::lemma_fundamental_div_mod(i, wi);
                        assert(i == wi * (i / wi) + i % wi);
                        assert(wi * (y as int) == y * wi) by(nonlinear_arith);
                        assert(false);
                    }
                }
            }
        }

        buffer_offset += bw;
    }
}
}
fn main() {}
