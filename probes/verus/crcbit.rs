use vstd::prelude::*;
verus! {
pub open spec fn step(c: u32) -> u32 { if c & 1u32 == 1u32 { 0xEDB88320u32 ^ (c >> 1u32) } else { c >> 1u32 } }
pub open spec fn step8(c: u32) -> u32 { step(step(step(step(step(step(step(step(c)))))))) }

// textbook: xor the byte into the low bits of the register, then 8 single-bit steps
pub open spec fn bitwise_update(c: u32, b: u8) -> u32 { step8(c ^ (b as u32)) }
// table-driven update as in the code
pub open spec fn table_update(c: u32, b: u8) -> u32 { step8((c ^ (b as u32)) & 0xFF) ^ (c >> 8u32) }

proof fn table_is_bitwise(c: u32, b: u8)
    ensures table_update(c, b) == bitwise_update(c, b)
{
    let x = c ^ (b as u32);
    let bb = b as u32;
    assert(bb < 256);
    assert(step8(x & 0xFF) ^ (x >> 8u32) == step8(x)) by(bit_vector);
    assert((c ^ bb) >> 8u32 == c >> 8u32) by(bit_vector) requires bb < 256;
}
}
fn main() {}
