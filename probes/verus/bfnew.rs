use vstd::prelude::*;
verus! {
const ROUNDS: usize = 16;
const KEYBITS: u32 = 64u32 >> 3;
pub const BLOWFISH_P: [u32; 18] = [
    0x243f6a88, 0x85a308d3, 0x13198a2e, 0x03707344, 0xa4093822, 0x299f31d0, 0x082efa98, 0xec4e6c89,
    0x452821e6, 0x38d01377, 0xbe5466cf, 0x34e90c6c, 0xc0ac29b7, 0xc97c50dd, 0x3f84d5b5, 0xb5470917,
    0x9216d5d9, 0x8979fb1b,
];
pub const BLOWFISH_S: [[u32; 4]; 4] = [[1,2,3,4],[1,2,3,4],[1,2,3,4],[1,2,3,4]];

pub struct Blowfish {
    p: [u32; 18],
    s: [[u32; 4]; 4],
}

impl Blowfish {
    #[verifier::external_body]
    fn encrypt_pair(&self, l: u32, r: u32) -> (u32, u32) { (l, r) }

    pub fn new(key: &[u8]) -> Blowfish
        requires key.len() >= 8
    {
        let mut s = Self {
            p: BLOWFISH_P,
            s: BLOWFISH_S,
        };

        let mut j = 0usize;
        for i in 0..ROUNDS + 2 {
            let mut data = 0u32;
            for _ in 0..4 {
                data = (data << 8) | (key[j] as u32);
                j += 1;

                if j >= (KEYBITS as usize) {
                    j = 0;
                }
            }

            s.p[i] ^= data;
        }

        let mut l = 0u32;
        let mut r = 0u32;

        let mut i = 0; while i < 18 invariant i % 2 == 0 decreases 18 - i {
            let (l_new, r_new) = s.encrypt_pair(l, r);
            s.p[i] = l_new;
            s.p[i + 1] = r_new;

            l = l_new;
            r = r_new;
        i += 2; }

        for i in 0..4 {
            let mut j = 0; while j < 4 invariant j % 2 == 0, 0 <= i < 4 decreases 4 - j {
                let (l_new, r_new) = s.encrypt_pair(l, r);
                s.s[i][j] = l_new;
                s.s[i][j + 1] = r_new;

                l = l_new;
                r = r_new;
            j += 2; }
        }

        s
    }
}
}
fn main() {}
