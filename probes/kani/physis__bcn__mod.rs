
#[cfg(kani)]
mod verif_kani {
    use super::*;
    #[kani::proof]
    #[kani::unwind(17)]
    fn bc1_image_5x3() {
        const W: usize = 5; const H: usize = 3;
        let data: [u8; 16] = kani::any();
        let mut img = [0u32; W * H];
        assert!(decode_bc1(&data, W, H, &mut img).is_ok());
        let mut b0 = [0u32; 16]; let mut b1 = [0u32; 16];
        decode_bc1_block(&data[0..8], &mut b0);
        decode_bc1_block(&data[8..16], &mut b1);
        let x: usize = kani::any(); let y: usize = kani::any();
        kani::assume(x < W && y < H);
        let exp = if x < 4 { b0[y * 4 + x] } else { b1[y * 4 + (x - 4)] };
        assert!(img[y * W + x] == exp);
    }
}
