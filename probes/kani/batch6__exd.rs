
#[cfg(kani)]
mod verif_kani {
    use super::*;
    use crate::exh::{EXHHeader};
    fn mk_exh() -> EXH {
        EXH { header: EXHHeader { version: 3, data_offset: 12, column_count: 1, page_count: 0, language_count: 0, row_count: 1 },
              column_definitions: vec![], pages: vec![], languages: vec![] }
    }
    #[kani::proof]
    fn exd_cell_bool_off2() {
        let arr: [u8; 16] = kani::any();
        kani::assume(arr[2] <= 1);
        let data = arr.to_vec();
        let column = ExcelColumnDefinition { data_type: ColumnDataType::Bool, offset: 2 };
        let mut cursor = Cursor::new(&data);
        cursor.seek(SeekFrom::Start(2)).unwrap();
        match EXD::read_column(&mut cursor, &mk_exh(), 0, &column) {
            Some(ColumnData::Bool(v)) => assert!(v == (arr[2] == 1)),
            _ => assert!(false),
        }
    }
    #[kani::proof]
    fn exd_cell_packed3_off2() {
        let arr: [u8; 16] = kani::any();
        let data = arr.to_vec();
        let column = ExcelColumnDefinition { data_type: ColumnDataType::PackedBool3, offset: 2 };
        let mut cursor = Cursor::new(&data);
        cursor.seek(SeekFrom::Start(2)).unwrap();
        match EXD::read_column(&mut cursor, &mk_exh(), 0, &column) {
            Some(ColumnData::Bool(v)) => assert!(v == (arr[2] & 8 != 0)),
            _ => assert!(false),
        }
    }
}
