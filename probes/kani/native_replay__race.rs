
#[cfg(any(kani, physis_verif_native))]
mod verif_units {
    use super::*;

    /// contract of get_supported_tribes, shared by the Kani harness and the native replay
    pub fn unit_tribes(code: u8) -> Result<(), String> {
        let race = Race::try_from(code).map_err(|_| "bad race".to_string())?;
        let t = get_supported_tribes(race);
        if t[0] as u8 != 2 * code - 1 || t[1] as u8 != 2 * code {
            return Err(format!("race {code}: tribes {:?} != [{}, {}]", t, 2 * code - 1, 2 * code));
        }
        Ok(())
    }

    #[cfg(kani)]
    #[kani::proof]
    fn k_tribes() { let c: u8 = kani::any(); kani::assume(c >= 1 && c <= 8); assert!(unit_tribes(c).is_ok()); }

    #[cfg(physis_verif_native)]
    #[test]
    fn replay_tribes() {
        let bytes = std::env::var("VERIF_REPLAY").unwrap();
        let code: u8 = bytes.parse().unwrap();
        match unit_tribes(code) { Ok(()) => println!("REPLAY-OK"), Err(e) => { println!("REPLAY-VIOLATION {e}"); panic!("{e}") } }
    }
}
