
#[cfg(kani)]
mod verif_kani {
    use super::*;

    static mut REC: [[u8; 64]; 2] = [[0; 64]; 2];
    static mut NREC: usize = 0;

    fn record_process(_s: &mut Sha1State, block: &[u8; 64]) {
        unsafe {
            if NREC < 2 { REC[NREC] = *block; }
            NREC += 1;
        }
    }

    #[kani::proof]
    #[kani::stub(Sha1State::process, record_process)]
    fn digest_padding() {
        let blen: u32 = kani::any();
        kani::assume(blen < 64);
        let total: u64 = kani::any();
        kani::assume(total <= (u64::MAX / 8) - 64);
        let block: [u8; 64] = kani::any();
        let s = Sha1 { state: DEFAULT_STATE, blocks: Blocks { len: blen, block }, len: total };
        let _ = s.digest();
        let bits = (total + blen as u64) * 8;
        let n = unsafe { NREC };
        assert!(n == if blen < 56 { 1 } else { 2 });
        let i: usize = kani::any();
        kani::assume(i < 128);
        let got = unsafe { REC[i / 64][i % 64] };
        let lastblk = if blen < 56 { 0 } else { 1 };
        if i / 64 <= lastblk {
            let exp = if i < blen as usize { block[i] }
                else if i == blen as usize { 0x80 }
                else if i / 64 == lastblk && i % 64 >= 56 { (bits >> (8 * (63 - (i % 64)))) as u8 }
                else { 0 };
            assert!(got == exp);
        }
    }
}
