
#[cfg(kani)]
mod verif_kani {
    use super::*;
    fn stub_fmt(_a: core::fmt::Arguments<'_>) -> String { String::new() }

    // SqpkAddData: pad 3, main_id u16, sub_id u16, file_id u32, 3 x u32 (<<7), then block_number bytes
    #[kani::proof]
    #[kani::unwind(3)]
    #[kani::stub(alloc::fmt::format, stub_fmt)]
    fn sqpk_add_data_offsets() {
        let mut b = [0u8; 23];
        let off: u32 = kani::any();
        let del: u32 = kani::any();
        let ids: [u8; 8] = kani::any();
        let mut i = 0; while i < 8 { b[3 + i] = ids[i]; i += 1; }
        let ob = off.to_be_bytes(); let db = del.to_be_bytes();
        b[11] = ob[0]; b[12] = ob[1]; b[13] = ob[2]; b[14] = ob[3];
        // block_number = 0 (concrete) -> no payload
        b[19] = db[0]; b[20] = db[1]; b[21] = db[2]; b[22] = db[3];
        let mut c = Cursor::new(&b[..]);
        match SqpkAddData::read(&mut c) {
            Ok(a) => {
                assert!(a.main_id == u16::from_be_bytes([ids[0], ids[1]]));
                assert!(a.sub_id == u16::from_be_bytes([ids[2], ids[3]]));
                assert!(a.file_id == u32::from_be_bytes([ids[4], ids[5], ids[6], ids[7]]));
                assert!(a.block_offset == (off as u64) * 128);
                assert!(a.block_number == 0 && a.block_data.len() == 0);
                assert!(a.block_delete_number == (del as u64) * 128);
                assert!(c.position() == 23);
                core::mem::forget(a);
            }
            Err(e) => { core::mem::forget(e); assert!(false); }
        }
    }
}
