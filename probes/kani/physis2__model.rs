
#[cfg(kani)]
mod verif_kani {
    use super::*;

    fn bb() -> BoundingBox { BoundingBox { min: [0.0; 4], max: [0.0; 4] } }
    fn any_mesh(submesh_index: u16) -> Mesh {
        let sc: u8 = kani::any();
        kani::assume(sc <= 3);
        Mesh { vertex_count: kani::any(), index_count: kani::any(), material_index: 0, submesh_index, submesh_count: 1,
               bone_table_index: 0, start_index: kani::any(), vertex_buffer_offsets: kani::any(), vertex_buffer_strides: kani::any(), vertex_stream_count: sc }
    }
    fn lod(mesh_index: u16, mesh_count: u16) -> MeshLod {
        MeshLod { mesh_index, mesh_count, model_lod_range: 0.0, texture_lod_range: 0.0, water_mesh_index: 0, water_mesh_count: 0,
            shadow_mesh_index: 0, shadow_mesh_count: 0, terrain_shadow_mesh_count: 0, terrain_shadow_mesh_index: 0,
            vertical_fog_mesh_index: 0, vertical_fog_mesh_count: 0, edge_geometry_size: 0, edge_geometry_data_offset: 0,
            polygon_count: 0, vertex_buffer_size: kani::any(), index_buffer_size: kani::any(), vertex_data_offset: kani::any(), index_data_offset: kani::any() }
    }

    fn cmesh(submesh_index: u16) -> Mesh {
        Mesh { vertex_count: kani::any(), index_count: kani::any(), material_index: 0, submesh_index, submesh_count: 1,
               bone_table_index: 0, start_index: kani::any(), vertex_buffer_offsets: kani::any(), vertex_buffer_strides: [20, 24, 0], vertex_stream_count: 2 }
    }

    fn mk(meshes: Vec<Mesh>, lods: Vec<MeshLod>) -> MDL {
        let submeshes = vec![
            Submesh { index_offset: kani::any(), index_count: 0, attribute_index_mask: 0, bone_start_index: 0, bone_count: 0 },
            Submesh { index_offset: kani::any(), index_count: 0, attribute_index_mask: 0, bone_start_index: 0, bone_count: 0 },
        ];
        let header = ModelHeader {
            vertex_declarations: vec![], string_count: 0, string_size: 64, strings: vec![], radius: 0.0,
            mesh_count: 2, attribute_count: 0, submesh_count: 2, material_count: 0, bone_count: 0, bone_table_count: 0,
            shape_count: 0, shape_mesh_count: 0, shape_value_count: 0, lod_count: 1, flags1: ModelFlags1::ShadowDisabled,
            element_id_count: 0, terrain_shadow_mesh_count: 0, flags2: ModelFlags2::None, model_clip_out_of_distance: 0.0,
            shadow_clip_out_of_distance: 0.0, unknown4: 0, terrain_shadow_submesh_count: 0, unknown5: 0,
            bg_change_material_index: 0, bg_crest_change_material_index: 0, unknown6: 0, unknown7: 0, unknown8: 0, unknown9: 0,
        };
        let model_data = ModelData {
            header, element_ids: vec![], lods, meshes, attribute_name_offsets: vec![],
            terrain_shadow_meshes: vec![], submeshes, terrain_shadow_submeshes: vec![], material_name_offsets: vec![],
            bone_name_offsets: vec![], bone_tables: vec![], bone_tables_v2: vec![], shapes: vec![], shape_meshes: vec![],
            shape_values: vec![], submesh_bone_map_size: 0, submesh_bone_map_size_v2: 0, submesh_bone_map: vec![],
            padding_amount: 0, unknown_padding: vec![], bounding_box: bb(), model_bounding_box: bb(), water_bounding_box: bb(),
            vertical_fog_bounding_box: bb(), bone_bounding_boxes: vec![],
        };
        let file_header = ModelFileHeader { version: 0x1000005, stack_size: 0, runtime_size: 0, vertex_declaration_count: 2,
            material_count: 0, vertex_offsets: [0; 3], index_offsets: [0; 3], vertex_buffer_size: [0; 3], index_buffer_size: [0; 3],
            lod_count: 1, index_buffer_streaming_enabled: false, has_edge_geometry: false };
        MDL { file_header, model_data, lods: vec![Lod { parts: vec![] }], affected_bone_names: vec![], material_names: vec![] }
    }

    #[kani::proof]
    #[kani::unwind(4)]
    fn update_headers_1lod_2meshes_sizes() {
        let meshes = vec![cmesh(0), cmesh(1)];
        kani::assume(meshes[0].index_count < 0x0100_0000 && meshes[1].index_count < 0x0100_0000);
        let (v0, v1, i0, i1) = (meshes[0].vertex_count as u32, meshes[1].vertex_count as u32, meshes[0].index_count, meshes[1].index_count);
        let mut mdl = mk(meshes, vec![lod(0, 2), lod(2, 0), lod(2, 0)]);
        mdl.update_headers();
        let l = &mdl.model_data.lods;
        assert!(l[0].vertex_buffer_size == 44 * v0 + 44 * v1);
        let ib0 = (i0 + i1) * 2;
        assert!(l[0].index_buffer_size % 16 == 0 && l[0].index_buffer_size > ib0 && l[0].index_buffer_size <= ib0 + 16);
        assert!(l[0].index_data_offset == l[0].vertex_data_offset + l[0].vertex_buffer_size);
        assert!(l[1].vertex_data_offset == l[0].index_data_offset + l[0].index_buffer_size);
        let m = &mdl.model_data.meshes;
        assert!(m[0].vertex_buffer_offsets[0] == 0 && m[0].vertex_buffer_offsets[1] == 20 * v0);
        assert!(m[1].vertex_buffer_offsets[0] == 44 * v0 && m[1].vertex_buffer_offsets[1] == 44 * v0 + 20 * v1);
    }
}
