
#[cfg(kani)]
mod verif_kani {
    use super::*;

    fn ascii_lower_model(s: &str) -> String {
        // ASCII-only model of str::to_lowercase
        let b = s.as_bytes();
        let mut v: Vec<u8> = Vec::with_capacity(b.len());
        let mut i = 0;
        while i < b.len() { v.push(b[i].to_ascii_lowercase()); i += 1; }
        unsafe { String::from_utf8_unchecked(v) }
    }

    fn spec_jamcrc(bytes: &[u8]) -> u32 {
        let mut c: u32 = 0xFFFF_FFFF;
        let mut i = 0;
        while i < bytes.len() {
            c ^= bytes[i] as u32;
            let mut k = 0;
            while k < 8 { c = if c & 1 == 1 { (c >> 1) ^ 0xEDB8_8320 } else { c >> 1 }; k += 1; }
            i += 1;
        }
        c
    }

    #[kani::proof]
    #[kani::unwind(9)]
    #[kani::stub(str::to_lowercase, ascii_lower_model)]
    fn partial_hash_ascii4() {
        let b: [u8; 4] = kani::any();
        kani::assume(b[0] < 128 && b[1] < 128 && b[2] < 128 && b[3] < 128);
        let s = unsafe { std::str::from_utf8_unchecked(&b) };
        let h = SqPackIndex::calculate_partial_hash(s);
        let lower = [b[0].to_ascii_lowercase(), b[1].to_ascii_lowercase(), b[2].to_ascii_lowercase(), b[3].to_ascii_lowercase()];
        assert!(h == spec_jamcrc(&lower));
    }
}
