
#[cfg(kani)]
mod verif_kani {
    use super::*;
    #[kani::proof]
    #[kani::unwind(17)]
    fn bc3_alpha_spec() {
        let data: [u8; 8] = kani::any();
        let init: [u32; 16] = kani::any();
        let mut out = init;
        let ch: usize = kani::any();
        kani::assume(ch >= 1 && ch <= 3);
        decode_bc3_alpha(&data, &mut out, ch);
        let px: usize = kani::any();
        kani::assume(px < 16);
        let bits = u64::from_le_bytes(data) >> 16;
        let sel = ((bits >> (3 * px)) & 7) as u16;
        let (a0, a1) = (data[0] as u16, data[1] as u16);
        let exp: u16 = if sel == 0 { a0 } else if sel == 1 { a1 }
            else if a0 > a1 { ((8 - sel) * a0 + (sel - 1) * a1) / 7 }
            else if sel < 6 { ((6 - sel) * a0 + (sel - 1) * a1) / 5 }
            else if sel == 6 { 0 } else { 255 };
        let got = out[px].to_le_bytes();
        let old = init[px].to_le_bytes();
        assert!(got[ch] as u16 == exp);
        let mut k = 0;
        while k < 4 { if k != ch { assert!(got[k] == old[k]); } k += 1; }
    }
}
