
#[cfg(kani)]
mod verif_kani {
    use super::*;

    fn model_enc(_s: &Blowfish, l: u32, r: u32) -> (u32, u32) { (r.rotate_left(5) ^ 0x9E37_79B9, l.wrapping_add(0x1234_5678)) }
    fn model_dec(_s: &Blowfish, l: u32, r: u32) -> (u32, u32) { (r.wrapping_sub(0x1234_5678), (l ^ 0x9E37_79B9).rotate_right(5)) }

    #[kani::proof]
    #[kani::unwind(18)]
    #[kani::stub(Blowfish::encrypt_pair, model_enc)]
    #[kani::stub(Blowfish::decrypt_pair, model_dec)]
    fn framing_len13() {
        let fish = Blowfish { p: [0; 18], s: [[0; 256]; 4] };
        let m: [u8; 13] = kani::any();
        let c = fish.encrypt(&m).unwrap();
        assert!(c.len() == 16);
        let mut padded = [0u8; 16];
        let mut i = 0; while i < 13 { padded[i] = m[i]; i += 1; }
        let mut k = 0;
        while k < 2 {
            let l = u32::from_le_bytes([padded[8 * k], padded[8 * k + 1], padded[8 * k + 2], padded[8 * k + 3]]);
            let r = u32::from_le_bytes([padded[8 * k + 4], padded[8 * k + 5], padded[8 * k + 6], padded[8 * k + 7]]);
            let (el, er) = model_enc(&fish, l, r);
            let eb = [el.to_le_bytes(), er.to_le_bytes()];
            let mut q = 0; while q < 4 { assert!(c[8 * k + q] == eb[0][q] && c[8 * k + 4 + q] == eb[1][q]); q += 1; }
            k += 1;
        }
        let d = fish.decrypt(&c).unwrap();
        assert!(d.len() == 16);
        let mut i = 0; while i < 16 { assert!(d[i] == padded[i]); i += 1; }
    }
}
