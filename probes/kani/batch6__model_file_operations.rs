
#[cfg(kani)]
mod verif_kani {
    use super::*;
    #[kani::proof]
    fn tangent_roundtrip_and_spec() {
        let b: [u8; 4] = kani::any();
        let mut rc = Cursor::new(&b[..]);
        let t = MDL::read_tangent(&mut rc).unwrap();
        let e0 = b[0] as f32 * 2.0 / 255.0 - 1.0;
        assert!(t[0].to_bits() == e0.to_bits());
        assert!(t[3] == if b[3] == 255 { 1.0 } else { -1.0 });
        kani::assume(b[3] == 0 || b[3] == 255);
        let mut out = [0u8; 4];
        { let mut wc = Cursor::new(&mut out[..]); MDL::write_tangent(&mut wc, &t).unwrap(); }
        assert!(out == b);
    }
}
