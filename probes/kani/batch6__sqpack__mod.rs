
#[cfg(kani)]
mod verif_kani {
    use super::*;
    use std::io::Cursor;

    // raw block: header (size=16, pad, x=32000, y=3) + 3 payload bytes, at position 128 of a 160-byte image
    #[kani::proof]
    #[kani::unwind(5)]
    fn read_data_block_raw_len3_at128() {
        let mut img = [0u8; 160];
        img[128] = 16; img[136] = 0x00; img[137] = 0x7D; // 32000 = 0x7D00
        img[140] = 3;
        let p: [u8; 3] = kani::any();
        img[144] = p[0]; img[145] = p[1]; img[146] = p[2];
        let c = Cursor::new(&img[..]);
        match read_data_block(c, 128) {
            Some(v) => { assert!(v.len() == 3 && v[0] == p[0] && v[1] == p[1] && v[2] == p[2]); core::mem::forget(v); }
            None => assert!(false),
        }
    }
}
