
#[cfg(kani)]
mod verif_kani {
    use super::*;
    use crate::repository::RepositoryType;

    fn repo(name: &str, t: RepositoryType) -> Repository {
        Repository { name: name.to_string(), platform: Platform::Win32, repo_type: t, version: None }
    }

    fn rs_model() -> std::collections::hash_map::RandomState {
        unsafe { core::mem::transmute::<(u64, u64), std::collections::hash_map::RandomState>((0, 0)) }
    }

    #[kani::proof]
    #[kani::unwind(12)]
    #[kani::stub(std::collections::hash_map::RandomState::new, rs_model)]
    fn repo_category_second_segment() {
        let gd = GameData {
            game_directory: String::new(),
            repositories: vec![repo("ffxiv", RepositoryType::Base), repo("ex1", RepositoryType::Expansion { number: 1 })],
            index_files: HashMap::new(),
        };
        // "bg/ex1/" + 1 symbolic lower-case letter
        let c: u8 = kani::any();
        kani::assume(c >= b'a' && c <= b'z');
        let bytes = [b'b', b'g', b'/', b'e', b'x', b'1', b'/', c];
        let path = unsafe { std::str::from_utf8_unchecked(&bytes) };
        let r = gd.parse_repository_category(path);
        match r {
            Some((repo, cat)) => { assert!(cat == Category::Background); assert!(repo.name.len() == 3); }
            None => assert!(false),
        }
        core::mem::forget(gd);
    }
}
