
#[cfg(kani)]
mod verif_kani {
    use super::*;

    fn any_repo() -> Repository {
        let base: bool = kani::any();
        let n: i32 = kani::any();
        kani::assume(n >= 1 && n <= 9);
        Repository { name: String::new(), platform: Platform::Win32, repo_type: if base { Base } else { Expansion { number: n } }, version: None }
    }
    fn key(r: &Repository) -> i32 { match r.repo_type { Base => 0, Expansion { number } => number } }

    #[kani::proof]
    fn repo_cmp_order() {
        let a = any_repo();
        let b = any_repo();
        kani::assume(!(key(&a) == 0 && key(&b) == 0));
        assert!(a.cmp(&b) == key(&a).cmp(&key(&b)));
    }

    #[kani::proof]
    #[kani::unwind(6)]
    fn repo_sort3() {
        let mut v = vec![any_repo(), any_repo(), any_repo()];
        let k = [key(&v[0]), key(&v[1]), key(&v[2])];
        kani::assume(k[0] != k[1] && k[1] != k[2] && k[0] != k[2]);
        v.sort();
        assert!(key(&v[0]) < key(&v[1]) && key(&v[1]) < key(&v[2]));
    }
}
