
#[cfg(kani)]
mod verif_kani {
    use super::*;
    #[kani::proof]
    fn plate_grid_roundtrip() {
        let x: i16 = kani::any();
        let pos = 128u32 as f32 * (x as f32 + 0.5);
        let back = ((pos / 128 as f32) - 0.5) as i16;
        assert!(back == x);
    }
}
