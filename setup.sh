#!/bin/sh
# Builds the dependency-only build cache used by ./check (offline, from files on disk only).
# The cache holds compiled *dependencies* (binrw, half, ...) for the Kani toolchain; the physis crate itself
# is rebuilt from /repo's working tree on every check run.  Without the cache every check still works, ~25 s slower.
set -e
cd "$(dirname "$0")"
export CARGO_NET_OFFLINE=true
mkdir -p .cache logs evidence replays
S=$(mktemp -d "${TMPDIR:-/tmp}/physis-verif-setup.XXXXXX")
trap 'rm -rf "$S"' EXIT
rsync -a --exclude /target --exclude /.git /repo/ "$S/"
cat >> "$S/src/lib.rs" <<'EOT'

#[cfg(kani)]
mod verif_setup {
    #[kani::proof]
    fn setup_probe() { let x: u8 = kani::any(); assert!(x as u16 <= 255); }
    #[test]
    fn setup_probe_native() { kani::concrete_playback_run(vec![vec![1u8]], setup_probe); }
}
EOT
(cd "$S" && cargo kani -Z unstable-options --harness setup_probe --output-format terse >/dev/null 2>&1) || echo "setup: kani warm-up build failed (checks will build from scratch)"
(cd "$S" && cargo kani playback -Z concrete-playback --lib -- verif_setup >/dev/null 2>&1) || echo "setup: playback warm-up build failed (replays will build from scratch)"
rm -rf .cache/kani-target
if [ -d "$S/target" ]; then
  # drop everything that belongs to the physis crate itself
  find "$S/target" -depth \( -name 'physis*' -o -name 'libphysis*' \) -exec rm -rf {} + 2>/dev/null || true
  mv "$S/target" .cache/kani-target
fi
./check --list >/dev/null  # also builds the shadow KANI_HOME (goto-instrument wrapper)
verus --version >/dev/null
echo "setup done: $(du -sh .cache/kani-target 2>/dev/null | cut -f1) dependency cache"
