#!/usr/bin/env python3
"""Generates units/kani/exd.rs (one harness per column type and offset; the text is committed)."""
import os
ints = [("Int8", "i8", 1), ("UInt8", "u8", 1), ("Int16", "i16", 2), ("UInt16", "u16", 2), ("Int32", "i32", 4), ("UInt32", "u32", 4), ("Int64", "i64", 8), ("UInt64", "u64", 8)]
out = []
out.append('''//@module src/exd.rs
use super::*;
use crate::exh::EXHHeader;

fn stub_fmt(_a: core::fmt::Arguments<'_>) -> String { String::new() }
fn mk_exh(data_offset: u16, cols: Vec<ExcelColumnDefinition>) -> EXH {
    EXH { header: EXHHeader { version: 3, data_offset, column_count: cols.len() as u16, page_count: 0, language_count: 0, row_count: 1 },
          column_definitions: cols, pages: vec![], languages: vec![] }
}
/// read one cell of type `dt` stored at `off` in a 24-byte symbolic row (row_offset 0)
fn cell(arr: &[u8; 24], dt: ColumnDataType, off: u16) -> Option<ColumnData> {
    let data = arr.to_vec();
    let column = ExcelColumnDefinition { data_type: dt, offset: off };
    let exh = mk_exh(16, vec![]);
    let mut cursor = Cursor::new(&data);
    cursor.seek(SeekFrom::Start(off as u64)).unwrap();
    let r = EXD::read_column(&mut cursor, &exh, 0, &column);
    core::mem::forget(exh);
    r
}
''')
for off, tier in ((5, "quick"), (0, "thorough"), (1, "thorough")):
    for name, ty, w in ints:
        be = ", ".join("arr[%d]" % (off + k) for k in range(w))
        out.append('''
//@unit props=C05 label=S tier=%s fn=exd::EXD::read_column bound="column type %s at column offset %d in a 24-byte row, all contents"
//@desc the cell is the big-endian %s stored at row_offset + column.offset
#[kani::proof]
#[kani::unwind(26)]
fn k_exd_cell_%s_off%d() {
    let arr: [u8; 24] = kani::any();
    match cell(&arr, ColumnDataType::%s, %d) {
        Some(ColumnData::%s(v)) => assert!(v == %s::from_be_bytes([%s]), "cell equals the stored big-endian value"),
        _ => assert!(false, "cell of the declared type"),
    }
    kani::cover!(true, "reachable");
}
''' % (tier, name, off, ty, name.lower(), off, name, off, name, ty, be))
    be = ", ".join("arr[%d]" % (off + k) for k in range(4))
    out.append('''
//@unit props=C05 label=S tier=%s fn=exd::EXD::read_column bound="column type Float32 at column offset %d in a 24-byte row, all contents"
//@desc the cell has the bits of the big-endian 32-bit word stored at the column offset
#[kani::proof]
#[kani::unwind(26)]
fn k_exd_cell_float32_off%d() {
    let arr: [u8; 24] = kani::any();
    match cell(&arr, ColumnDataType::Float32, %d) {
        Some(ColumnData::Float32(v)) => assert!(v.to_bits() == u32::from_be_bytes([%s]), "cell has the stored bits"),
        _ => assert!(false, "cell of the declared type"),
    }
    kani::cover!(true, "reachable");
}
''' % (tier, off, off, off, be))
    out.append('''
//@unit props=C05 label=S tier=%s fn=exd::EXD::read_column bound="column type Bool at column offset %d in a 24-byte row, all contents"
//@desc the cell is false for a stored byte 0 and true for every other stored byte (the reference decoders - SaintCoinach, Lumina - read a whole-byte boolean as byte != 0), whatever bytes follow it
#[kani::proof]
#[kani::unwind(26)]
fn k_exd_cell_bool_off%d() {
    let arr: [u8; 24] = kani::any();
    let _ = %d;
    match cell(&arr, ColumnDataType::Bool, %d) {
        Some(ColumnData::Bool(v)) => assert!(v == (arr[%d] != 0), "boolean cell = (the one stored byte != 0)"),
        _ => assert!(false, "cell of the declared type"),
    }
    kani::cover!(true, "reachable");
}
''' % (tier, off, off, off, off, off))
    for n in range(8):
        t = tier if (n in (0, 3, 7) or tier == "thorough") else "thorough"
        out.append('''
//@unit props=C05 label=S tier=%s fn=exd::EXD::read_column bound="column type PackedBool%d at column offset %d in a 24-byte row, all contents"
//@desc the cell is bit %d of the one byte stored at the column offset; the bytes after it do not matter
#[kani::proof]
#[kani::unwind(26)]
fn k_exd_cell_packedbool%d_off%d() {
    let arr: [u8; 24] = kani::any();
    match cell(&arr, ColumnDataType::PackedBool%d, %d) {
        Some(ColumnData::Bool(v)) => assert!(v == (arr[%d] & (1 << %d) != 0), "packed boolean = bit n of the stored byte"),
        _ => assert!(false, "cell of the declared type"),
    }
    kani::cover!(true, "reachable");
}
''' % (t, n, off, n, n, off, n, off, off, n))

out.append('''
//@unit props=C05 label=B tier=quick fn=exd::EXD::read_column bound="String column at offset 4, data_offset 8, string offset word 1, strings of at most 2 characters before the NUL, row of 12 bytes"
//@desc the string offset word is big-endian; the characters are read from row_offset + data_offset + string_offset up to the NUL
#[kani::proof]
#[kani::unwind(14)]
fn k_exd_cell_string() {
    let mut arr: [u8; 12] = kani::any();
    arr[4] = 0; arr[5] = 0; arr[6] = 0; arr[7] = 1;
    kani::assume(arr[9] < 128 && arr[10] < 128);
    arr[11] = 0;
    let data = arr.to_vec();
    let column = ExcelColumnDefinition { data_type: ColumnDataType::String, offset: 4 };
    let exh = mk_exh(8, vec![]);
    let mut cursor = Cursor::new(&data);
    cursor.seek(SeekFrom::Start(4)).unwrap();
    match EXD::read_column(&mut cursor, &exh, 0, &column) {
        Some(ColumnData::String(s)) => {
            let b = s.as_bytes();
            let n = if arr[9] == 0 { 0 } else if arr[10] == 0 { 1 } else { 2 };
            assert!(b.len() == n, "string ends at the first NUL");
            if n >= 1 { assert!(b[0] == arr[9], "first character at row_offset + data_offset + string_offset"); }
            if n >= 2 { assert!(b[1] == arr[10], "second character"); }
            core::mem::forget(s);
        }
        _ => assert!(false, "string cell"),
    }
    kani::cover!(true, "reachable");
    core::mem::forget(exh);
}

fn mk_exd(data: Vec<u8>, offsets: Vec<ExcelDataOffset>) -> EXD {
    EXD { header: EXDHeader { version: 2, index_size: (offsets.len() * 8) as u32 }, data_offsets: offsets, data }
}

//@unit props=C05 label=S tier=quick fn=exd::EXD::read_row bound="page with 1 index entry (any id); row at offset 4 with row_count 1; schema of 2 columns (UInt16 at 0, UInt8 at 3); 16 data bytes symbolic" stubs=fmt::format
//@desc a known id yields one record whose cells are read at offset + 6 + column.offset, column by column
#[kani::proof]
#[kani::unwind(18)]
#[kani::stub(alloc::fmt::format, stub_fmt)]
fn k_exd_read_row_single() {
    let mut arr: [u8; 16] = kani::any();
    arr[8] = 0; arr[9] = 1; // row header at 4: data_size free, row_count = 1
    let id: u32 = kani::any();
    let exd = mk_exd(arr.to_vec(), vec![ExcelDataOffset { row_id: id, offset: 4 }]);
    let exh = mk_exh(4, vec![ExcelColumnDefinition { data_type: ColumnDataType::UInt16, offset: 0 }, ExcelColumnDefinition { data_type: ColumnDataType::UInt8, offset: 3 }]);
    match exd.read_row(&exh, id) {
        Some(rows) => {
            assert!(rows.len() == 1 && rows[0].data.len() == 2, "one record, one cell per column");
            match (&rows[0].data[0], &rows[0].data[1]) {
                (ColumnData::UInt16(a), ColumnData::UInt8(b)) => {
                    assert!(*a == u16::from_be_bytes([arr[10], arr[11]]), "column 0 at offset + 6 + 0");
                    assert!(*b == arr[13], "column 1 at offset + 6 + 3");
                }
                _ => assert!(false, "cell types follow the schema"),
            }
            core::mem::forget(rows);
        }
        None => assert!(false, "known row id yields a row"),
    }
    kani::cover!(true, "reachable");
    core::mem::forget(exd); core::mem::forget(exh);
}

//@unit props=C05 label=S tier=quick fn=exd::EXD::read_row bound="page with 2 index entries (any ids), query id different from both"
//@desc an unknown row id yields nothing
#[kani::proof]
#[kani::unwind(6)]
#[kani::stub(alloc::fmt::format, stub_fmt)]
fn k_exd_read_row_unknown_id() {
    let ids: [u32; 2] = kani::any();
    let exd = mk_exd(vec![0u8; 16], vec![ExcelDataOffset { row_id: ids[0], offset: 8 }, ExcelDataOffset { row_id: ids[1], offset: 0 }]);
    let exh = mk_exh(4, vec![]);
    let q: u32 = kani::any();
    kani::assume(q != ids[0] && q != ids[1]);
    assert!(exd.read_row(&exh, q).is_none(), "unknown row id yields nothing");
    kani::cover!(true, "reachable");
    core::mem::forget(exd); core::mem::forget(exh);
}

//@unit props=C05 label=S tier=quick fn=exd::EXD::read_row bound="row at offset 0 with row_count 2, data_offset 3, schema of 1 column (UInt8 at 1); 20 data bytes symbolic" stubs=fmt::format
//@desc sub-rows: one record per stored sub-row, sub-row i read at offset + 6 + i*(data_offset + 2) + 2, in order
#[kani::proof]
#[kani::unwind(22)]
#[kani::stub(alloc::fmt::format, stub_fmt)]
fn k_exd_read_row_subrows() {
    let mut arr: [u8; 20] = kani::any();
    arr[4] = 0; arr[5] = 2; // row_count = 2
    let id: u32 = kani::any();
    let exd = mk_exd(arr.to_vec(), vec![ExcelDataOffset { row_id: id, offset: 0 }]);
    let exh = mk_exh(3, vec![ExcelColumnDefinition { data_type: ColumnDataType::UInt8, offset: 1 }]);
    match exd.read_row(&exh, id) {
        Some(rows) => {
            assert!(rows.len() == 2, "one record per stored sub-row");
            match (&rows[0].data[0], &rows[1].data[0]) {
                (ColumnData::UInt8(a), ColumnData::UInt8(b)) => {
                    assert!(*a == arr[6 + 2 + 1], "sub-row 0 at offset + 6 + 2");
                    assert!(*b == arr[6 + (3 + 2) + 2 + 1], "sub-row 1 at offset + 6 + (data_offset + 2) + 2");
                }
                _ => assert!(false, "cell types follow the schema"),
            }
            core::mem::forget(rows);
        }
        None => assert!(false, "known row id yields rows"),
    }
    kani::cover!(true, "reachable");
    core::mem::forget(exd); core::mem::forget(exh);
}


//@unit props=C05 label=S tier=parked fn=exd::EXD::read_row bound="page with 2 index entries in any id order (ids symbolic, distinct); the wanted row is listed second; 1 column (UInt8 at 0); 16 data bytes symbolic" stubs=fmt::format
//@desc a stored row is found wherever it is listed in the page index, whatever ids precede it (the index need not be sorted)
#[kani::proof]
#[kani::unwind(18)]
#[kani::stub(alloc::fmt::format, stub_fmt)]
fn k_exd_read_row_second_entry() {
    let mut arr: [u8; 16] = kani::any();
    arr[8] = 0; arr[9] = 1;   // row header at 4: row_count = 1
    let ids: [u32; 2] = kani::any();
    kani::assume(ids[0] != ids[1]);
    let exd = mk_exd(arr.to_vec(), vec![ExcelDataOffset { row_id: ids[0], offset: 10 }, ExcelDataOffset { row_id: ids[1], offset: 4 }]);
    let exh = mk_exh(4, vec![ExcelColumnDefinition { data_type: ColumnDataType::UInt8, offset: 0 }]);
    match exd.read_row(&exh, ids[1]) {
        Some(rows) => {
            assert!(rows.len() == 1, "one record");
            match &rows[0].data[0] { ColumnData::UInt8(a) => assert!(*a == arr[10], "cell of the second listed row, read at its own offset + 6"), _ => assert!(false, "cell type") }
            core::mem::forget(rows);
        }
        None => assert!(false, "a stored row id yields its row wherever it is listed"),
    }
    kani::cover!(ids[0] > ids[1], "reachable");
    core::mem::forget(exd); core::mem::forget(exh);
}


//@unit props=C05 label=S tier=quick fn=exd::EXD::read_row bound="page with 2 index entries listed in descending id order (first id symbolic and larger than the wanted id 5); the wanted row is listed second; 1 column (UInt8 at 0); the cell byte symbolic" stubs=fmt::format
//@desc a stored row is found wherever it is listed in the page index, whatever ids precede it (the index need not be sorted)
#[kani::proof]
#[kani::unwind(18)]
#[kani::stub(alloc::fmt::format, stub_fmt)]
fn k_exd_read_row_second_entry_quick() {
    let mut arr = [0u8; 16];
    arr[10] = kani::any();
    arr[8] = 0; arr[9] = 1;   // row header at 4: row_count = 1
    let first: u32 = kani::any();
    kani::assume(first > 5);
    let ids: [u32; 2] = [first, 5];
    let exd = mk_exd(arr.to_vec(), vec![ExcelDataOffset { row_id: ids[0], offset: 10 }, ExcelDataOffset { row_id: ids[1], offset: 4 }]);
    let exh = mk_exh(4, vec![ExcelColumnDefinition { data_type: ColumnDataType::UInt8, offset: 0 }]);
    match exd.read_row(&exh, ids[1]) {
        Some(rows) => {
            assert!(rows.len() == 1, "one record");
            match &rows[0].data[0] { ColumnData::UInt8(a) => assert!(*a == arr[10], "cell of the second listed row, read at its own offset + 6"), _ => assert!(false, "cell type") }
            core::mem::forget(rows);
        }
        None => assert!(false, "a stored row id yields its row wherever it is listed"),
    }
    kani::cover!(ids[0] > ids[1], "reachable");
    core::mem::forget(exd); core::mem::forget(exh);
}


//@unit props=C05 label=S tier=quick fn=exd::EXD::read_row bound="row at offset 0 with row_count 2, data_offset 4, schema of 1 String column at 0; one-character ASCII strings (symbolic) stored right behind each sub-row's fixed part" stubs=fmt::format
//@desc string cells of sub-rows are resolved relative to their OWN sub-row (sub-row offset + data_offset + string offset), one record per sub-row
#[kani::proof]
#[kani::unwind(22)]
#[kani::stub(alloc::fmt::format, stub_fmt)]
fn k_exd_read_row_subrows_string() {
    let mut arr = [0u8; 20];
    arr[5] = 2; // row_count = 2 (big-endian u16 at 4)
    let c: [u8; 2] = kani::any();
    kani::assume(c[0] >= b'a' && c[0] <= b'z' && c[1] >= b'A' && c[1] <= b'Z');
    // sub-row 0 at 6 + 2 = 8: string offset word 0 at 8..12, its string at 8 + 4 + 0 = 12
    arr[12] = c[0]; arr[13] = 0;
    // sub-row 1 at 6 + (4 + 2) + 2 = 14: string offset word 0 at 14..18, its string at 14 + 4 + 0 = 18
    arr[18] = c[1]; arr[19] = 0;
    let id: u32 = kani::any();
    let exd = mk_exd(arr.to_vec(), vec![ExcelDataOffset { row_id: id, offset: 0 }]);
    let exh = mk_exh(4, vec![ExcelColumnDefinition { data_type: ColumnDataType::String, offset: 0 }]);
    match exd.read_row(&exh, id) {
        Some(rows) => {
            assert!(rows.len() == 2, "one record per stored sub-row");
            match (&rows[0].data[0], &rows[1].data[0]) {
                (ColumnData::String(a), ColumnData::String(b)) => {
                    assert!(a.as_bytes().len() == 1 && a.as_bytes()[0] == c[0], "string of sub-row 0, relative to sub-row 0");
                    assert!(b.as_bytes().len() == 1 && b.as_bytes()[0] == c[1], "string of sub-row 1, relative to sub-row 1");
                }
                _ => assert!(false, "cell types follow the schema"),
            }
            core::mem::forget(rows);
        }
        None => assert!(false, "known row id yields rows"),
    }
    kani::cover!(true, "reachable");
    core::mem::forget(exd); core::mem::forget(exh);
}

fn be32(b: &[u8], o: usize) -> u32 { u32::from_be_bytes([b[o], b[o + 1], b[o + 2], b[o + 3]]) }
fn be16(b: &[u8], o: usize) -> u16 { u16::from_be_bytes([b[o], b[o + 1]]) }

//@unit props=C05 label=S tier=quick fn=exd::{ExcelDataOffset,ExcelDataRowHeader}(derive),exh::{ExcelColumnDefinition,ExcelDataPagination,EXHHeader}(derive) bound="fixed-size records 8/6/4/8/32 bytes, all contents (EXH magic concrete; column type code held at UInt32)" stubs=fmt::format
//@desc big-endian field placement and bytes consumed of the sheet records
#[kani::proof]
#[kani::unwind(6)]
#[kani::stub(alloc::fmt::format, stub_fmt)]
fn k_excel_records() {
    let b: [u8; 8] = kani::any();
    let mut c = Cursor::new(&b[..]);
    match ExcelDataOffset::read(&mut c) {
        Ok(h) => { assert!(h.row_id == be32(&b, 0) && h.offset == be32(&b, 4), "row id, offset big-endian"); assert!(c.position() == 8, "8 bytes"); }
        Err(e) => { core::mem::forget(e); assert!(false, "parses"); }
    }
    let mut c = Cursor::new(&b[..]);
    match ExcelDataRowHeader::read(&mut c) {
        Ok(h) => { assert!(h.data_size == be32(&b, 0) && h.row_count == be16(&b, 4), "data size, row count big-endian"); assert!(c.position() == 6, "6 bytes"); }
        Err(e) => { core::mem::forget(e); assert!(false, "parses"); }
    }
    let mut c = Cursor::new(&b[..]);
    match ExcelDataPagination::read(&mut c) {
        Ok(h) => { assert!(h.start_id == be32(&b, 0) && h.row_count == be32(&b, 4), "start id, row count big-endian"); assert!(c.position() == 8, "8 bytes"); }
        Err(e) => { core::mem::forget(e); assert!(false, "parses"); }
    }
    let mut d = b; d[0] = 0; d[1] = 7;
    let mut c = Cursor::new(&d[..]);
    match ExcelColumnDefinition::read(&mut c) {
        Ok(h) => { assert!(h.data_type == ColumnDataType::UInt32 && h.offset == be16(&d, 2), "type code then big-endian offset"); assert!(c.position() == 4, "4 bytes"); }
        Err(e) => { core::mem::forget(e); assert!(false, "parses"); }
    }
    let mut hb: [u8; 32] = kani::any();
    hb[0] = b'E'; hb[1] = b'X'; hb[2] = b'H'; hb[3] = b'F';
    let mut c = Cursor::new(&hb[..]);
    match EXHHeader::read(&mut c) {
        Ok(h) => {
            assert!(h.version == be16(&hb, 4) && h.data_offset == be16(&hb, 6) && h.column_count == be16(&hb, 8) && h.page_count == be16(&hb, 10) && h.language_count == be16(&hb, 12), "header words");
            assert!(h.row_count == be32(&hb, 20), "row count after 6 bytes of padding");
            assert!(c.position() == 32, "32 bytes");
        }
        Err(e) => { core::mem::forget(e); assert!(false, "parses"); }
    }
    kani::cover!(true, "reachable");
}
''')
out.append('''
//@unit props=C05 label=B tier=quick native=1 fn=exd::EXD::calculate_filename bound="exhaustive by execution: 8 languages x start ids {0, 1, 500, 10000, u32::MAX} x 3 sheet names"
//@desc data pages are named <sheet>_<start id>.exd for language-neutral sheets and <sheet>_<start id>_<language code>.exd otherwise (ja, en, de, fr, chs, cht, ko)
#[test]
fn native_exd_filenames() {
    let langs = [(Language::None, ""), (Language::Japanese, "ja"), (Language::English, "en"), (Language::German, "de"), (Language::French, "fr"),
                 (Language::ChineseSimplified, "chs"), (Language::ChineseTraditional, "cht"), (Language::Korean, "ko")];
    let mut cases = 0u64;
    for (l, code) in langs.iter() {
        for start in [0u32, 1, 500, 10000, u32::MAX] {
            for name in ["Item", "quest/000/ClsArc000_00021", "a"] {
                let page = ExcelDataPagination { start_id: start, row_count: 1 };
                let got = EXD::calculate_filename(name, *l, &page);
                let want = if code.is_empty() { format!("{name}_{start}.exd") } else { format!("{name}_{start}_{code}.exd") };
                assert_eq!(got, want, "page file name");
                cases += 1;
            }
        }
    }
    println!("NATIVE native_exd_filenames cases={cases}");
}
''')
# hand-written native bounded units are kept in exd_native.rs.inc and appended verbatim
out.append(open(os.path.join(os.path.dirname(os.path.abspath(__file__)), "exd_native.rs.inc")).read())
open(os.path.join(os.path.dirname(os.path.abspath(__file__)), "..", "kani", "exd.rs"), "w").write("".join(out))
print("ok")
