#!/usr/bin/env python3
"""Generates units/kani/np__<module>.rs: bounded panic-freedom of whole-file entry points on short buffers (C18/C17)."""
import os
HERE = os.path.dirname(os.path.abspath(__file__))
# (source file, type path inside the module, property, label for fn=, extra use lines)
ENTRIES = [
 # header-only formats whose whole parser CBMC carries; every other from_existing (exd, exh, mtrl, shpk, model, skeleton, pbd, tera, stm,
 # dic, avfx, sqpack db, layer, chardat, fiin, pap, scd, schd, sgb, skp, uld) timed out even on empty buffers and is listed as not decided
 ("src/hwc.rs", "Hwc", "C18"), ("src/iwc.rs", "Iwc", "C18"), ("src/tmb.rs", "Tmb", "C18"), ("src/phyb.rs", "Phyb", "C18"),
]
for src, ty, prop in ENTRIES:
    base = src[4:-3].replace("/", "__")
    name = base.replace("__mod", "")
    out = '''//@module %s
//@modname np
use super::*;

fn np_stub_fmt(_a: core::fmt::Arguments<'_>) -> String { String::new() }
''' % src
    for n in (0, 8):
        out += '''
//@unit props=%s label=S tier=thorough fn=%s::%s::from_existing bound="buffers of exactly %d bytes, all contents" stubs=fmt::format
//@desc a file this short is rejected (or yields a best-effort value); parsing never panics
#[kani::proof]
#[kani::unwind(10)]
#[kani::stub(alloc::fmt::format, np_stub_fmt)]
fn k_np_%s_%d() {
    let b: [u8; %d] = kani::any();
    if let Some(v) = %s::from_existing(&b[..]) { core::mem::forget(v); }
    kani::cover!(true, "reachable");
}
''' % (prop, name.replace("__", "::"), ty, n, name, n, max(n, 1) if n else 1, ty)
        if n == 0:
            out = out.replace("let b: [u8; 1] = kani::any();\n    if let Some(v) = %s::from_existing(&b[..])" % ty, "let b: [u8; 1] = kani::any();\n    if let Some(v) = %s::from_existing(&b[..0])" % ty)
    open(os.path.join(HERE, "..", "kani", "np__%s.rs" % name), "w").write(out)
print("generated", len(ENTRIES))
