#!/usr/bin/env python3
"""Generates units/kani/np__<module>.rs: bounded panic-freedom of whole-file entry points on short buffers (C18/C17)."""
import os
HERE = os.path.dirname(os.path.abspath(__file__))
# (source file, type path inside the module, property, label for fn=, extra use lines)
ENTRIES = [
 ("src/hwc.rs", "Hwc", "C18"), ("src/iwc.rs", "Iwc", "C18"), ("src/pap.rs", "Pap", "C18"), ("src/phyb.rs", "Phyb", "C18"),
 ("src/scd.rs", "Scd", "C18"), ("src/schd.rs", "Schd", "C18"), ("src/sgb.rs", "Sgb", "C18"), ("src/skp.rs", "Skp", "C18"), ("src/tmb.rs", "Tmb", "C18"),
 ("src/uld.rs", "Uld", "C18"), ("src/stm.rs", "StainingTemplate", "C18"), ("src/tera.rs", "Terrain", "C18"), ("src/exh.rs", "EXH", "C18"),
 ("src/exd.rs", "EXD", "C18"), ("src/pbd.rs", "PreBoneDeformer", "C18"), ("src/skeleton.rs", "Skeleton", "C18"), ("src/dic.rs", "Dictionary", "C18"),
 ("src/avfx.rs", "Avfx", "C18"), ("src/sqpack/db.rs", "SqPackDatabase", "C18"), ("src/mtrl.rs", "Material", "C18"), ("src/shpk.rs", "ShaderPackage", "C18"),
 ("src/model.rs", "MDL", "C18"), ("src/chardat.rs", "CharacterData", "C17"), ("src/fiin.rs", "FileInfo", "C17"), ("src/layer/mod.rs", "LayerGroup", "C18"),
]
for src, ty, prop in ENTRIES:
    base = src[4:-3].replace("/", "__")
    name = base.replace("__mod", "")
    out = '''//@module %s
//@modname np
use super::*;

fn np_stub_fmt(_a: core::fmt::Arguments<'_>) -> String { String::new() }
''' % src
    for n in (0, 8):
        out += '''
//@unit props=%s label=S tier=thorough fn=%s::%s::from_existing bound="buffers of exactly %d bytes, all contents" stubs=fmt::format
//@desc a file this short is rejected (or yields a best-effort value); parsing never panics
#[kani::proof]
#[kani::unwind(10)]
#[kani::stub(alloc::fmt::format, np_stub_fmt)]
fn k_np_%s_%d() {
    let b: [u8; %d] = kani::any();
    if let Some(v) = %s::from_existing(&b[..]) { core::mem::forget(v); }
    kani::cover!(true, "reachable");
}
''' % (prop, name.replace("__", "::"), ty, n, name, n, max(n, 1) if n else 1, ty)
        if n == 0:
            out = out.replace("let b: [u8; 1] = kani::any();\n    if let Some(v) = %s::from_existing(&b[..])" % ty, "let b: [u8; 1] = kani::any();\n    if let Some(v) = %s::from_existing(&b[..0])" % ty)
    open(os.path.join(HERE, "..", "kani", "np__%s.rs" % name), "w").write(out)
print("generated", len(ENTRIES))
