//@module src/model_vertex_declarations.rs
use super::*;
use std::io::Cursor;

fn stub_fmt(_a: core::fmt::Arguments<'_>) -> String { String::new() }
fn valid_type(c: u8) -> bool { c <= 3 || (c >= 5 && c <= 10) || c == 13 || c == 14 || c == 16 || c == 17 }

//@unit props=C06 label=P tier=thorough fn=model_vertex_declarations::VertexElement(derive read) stubs=fmt::format
//@desc all 8-byte contents: stream, offset, type, usage, usage_index = bytes 0..4, 3 padding bytes skipped (8 consumed); Err exactly when the type or usage code is not a defined one
#[kani::proof]
#[kani::unwind(4)]
#[kani::stub(alloc::fmt::format, stub_fmt)]
fn k_vertex_element_read() {
    let b: [u8; 8] = kani::any();
    let mut c = Cursor::new(&b[..]);
    match VertexElement::read(&mut c) {
        Ok(e) => {
            assert!(e.stream == b[0] && e.offset == b[1] && e.vertex_type as u8 == b[2] && e.vertex_usage as u8 == b[3] && e.usage_index == b[4], "fields are bytes 0..4");
            assert!(valid_type(b[2]) && b[3] <= 7, "only defined codes accepted");
            assert!(c.position() == 8, "8 bytes incl. padding");
        }
        Err(e) => { core::mem::forget(e); assert!(!valid_type(b[2]) || b[3] > 7, "rejected only for undefined codes"); }
    }
    kani::cover!(true, "reachable");
}

fn any_element() -> VertexElement {
    let t: u8 = kani::any();
    let u: u8 = kani::any();
    kani::assume(u <= 7);
    let vt = match t % 4 { 0 => VertexType::Single3, 1 => VertexType::Half4, 2 => VertexType::ByteFloat4, _ => VertexType::UnsignedShort4 };
    let vu = match u { 0 => VertexUsage::Position, 1 => VertexUsage::BlendWeights, 2 => VertexUsage::BlendIndices, 3 => VertexUsage::Normal, 4 => VertexUsage::UV, 5 => VertexUsage::Tangent, 6 => VertexUsage::BiTangent, _ => VertexUsage::Color };
    VertexElement { stream: kani::any(), offset: kani::any(), vertex_type: vt, vertex_usage: vu, usage_index: kani::any() }
}

//@unit props=C07 label=S tier=quick fn=model_vertex_declarations::vertex_element_writer bound="one declaration of exactly 2 elements, all field values" stubs=fmt::format
//@desc the writer emits the elements in order, then one 0xFF slot, and occupies exactly 17 slots of 8 bytes per declaration
#[kani::proof]
#[kani::unwind(6)]
#[kani::stub(alloc::fmt::format, stub_fmt)]
fn k_vertex_declaration_writer_2() {
    let e0 = any_element();
    let e1 = any_element();
    let decls = vec![VertexDeclaration { elements: vec![e0, e1] }];
    let mut buf = [0u8; 144];
    let mut w = Cursor::new(&mut buf[..]);
    match vertex_element_writer(&decls, &mut w, binrw::Endian::Little, ()) { Ok(()) => {}, Err(e) => { core::mem::forget(e); assert!(false, "write"); } }
    assert!(w.position() == 17 * 8, "17 slots of 8 bytes per declaration");
    assert!(buf[0] == e0.stream && buf[1] == e0.offset && buf[2] == e0.vertex_type as u8 && buf[3] == e0.vertex_usage as u8 && buf[4] == e0.usage_index, "element 0 first");
    assert!(buf[8] == e1.stream && buf[9] == e1.offset && buf[10] == e1.vertex_type as u8 && buf[11] == e1.vertex_usage as u8 && buf[12] == e1.usage_index, "element 1 second");
    assert!(buf[16] == 0xFF, "end-of-stream slot follows the elements");
    kani::cover!(true, "reachable");
    core::mem::forget(decls);
}

//@unit props=C06 label=S tier=parked fn=model_vertex_declarations::vertex_element_parser bound="count 1; one element (stream, offset, usage_index symbolic; type Half4, usage Position) followed by a 0xFF slot, in a 136-byte block" stubs=fmt::format
//@desc the parser returns the element and consumes exactly 17 slots of 8 bytes
#[kani::proof]
#[kani::unwind(6)]
#[kani::stub(alloc::fmt::format, stub_fmt)]
fn k_vertex_declaration_parser_1() {
    let mut buf = [0u8; 136];
    let (st, of, ui): (u8, u8, u8) = (kani::any(), kani::any(), kani::any());
    kani::assume(st != 0xFF);
    buf[0] = st; buf[1] = of; buf[2] = 14; buf[3] = 0; buf[4] = ui;
    buf[8] = 0xFF;
    let mut r = Cursor::new(&buf[..]);
    match vertex_element_parser(&mut r, binrw::Endian::Little, (1,)) {
        Ok(d) => {
            assert!(d.len() == 1 && d[0].elements.len() == 1, "one declaration with one element");
            let e = d[0].elements[0];
            assert!(e.stream == st && e.offset == of && e.usage_index == ui && e.vertex_type == VertexType::Half4 && e.vertex_usage == VertexUsage::Position, "the stored element");
            assert!(r.position() == 17 * 8, "parser consumes the 17 slots");
            core::mem::forget(d);
        }
        Err(e) => { core::mem::forget(e); assert!(false, "parse"); }
    }
    kani::cover!(true, "reachable");
}

//@unit props=C06 label=P tier=quick fn=model_vertex_declarations::get_vertex_type_size
//@desc for the numeric types the model reader accepts, the size table equals the number of bytes the typed reader consumes: Single3 12, Single4 16, Byte4 4, ByteFloat4 4, Half2 4, Half4 8, UnsignedShort4 8
#[kani::proof]
fn k_vertex_type_size_used() {
    assert!(get_vertex_type_size(VertexType::Single3) == 12 && get_vertex_type_size(VertexType::Single4) == 16, "single sizes");
    assert!(get_vertex_type_size(VertexType::Byte4) == 4 && get_vertex_type_size(VertexType::ByteFloat4) == 4, "byte sizes");
    assert!(get_vertex_type_size(VertexType::Half2) == 4 && get_vertex_type_size(VertexType::Half4) == 8, "half sizes");
    assert!(get_vertex_type_size(VertexType::UnsignedShort4) == 8, "ushort4 size");
    kani::cover!(true, "reachable");
}

//@unit props=C06 label=S tier=parked fn=model_vertex_declarations::vertex_element_parser bound="probe: fully concrete 16-element declaration"
//@desc probe
#[kani::proof]
#[kani::unwind(20)]
#[kani::stub(alloc::fmt::format, stub_fmt)]
fn k_vertex_declaration_parser_16_concrete() {
    let mut buf = [0u8; 136];
    let mut k = 0;
    while k < 16 { buf[8 * k] = (k % 3) as u8; buf[8 * k + 1] = k as u8; buf[8 * k + 2] = 14; buf[8 * k + 3] = (k % 8) as u8; buf[8 * k + 4] = k as u8; k += 1; }
    buf[128] = 0xFF;
    let mut r = Cursor::new(&buf[..]);
    match vertex_element_parser(&mut r, binrw::Endian::Little, (1,)) {
        Ok(d) => {
            assert!(d.len() == 1 && d[0].elements.len() == 16, "all sixteen elements of a full declaration are returned");
            assert!(d[0].elements[15].offset == 15 && d[0].elements[15].usage_index == 15, "the sixteenth element is the stored one");
            assert!(r.position() == 17 * 8, "parser consumes the 17 slots");
            core::mem::forget(d);
        }
        Err(e) => { core::mem::forget(e); assert!(false, "parse"); }
    }
    kani::cover!(true, "reachable");
}

//@use_common

fn nvd_types() -> [VertexType; 14] {
    [VertexType::Single1, VertexType::Single2, VertexType::Single3, VertexType::Single4, VertexType::Byte4, VertexType::Short2, VertexType::Short4, VertexType::ByteFloat4,
     VertexType::Short2n, VertexType::Short4n, VertexType::Half2, VertexType::Half4, VertexType::UnsignedShort2, VertexType::UnsignedShort4]
}
fn nvd_usages() -> [VertexUsage; 8] {
    [VertexUsage::Position, VertexUsage::BlendWeights, VertexUsage::BlendIndices, VertexUsage::Normal, VertexUsage::UV, VertexUsage::Tangent, VertexUsage::BiTangent, VertexUsage::Color]
}
fn nvd_element(d: usize, i: usize) -> VertexElement {
    VertexElement { stream: ((d + i) % 3) as u8, offset: ((i * 12 + d) % 250) as u8, vertex_type: nvd_types()[(i + d * 5) % 14], vertex_usage: nvd_usages()[(i * 3 + d) % 8], usage_index: ((i + d) % 4) as u8 }
}

//@unit props=C06,C07 label=B tier=quick native=1 fn=model_vertex_declarations::{vertex_element_parser,vertex_element_writer} bound="by execution: 1..3 declarations with every element count 1..16 (all 14 vertex types and 8 usages occur), 48 blocks"
//@desc every declaration occupies 17 slots of 8 bytes: its elements in order (stream, offset, type, usage, usage index, 3 zero bytes), one slot starting with 0xFF, the rest skipped; the parser returns exactly the written elements (all 16 when every slot is used) and consumes 136 bytes per declaration
#[test]
fn native_vertex_declarations() {
    let mut cases = 0u64;
    for nd in 1..=3usize {
        for n in 1..=16usize {
            let decls: Vec<VertexDeclaration> = (0..nd).map(|d| VertexDeclaration { elements: (0..(if d == 0 { n } else { (n + d * 5 - 1) % 16 + 1 })).map(|i| nvd_element(d, i)).collect() }).collect();
            let mut buf = vec![0u8; 136 * nd];
            {
                let mut w = Cursor::new(&mut buf[..]);
                vertex_element_writer(&decls, &mut w, binrw::Endian::Little, ()).expect("write");
            }
            for (d, decl) in decls.iter().enumerate() {
                for (i, e) in decl.elements.iter().enumerate() {
                    let s = &buf[136 * d + 8 * i..136 * d + 8 * i + 8];
                    assert_eq!(s, &[e.stream, e.offset, e.vertex_type as u8, e.vertex_usage as u8, e.usage_index, 0, 0, 0], "slot {i} of declaration {d}");
                }
                assert_eq!(buf[136 * d + 8 * decl.elements.len()], 0xFF, "end marker after the last element of declaration {d}");
            }
            let mut r = Cursor::new(&buf[..]);
            let back = vertex_element_parser(&mut r, binrw::Endian::Little, (nd as u16,)).expect("a written block parses");
            assert_eq!(r.position() as usize, 136 * nd, "136 bytes consumed per declaration");
            assert_eq!(back.len(), nd);
            for (d, decl) in decls.iter().enumerate() {
                assert_eq!(back[d].elements.len(), decl.elements.len(), "element count of declaration {d} ({} written)", decl.elements.len());
                for (a, b) in decl.elements.iter().zip(back[d].elements.iter()) {
                    assert!(a.stream == b.stream && a.offset == b.offset && a.vertex_type == b.vertex_type && a.vertex_usage == b.vertex_usage && a.usage_index == b.usage_index, "element read back");
                }
            }
            cases += 1;
        }
    }
    println!("NATIVE native_vertex_declarations cases={cases}");
}

//@unit props=C18 label=B tier=quick native=1 fn=model_vertex_declarations::vertex_element_parser bound="by execution: a written 2-declaration block (16 and 3 elements) followed by 64 bytes: every truncation and 7 single-byte corruptions per byte, plus blocks with no end marker at all"
//@desc damaged declaration blocks (missing or moved end markers, undefined type/usage codes, truncation) yield Err or a value, never a panic
#[test]
fn native_vertex_declarations_damaged_nopanic() {
    let decls: Vec<VertexDeclaration> = vec![VertexDeclaration { elements: (0..16).map(|i| nvd_element(0, i)).collect() }, VertexDeclaration { elements: (0..3).map(|i| nvd_element(1, i)).collect() }];
    let mut buf = vec![0u8; 136 * 2 + 64];
    { let mut w = Cursor::new(&mut buf[..]); vertex_element_writer(&decls, &mut w, binrw::Endian::Little, ()).expect("write"); }
    for k in 0..64 { buf[272 + k] = if k % 8 == 0 && k >= 32 { 0xFF } else { 2 }; }
    let f = |b: &[u8]| { let mut r = Cursor::new(b); let _ = vertex_element_parser(&mut r, binrw::Endian::Little, (2,)); };
    let mut cases = native_sweep(&buf, 4096, 1, &f);
    for len in [0usize, 8, 136, 137, 272, 400, 1000] { native_try(&f, &vec![2u8; len], "block without any end marker"); cases += 1; }
    println!("NATIVE native_vertex_declarations_damaged_nopanic cases={cases}");
}
