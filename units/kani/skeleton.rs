//@module src/skeleton.rs
use super::*;

//@use_common

// ---- a minimal writer of Havok binary tag files (version 3), written from the format, independent of the reader ----
struct NskTag { out: Vec<u8> }
const NSK_INT: i32 = 2; const NSK_OBJECT: i32 = 8; const NSK_STRUCT: i32 = 9; const NSK_STRING: i32 = 10; const NSK_VEC12: i32 = 6; const NSK_ARRAY: i32 = 0x10;
impl NskTag {
    fn new() -> Self { let mut out = vec![]; out.extend_from_slice(&0xCAB0_0D1Eu32.to_le_bytes()); out.extend_from_slice(&0xD011_FACEu32.to_le_bytes()); NskTag { out } }
    /// packed integer: bit 0 of the first byte = sign, bits 1..6 = low six bits of the magnitude, bit 7 = continuation; every further byte carries seven more bits
    fn int(&mut self, value: i32) {
        let neg = value < 0; let mut mag = value.unsigned_abs();
        let mut byte = (((mag & 0x3f) as u8) << 1) | (neg as u8); mag >>= 6;
        while mag != 0 { self.out.push(byte | 0x80); byte = (mag & 0x7f) as u8; mag >>= 7; }
        self.out.push(byte);
    }
    fn string(&mut self, s: &str) { self.int(s.len() as i32); self.out.extend_from_slice(s.as_bytes()); }
    fn type_def(&mut self, name: &str, members: &[(&str, i32, Option<&str>)]) {
        self.int(2); self.string(name); self.int(0); self.int(0); self.int(members.len() as i32);
        for (m, bits, class) in members { self.string(m); self.int(*bits); if let Some(c) = class { self.string(c); } }
    }
}
struct NskBone { name: String, parent: i32, pose: [f32; 12] }
fn nsk_havok(bones: &[NskBone]) -> Vec<u8> {
    let mut w = NskTag::new();
    w.int(1); w.int(3);
    w.type_def("hkRootLevelContainerNamedVariant", &[("name", NSK_STRING, None), ("className", NSK_STRING, None), ("variant", NSK_OBJECT, Some("hkReferencedObject"))]);
    w.type_def("hkRootLevelContainer", &[("namedVariants", NSK_ARRAY | NSK_STRUCT, Some("hkRootLevelContainerNamedVariant"))]);
    w.type_def("hkaAnimationContainer", &[("skeletons", NSK_ARRAY | NSK_OBJECT, Some("hkaSkeleton")), ("bindings", NSK_ARRAY | NSK_OBJECT, Some("hkaAnimationBinding"))]);
    w.type_def("hkaBone", &[("name", NSK_STRING, None)]);
    w.type_def("hkaSkeleton", &[("parentIndices", NSK_ARRAY | NSK_INT, None), ("bones", NSK_ARRAY | NSK_STRUCT, Some("hkaBone")), ("referencePose", NSK_ARRAY | NSK_VEC12, None)]);
    w.int(4); w.int(2); w.out.push(0b1); w.int(1); w.out.push(0b111); w.string("Merged Animation Container"); w.string("hkaAnimationContainer"); w.int(2);
    w.int(4); w.int(3); w.out.push(0b01); w.int(1); w.int(3);
    w.int(4); w.int(5); w.out.push(0b111);
    w.int(bones.len() as i32); w.int(0); for b in bones { w.int(b.parent); }
    w.int(bones.len() as i32); w.out.push(0b1); for b in bones { w.string(&b.name); }
    w.int(bones.len() as i32); for b in bones { for v in b.pose { w.out.extend_from_slice(&v.to_le_bytes()); } }
    w.int(7);
    w.out
}
fn nsk_sklb(bones: &[NskBone], v1: bool) -> Vec<u8> {
    let havok = nsk_havok(bones);
    let mut out = vec![];
    out.extend_from_slice(&0x736B_6C62i32.to_le_bytes());
    if v1 { out.extend_from_slice(&0x3132_3030u32.to_le_bytes()); out.extend_from_slice(&0u16.to_le_bytes()); out.extend_from_slice(&28u16.to_le_bytes()); out.extend_from_slice(&101u32.to_le_bytes()); out.extend_from_slice(&[0u8; 12]); assert_eq!(out.len(), 28); }
    else { out.extend_from_slice(&0x3133_3030u32.to_le_bytes()); out.extend_from_slice(&0u32.to_le_bytes()); out.extend_from_slice(&36u32.to_le_bytes()); out.extend_from_slice(&0u32.to_le_bytes()); out.extend_from_slice(&101u32.to_le_bytes()); out.extend_from_slice(&[0u8; 12]); assert_eq!(out.len(), 36); }
    out.extend_from_slice(&havok);
    out
}
fn nsk_bones(count: usize, shape: usize) -> Vec<NskBone> {
    (0..count).map(|i| { let f = i as f32;
        NskBone { name: if shape == 2 && i == 1 { "n".repeat(9000) } else { format!("j_bone_{i}") }, parent: match shape { 0 => i as i32 - 1, 1 => if i == 0 { -1 } else { ((i * 7) % i) as i32 }, _ => if i == 0 { -1 } else { 0 } },
                  pose: [f, f + 0.25, f + 0.5, 0.0, (i % 3) as f32 * 0.5, 0.5, -0.5, 0.5, 1.0 + f, 2.0, 3.0, 1.0] } }).collect()
}

//@unit props=C16 label=B tier=quick native=1 fn=skeleton::Skeleton::from_existing,havok::HavokBinaryTagFileReader::read bound="by execution: skeletons of 1, 2, 5, 64, 65, 300 and 8200 bones (array lengths and parent indices needing 1, 2 and 3 packed bytes), chain / mixed / star hierarchies, one 9000-byte bone name, both container versions (1200 and 1300)"
//@desc parsing a skeleton built around a hand-assembled Havok tag file returns every bone's name, parent index and reference position (pose words 0..2), rotation (4..7) and scale (8..10) exactly as stored
#[test]
fn native_sklb_parse() {
    let mut cases = 0u64;
    for (count, shape) in [(1usize, 0usize), (2, 0), (5, 1), (64, 0), (65, 1), (300, 1), (300, 2), (3, 2), (8200, 0)] {
        for v1 in [false, true] {
            let bones = nsk_bones(count, shape);
            let sk = Skeleton::from_existing(&nsk_sklb(&bones, v1)).expect("a well-formed skeleton parses");
            assert_eq!(sk.bones.len(), bones.len(), "bone count ({count} bones, shape {shape}, v1 {v1})");
            for (i, (p, s)) in sk.bones.iter().zip(bones.iter()).enumerate() {
                assert!(p.name == s.name, "name of bone {i}");
                assert_eq!(p.parent_index, s.parent, "parent index of bone {i} ({count} bones, shape {shape})");
                assert_eq!((&p.position[..], &p.rotation[..], &p.scale[..]), (&s.pose[0..3], &s.pose[4..8], &s.pose[8..11]), "reference pose of bone {i}");
            }
            cases += 1;
        }
    }
    println!("NATIVE native_sklb_parse cases={cases}");
}

//@unit props=C18 label=B tier=quick native=1 fn=skeleton::Skeleton::from_existing,havok::HavokBinaryTagFileReader::read bound="by execution: the 5-bone skeleton of native_sklb_parse (container version 1300): every truncation, under a 30 s deadline per case. Byte corruptions are NOT swept: a damaged packed array length (e.g. byte 362 changed from 0x02 to 0x7f = length -63) makes the vendored Havok reader loop and allocate without end, which can only be observed by aborting the test process (recorded as a known finding, DESIGN.md 9.8)"
//@desc truncated skeletons yield None or a value, never a panic (the vendored Havok tag-file reader reports every format violation by panicking: the panic sites reached here are listed as known findings)
#[test]
fn native_sklb_truncated_nopanic() {
    let v = nsk_sklb(&nsk_bones(5, 1), false);
    let f = |b: &[u8]| { let owned = b.to_vec(); native_with_deadline(30, "Skeleton::from_existing on a truncated skeleton", move || { let _ = Skeleton::from_existing(&owned); }); };
    let mut s = NativeSites::new();
    for t in 0..v.len() { s.run(&f, &v[..t], &format!("truncation to {t} bytes")); }
    s.finish("native_sklb_truncated_nopanic");
}
