//@module src/sqpack/data.rs
use super::*;

//@unit props=C02 label=P tier=quick fn=sqpack::data::ModelMemorySizes::total
//@desc total() is the sum of the 11 section fields (stack, runtime, 3 vertex, 3 edge, 3 index), for u32 and u16 tables (inputs bounded so that the sum cannot overflow)
#[kani::proof]
#[kani::unwind(13)]
fn k_model_memory_sizes_total() {
    let a: [u16; 11] = kani::any();
    let m = ModelMemorySizes::<u32> { stack_size: a[0] as u32, runtime_size: a[1] as u32, vertex_buffer_size: [a[2] as u32, a[3] as u32, a[4] as u32],
        edge_geometry_vertex_buffer_size: [a[5] as u32, a[6] as u32, a[7] as u32], index_buffer_size: [a[8] as u32, a[9] as u32, a[10] as u32] };
    // (summed in the order stack, runtime, then per LOD vertex, edge, index - adder re-association is SAT-hard)
    let mut s: u32 = a[0] as u32 + a[1] as u32;
    let mut i = 0;
    while i < 3 { s += a[2 + i] as u32; s += a[5 + i] as u32; s += a[8 + i] as u32; i += 1; }
    assert!(m.total() == s, "sum of the 11 fields");
    let b: [u8; 11] = kani::any();
    let m16 = ModelMemorySizes::<u16> { stack_size: b[0] as u16, runtime_size: b[1] as u16, vertex_buffer_size: [b[2] as u16, b[3] as u16, b[4] as u16],
        edge_geometry_vertex_buffer_size: [b[5] as u16, b[6] as u16, b[7] as u16], index_buffer_size: [b[8] as u16, b[9] as u16, b[10] as u16] };
    let mut s16: u16 = b[0] as u16 + b[1] as u16;
    let mut i = 0;
    while i < 3 { s16 += b[2 + i] as u16; s16 += b[5 + i] as u16; s16 += b[8 + i] as u16; i += 1; }
    assert!(m16.total() == s16, "sum of the 11 fields (u16 table)");
    kani::cover!(true, "reachable");
}

//@use_common

// ---- independent packer of dat entries (the format as the property describes it), used by the native bounded stand-ins ----
#[derive(Clone, Copy, PartialEq)]
enum NMode { Raw, DeflateStored, DeflateFixed, /* fixed-Huffman stream with one back-reference for a 6-byte content xyzxyz: exactly 6 bytes long, i.e. as long as its content */ DeflateRepeat3 }

fn nd_pad128(v: &mut Vec<u8>) { while v.len() % 128 != 0 { v.push(0); } }
fn nd_pattern(len: usize, seed: u32) -> Vec<u8> {
    let mut x = seed.wrapping_mul(2654435761).wrapping_add(1);
    (0..len).map(|i| { x = x.wrapping_mul(1664525).wrapping_add(1013904223); if seed % 3 == 0 { (i % 251) as u8 } else { (x >> 24) as u8 } }).collect()
}
/// raw deflate, fixed Huffman codes, literals only (RFC 1951 3.2.6)
fn nd_deflate_fixed(content: &[u8]) -> Vec<u8> {
    let mut out: Vec<u8> = vec![]; let mut acc: u32 = 0; let mut nb = 0u32;
    let mut put = |v: u32, n: u32, msb_first: bool, out: &mut Vec<u8>| {
        for k in 0..n { let bit = if msb_first { (v >> (n - 1 - k)) & 1 } else { (v >> k) & 1 }; acc |= bit << nb; nb += 1; if nb == 8 { out.push(acc as u8); acc = 0; nb = 0; } }
    };
    put(1, 1, false, &mut out); put(1, 2, false, &mut out); // BFINAL = 1, BTYPE = 01
    for b in content { let l = *b as u32; if l < 144 { put(0x30 + l, 8, true, &mut out); } else { put(0x190 + (l - 144), 9, true, &mut out); } }
    put(0, 7, true, &mut out); // end of block
    put(0, 7, false, &mut out); // flush the last partial byte
    out
}
/// content = x y z x y z (each below 144): three literals, then the match (length 3, distance 3), end of block: 3 + 24 + 7 + 5 + 7 = 46 bits = 6 bytes
fn nd_deflate_repeat3(content: &[u8]) -> Vec<u8> {
    assert!(content.len() == 6 && content[0..3] == content[3..6] && content.iter().all(|b| *b < 144), "DeflateRepeat3 takes a content of the form xyzxyz");
    let mut out: Vec<u8> = vec![]; let mut acc: u32 = 0; let mut nb = 0u32;
    let mut put = |v: u32, n: u32, msb_first: bool, out: &mut Vec<u8>| {
        for k in 0..n { let bit = if msb_first { (v >> (n - 1 - k)) & 1 } else { (v >> k) & 1 }; acc |= bit << nb; nb += 1; if nb == 8 { out.push(acc as u8); acc = 0; nb = 0; } }
    };
    put(1, 1, false, &mut out); put(1, 2, false, &mut out); // BFINAL = 1, BTYPE = 01
    for b in &content[0..3] { put(0x30 + *b as u32, 8, true, &mut out); }
    put(257 - 256, 7, true, &mut out); // length symbol 257 = match length 3 (no extra bits)
    put(2, 5, true, &mut out);         // distance code 2 = distance 3 (no extra bits)
    put(0, 7, true, &mut out);         // end of block
    put(0, 7, false, &mut out);        // flush
    assert_eq!(out.len(), 6);
    out
}
fn nd_block(content: &[u8], mode: NMode) -> Vec<u8> {
    let mut out = vec![];
    out.extend_from_slice(&16u32.to_le_bytes());
    out.extend_from_slice(&0u32.to_le_bytes());
    let stream: Option<Vec<u8>> = match mode {
        NMode::Raw => None,
        NMode::DeflateStored => { let mut s = vec![0x01u8]; s.extend_from_slice(&(content.len() as u16).to_le_bytes()); s.extend_from_slice(&(!(content.len() as u16)).to_le_bytes()); s.extend_from_slice(content); Some(s) }
        NMode::DeflateFixed => Some(nd_deflate_fixed(content)),
        NMode::DeflateRepeat3 => Some(nd_deflate_repeat3(content)),
    };
    match stream {
        None => { out.extend_from_slice(&32000i32.to_le_bytes()); out.extend_from_slice(&(content.len() as i32).to_le_bytes()); out.extend_from_slice(content); }
        Some(s) => { out.extend_from_slice(&(s.len() as i32).to_le_bytes()); out.extend_from_slice(&(content.len() as i32).to_le_bytes()); out.extend_from_slice(&s); }
    }
    nd_pad128(&mut out);
    out
}
fn nd_standard(blocks: &[(Vec<u8>, NMode)]) -> (Vec<u8>, Vec<u8>) {
    let mut payload = vec![]; let mut table = vec![]; let mut expect = vec![];
    for (c, m) in blocks { table.extend_from_slice(&(payload.len() as i32).to_le_bytes()); let b = nd_block(c, *m); table.extend_from_slice(&(b.len() as u16).to_le_bytes()); table.extend_from_slice(&(c.len() as u16).to_le_bytes()); payload.extend_from_slice(&b); expect.extend_from_slice(c); }
    let mut info = vec![];
    info.extend_from_slice(&0u32.to_le_bytes()); info.extend_from_slice(&2i32.to_le_bytes()); info.extend_from_slice(&(expect.len() as u32).to_le_bytes());
    info.extend_from_slice(&[0u8; 8]); info.extend_from_slice(&(blocks.len() as u32).to_le_bytes());
    info.extend_from_slice(&table);
    nd_pad128(&mut info);
    let n = info.len() as u32; info[0..4].copy_from_slice(&n.to_le_bytes());
    info.extend_from_slice(&payload);
    (info, expect)
}
fn nd_texture(tex_header: &[u8], mips: &[Vec<(Vec<u8>, NMode)>]) -> (Vec<u8>, Vec<u8>) {
    let mut payload = tex_header.to_vec(); let mut lods = vec![]; let mut sizes: Vec<u16> = vec![]; let mut expect = tex_header.to_vec();
    for mip in mips {
        let co = payload.len() as u32; let bo = sizes.len() as u32; let mut ds = 0u32;
        for (c, m) in mip { let b = nd_block(c, *m); sizes.push(b.len() as u16); payload.extend_from_slice(&b); ds += c.len() as u32; expect.extend_from_slice(c); }
        lods.push((co, payload.len() as u32 - co, ds, bo, mip.len() as u32));
    }
    let mut info = vec![];
    info.extend_from_slice(&0u32.to_le_bytes()); info.extend_from_slice(&4i32.to_le_bytes()); info.extend_from_slice(&(expect.len() as u32).to_le_bytes());
    info.extend_from_slice(&[0u8; 8]); info.extend_from_slice(&(lods.len() as u32).to_le_bytes());
    for l in &lods { for v in [l.0, l.1, l.2, l.3, l.4] { info.extend_from_slice(&v.to_le_bytes()); } }
    for s in &sizes { info.extend_from_slice(&s.to_le_bytes()); }
    nd_pad128(&mut info);
    let n = info.len() as u32; info[0..4].copy_from_slice(&n.to_le_bytes());
    info.extend_from_slice(&payload);
    (info, expect)
}
/// sections in storage order: stack, runtime, then per LOD vertex and index (edge geometry absent); each section is a list of blocks
fn nd_model(stack: &[(Vec<u8>, NMode)], runtime: &[(Vec<u8>, NMode)], vertex: &[Vec<(Vec<u8>, NMode)>; 3], index: &[Vec<(Vec<u8>, NMode)>; 3], num_lods: u8) -> (Vec<u8>, Vec<u8>) { nd_model_stored(stack, runtime, vertex, index, num_lods, 0) }
/// storage: 0 = sections stored back to back in the canonical order; 1 = a 128-byte hole in front of every section; 2 = the runtime section stored last (after the geometry);
/// 3 = sections stored in reverse order.  The entry header gives every section its own payload offset, so each layout is a well-formed entry with the same content.
fn nd_model_stored(stack: &[(Vec<u8>, NMode)], runtime: &[(Vec<u8>, NMode)], vertex: &[Vec<(Vec<u8>, NMode)>; 3], index: &[Vec<(Vec<u8>, NMode)>; 3], num_lods: u8, storage: u8) -> (Vec<u8>, Vec<u8>) {
    // slots of ModelMemorySizes: 0 stack, 1 runtime, 2..4 vertex, 5..7 edge, 8..10 index
    let mut order: Vec<(usize, &[(Vec<u8>, NMode)])> = vec![(0, stack), (1, runtime)];
    for l in 0..3 { order.push((2 + l, &vertex[l])); order.push((8 + l, &index[l])); }
    let (mut unc, mut comp, mut off, mut idx, mut num) = ([0u32; 11], [0u32; 11], [0u32; 11], [0u16; 11], [0u16; 11]);
    let mut payload = vec![]; let mut sizes: Vec<u16> = vec![]; let mut body = vec![]; let mut sec_pos = [0u32; 11]; let mut sec_len = [0u32; 11];
    let mut stored: Vec<(usize, Vec<u8>)> = vec![];
    for (slot, blocks) in order.iter() {
        idx[*slot] = sizes.len() as u16; num[*slot] = blocks.len() as u16; sec_pos[*slot] = 0x44 + body.len() as u32;
        let mut sec = vec![];
        for (c, m) in blocks.iter() { let b = nd_block(c, *m); sizes.push(b.len() as u16); comp[*slot] += b.len() as u32; unc[*slot] += c.len() as u32; sec.extend_from_slice(&b); body.extend_from_slice(c); sec_len[*slot] += c.len() as u32; }
        stored.push((*slot, sec));
    }
    // the block-size table and the block indices stay in section order; only where each section's blocks sit in the payload changes
    match storage { 2 => { let rt = stored.remove(1); stored.push(rt); } 3 => stored.reverse(), _ => {} }
    for (slot, sec) in stored.iter() {
        if storage == 1 { payload.extend(std::iter::repeat(0xEEu8).take(128)); }
        off[*slot] = payload.len() as u32; payload.extend_from_slice(sec);
    }
    let mut info = vec![];
    info.extend_from_slice(&0u32.to_le_bytes()); info.extend_from_slice(&3i32.to_le_bytes()); info.extend_from_slice(&(0x44 + body.len() as u32).to_le_bytes());
    info.extend_from_slice(&(sizes.len() as u32).to_le_bytes()); info.extend_from_slice(&(sizes.len() as u32).to_le_bytes()); info.extend_from_slice(&0x01000005u32.to_le_bytes());
    for a in [&unc, &comp, &off] { for v in a.iter() { info.extend_from_slice(&v.to_le_bytes()); } }
    for a in [&idx, &num] { for v in a.iter() { info.extend_from_slice(&v.to_le_bytes()); } }
    info.extend_from_slice(&6u16.to_le_bytes()); info.extend_from_slice(&2u16.to_le_bytes()); info.push(num_lods); info.push(0); info.push(0); info.push(0);
    for s in &sizes { info.extend_from_slice(&s.to_le_bytes()); }
    nd_pad128(&mut info);
    let n = info.len() as u32; info[0..4].copy_from_slice(&n.to_le_bytes());
    info.extend_from_slice(&payload);
    // the reassembled model file: synthesized 0x44-byte header + the sections in order
    let mut expect = vec![];
    expect.extend_from_slice(&0x01000005u32.to_le_bytes()); expect.extend_from_slice(&sec_len[0].to_le_bytes()); expect.extend_from_slice(&sec_len[1].to_le_bytes());
    expect.extend_from_slice(&6u16.to_le_bytes()); expect.extend_from_slice(&2u16.to_le_bytes());
    for l in 0..3 { expect.extend_from_slice(&(if sec_len[2 + l] != 0 || !vertex[l].is_empty() { sec_pos[2 + l] } else { 0 }).to_le_bytes()); }
    for l in 0..3 { expect.extend_from_slice(&(if sec_len[8 + l] != 0 || !index[l].is_empty() { sec_pos[8 + l] } else { 0 }).to_le_bytes()); }
    for l in 0..3 { expect.extend_from_slice(&sec_len[2 + l].to_le_bytes()); }
    for l in 0..3 { expect.extend_from_slice(&sec_len[8 + l].to_le_bytes()); }
    expect.push(num_lods); expect.push(0); expect.push(0); expect.push(0);
    assert_eq!(expect.len(), 0x44);
    expect.extend_from_slice(&body);
    (info, expect)
}
fn nd_extract(entry: &[u8], entry_offset: usize, tag: &str) -> Option<Vec<u8>> {
    let mut path = std::env::temp_dir();
    path.push(format!("physis-verif-c02-{}-{}.dat0", std::process::id(), tag));
    { use std::io::Write; let mut f = std::fs::File::create(&path).unwrap(); f.write_all(&vec![0xEEu8; entry_offset]).unwrap(); f.write_all(entry).unwrap(); f.write_all(&vec![0u8; 1024]).unwrap(); }
    let r = { let mut dat = SqPackData::from_existing(path.to_str().unwrap()).unwrap(); dat.read_from_offset(entry_offset as u64) };
    let _ = std::fs::remove_file(&path);
    r
}
fn nd_splits(total: usize, shape: usize) -> Vec<usize> {
    // block splits of a content of `total` bytes; blocks hold at most 16000 bytes, as in the format
    let mut v = vec![]; let mut left = total; let mut k = 1usize;
    while left > 0 {
        let want = match shape { 0 | 1 => 16000, 2 => { let w = k; k = (k * 3 + 1).min(16000); w } _ => if v.len() < 40 { 127 + v.len() % 3 } else { 15999 } };
        let n = left.min(want); v.push(n); left -= n;
    }
    if v.is_empty() { v.push(0); }
    v
}
fn nd_blocks(content: &[u8], shape: usize, modes: usize) -> Vec<(Vec<u8>, NMode)> {
    let mut out = vec![]; let mut at = 0usize;
    for (k, n) in nd_splits(content.len(), shape).into_iter().enumerate() {
        let m = match (k + modes) % 3 { 0 => NMode::Raw, 1 => NMode::DeflateStored, _ => NMode::DeflateFixed };
        let m = if modes == 9 { NMode::Raw } else { m };
        out.push((content[at..at + n].to_vec(), m)); at += n;
    }
    out
}

//@unit props=C02 label=B tier=quick native=1 fn=sqpack::data::SqPackData::{read_from_offset,read_standard_file,read_texture_file,read_model_file},sqpack::read_data_block,compression::no_header_decompress bound="by execution on temporary dat files: standard entries of 9 lengths (0..40000) x 4 block splits x 4 raw/deflate assignments (stored and fixed-Huffman streams, incl. streams with a back-reference that are exactly as long as their 6-byte content); texture entries with 1..3 mips of 1..4 unevenly sized blocks; model entries with 1..3 LODs and 0..3 blocks per section, incl. LODs with indices but no vertices, vertices but no indices, and an empty middle LOD, and with the sections stored with holes between them, with the runtime section last and in reverse order; entry offsets 0, 128, 0x800"
//@desc extraction returns exactly the packed bytes: a standard entry the concatenation of its blocks; a texture entry its header followed by every mip block in order; a model entry the synthesized 0x44-byte header (version, stack/runtime sizes, counts, per-LOD vertex/index offsets and sizes describing the reassembled sections) followed by the stack, runtime, vertex and index sections; however the content is split and whether each block is raw or deflated
#[test]
fn native_sqpack_reassembly() {
    let mut cases = 0u64;
    for (li, len) in [0usize, 1, 127, 128, 129, 15999, 16000, 16001, 40000].into_iter().enumerate() {
        for shape in 0..4usize { for modes in [0usize, 1, 2, 9] {
            let content = nd_pattern(len, (li * 7 + shape) as u32);
            let (entry, expect) = nd_standard(&nd_blocks(&content, shape, modes));
            assert_eq!(expect, content);
            let got = nd_extract(&entry, [0usize, 128, 0x800][(li + shape) % 3], "std").expect("standard entry extracts");
            assert!(got == expect, "standard entry: {} bytes, split {shape}, modes {modes}: got {} bytes", len, got.len());
            cases += 1;
        } }
    }
    for nm in 1..=3usize { for shape in 0..4usize {
        let hdr = nd_pattern(80, 5);
        let mips: Vec<Vec<(Vec<u8>, NMode)>> = (0..nm).map(|m| nd_blocks(&nd_pattern([600usize, 200, 57][m] * (shape + 1), (m + shape) as u32), [3usize, 2, 0][(m + shape) % 3], m + shape)).collect();
        let (entry, expect) = nd_texture(&hdr, &mips);
        let got = nd_extract(&entry, 0x800, "tex").expect("texture entry extracts");
        assert!(got == expect, "texture entry: {nm} mips, shape {shape}: got {} of {} bytes", got.len(), expect.len());
        cases += 1;
    } }
    for lods in 1..=3u8 { for shape in 0..4usize {
        let sec = |n: usize, s: u32| nd_blocks(&nd_pattern(n, s), (shape + s as usize) % 4, shape + s as usize);
        let none: Vec<(Vec<u8>, NMode)> = vec![];
        let vertex = [sec(700 + shape * 33, 1), if lods >= 2 { sec(300, 2) } else { none.clone() }, if lods >= 3 { sec(90 + shape, 3) } else { none.clone() }];
        let index = [sec(260, 4), if lods >= 2 { sec(130 + shape * 2, 5) } else { none.clone() }, if lods >= 3 { sec(64, 6) } else { none.clone() }];
        let (entry, expect) = nd_model(&sec(816, 7), &sec(1500 + shape * 129, 8), &vertex, &index, lods);
        let got = nd_extract(&entry, 128 * shape, "mdl").expect("model entry extracts");
        assert!(got[..0x44] == expect[..0x44], "model entry ({lods} LODs, shape {shape}): synthesized header {:02x?} != {:02x?}", &got[..0x44], &expect[..0x44]);
        assert!(got == expect, "model entry ({lods} LODs, shape {shape}): sections differ ({} vs {} bytes)", got.len(), expect.len());
        cases += 1;
    } }
    // LODs that store indices but no vertices, vertices but no indices, and a gap (LOD 1 empty, LOD 2 present)
    for shape in 0..4usize {
        let sec = |n: usize, s: u32| nd_blocks(&nd_pattern(n, s), (shape + s as usize) % 4, shape + s as usize);
        let none: Vec<(Vec<u8>, NMode)> = vec![];
        for (vi, (vertex, index)) in [([sec(400, 1), none.clone(), sec(90, 3)], [sec(120, 4), sec(66, 5), sec(30, 6)]), ([sec(400, 1), sec(200, 2), none.clone()], [sec(120, 4), none.clone(), sec(30, 6)]), ([sec(400, 1), none.clone(), sec(90, 3)], [sec(120, 4), none.clone(), sec(30, 6)])].into_iter().enumerate() {
            let (entry, expect) = nd_model(&sec(300, 7), &sec(500 + shape * 100, 8), &vertex, &index, 3);
            let got = nd_extract(&entry, 128, "mdl2").expect("model entry extracts");
            assert!(got[..0x44] == expect[..0x44], "model entry with partial LODs (variant {vi}, shape {shape}): synthesized header {:02x?} != {:02x?}", &got[..0x44], &expect[..0x44]);
            assert!(got == expect, "model entry with partial LODs (variant {vi}, shape {shape}): sections differ ({} vs {} bytes)", got.len(), expect.len());
            cases += 1;
        }
    }
    // compressed blocks whose stream is exactly as long as the content it expands to (6 bytes to 6 bytes) - still compressed blocks
    for (k, blocks) in [vec![(b"abcabc".to_vec(), NMode::DeflateRepeat3)], vec![(nd_pattern(10, 1), NMode::Raw), (b"xyzxyz".to_vec(), NMode::DeflateRepeat3), (nd_pattern(5, 2), NMode::DeflateStored)],
                        vec![(b"QRSQRS".to_vec(), NMode::DeflateRepeat3), (b"   ".repeat(2), NMode::DeflateRepeat3), (nd_pattern(300, 3), NMode::DeflateFixed)]].into_iter().enumerate() {
        let (entry, expect) = nd_standard(&blocks);
        let got = nd_extract(&entry, 128, "std-eq").expect("standard entry with equal-length compressed blocks extracts");
        assert!(got == expect, "standard entry {k} with a compressed block as long as its content: got {:02x?}, expected {:02x?}", &got[..got.len().min(24)], &expect[..expect.len().min(24)]);
        cases += 1;
    }
    // sections that are not stored back to back in the canonical order: holes between them, runtime section last, reverse order
    for storage in 1..=3u8 { for shape in 0..4usize { for lods in [1u8, 3] {
        let sec = |n: usize, s: u32| nd_blocks(&nd_pattern(n, s), (shape + s as usize) % 4, shape + s as usize);
        let none: Vec<(Vec<u8>, NMode)> = vec![];
        let vertex = [sec(500 + shape * 40, 1), if lods >= 2 { sec(260, 2) } else { none.clone() }, if lods >= 3 { sec(70 + shape, 3) } else { none.clone() }];
        let index = [sec(200, 4), if lods >= 2 { sec(100 + shape * 2, 5) } else { none.clone() }, if lods >= 3 { sec(48, 6) } else { none.clone() }];
        let (entry, expect) = nd_model_stored(&sec(400 + shape * 64, 7), &sec(900 + shape * 129, 8), &vertex, &index, lods, storage);
        let got = nd_extract(&entry, 128 * shape, "mdl3").expect("model entry with relocated sections extracts");
        assert!(got[..0x44] == expect[..0x44], "model entry, storage layout {storage} ({lods} LODs, shape {shape}): synthesized header {:02x?} != {:02x?}", &got[..0x44], &expect[..0x44]);
        assert!(got == expect, "model entry, storage layout {storage} ({lods} LODs, shape {shape}): sections differ ({} vs {} bytes)", got.len(), expect.len());
        cases += 1;
    } } }
    println!("NATIVE native_sqpack_reassembly cases={cases}");
}

//@unit props=C18 label=B tier=quick native=1 fn=sqpack::data::SqPackData::read_from_offset bound="by execution on temporary dat files: one standard (3 blocks), one texture (2 mips) and one model entry (2 LODs), each followed by 1 KiB of slack: every truncation and 7 single-byte corruptions per byte of the entry's file-info header and of its first two block headers, every 61st byte elsewhere (thorough tier: every 3rd)"
//@desc damaged dat entries (truncated anywhere, any file-info, block-table, size-table or block-header byte damaged) yield None or data, never a panic
#[test]
fn native_sqpack_damaged_nopanic() {
    let none: Vec<(Vec<u8>, NMode)> = vec![];
    let std_e = nd_standard(&nd_blocks(&nd_pattern(700, 1), 3, 0)).0;
    let tex_e = nd_texture(&nd_pattern(80, 2), &[nd_blocks(&nd_pattern(500, 3), 3, 1), nd_blocks(&nd_pattern(60, 4), 0, 2)]).0;
    let mdl_e = nd_model(&nd_blocks(&nd_pattern(300, 5), 0, 0), &nd_blocks(&nd_pattern(400, 6), 3, 1), &[nd_blocks(&nd_pattern(256, 7), 0, 2), nd_blocks(&nd_pattern(100, 8), 0, 0), none.clone()],
                         &[nd_blocks(&nd_pattern(64, 9), 0, 1), nd_blocks(&nd_pattern(32, 10), 0, 0), none.clone()], 2).0;
    let mut s = NativeSites::new();
    let mut path = std::env::temp_dir();
    path.push(format!("physis-verif-c18-{}.dat0", std::process::id()));
    let ps = path.to_str().unwrap().to_string();
    let f = move |b: &[u8]| {
        std::fs::write(&ps, b).unwrap();
        if let Some(mut dat) = SqPackData::from_existing(&ps) { let _ = dat.read_from_offset(0); }
    };
    for e in [&std_e, &tex_e, &mdl_e] {
        let hdr = u32::from_le_bytes(e[0..4].try_into().unwrap()) as usize;
        assert!(SqPackData::from_existing("/nonexistent/physis.dat0").is_none(), "a missing dat file is an ordinary failure");
        s.sweep(e, hdr + 288, if native_thorough() { 3 } else { 61 }, &f);
    }
    let _ = std::fs::remove_file(&path);
    s.finish("native_sqpack_damaged_nopanic");
}
