//@module src/sqpack/data.rs
use super::*;

//@unit props=C02 label=P tier=quick fn=sqpack::data::ModelMemorySizes::total
//@desc total() is the sum of the 11 section fields (stack, runtime, 3 vertex, 3 edge, 3 index), for u32 and u16 tables (inputs bounded so that the sum cannot overflow)
#[kani::proof]
#[kani::unwind(13)]
fn k_model_memory_sizes_total() {
    let a: [u16; 11] = kani::any();
    let m = ModelMemorySizes::<u32> { stack_size: a[0] as u32, runtime_size: a[1] as u32, vertex_buffer_size: [a[2] as u32, a[3] as u32, a[4] as u32],
        edge_geometry_vertex_buffer_size: [a[5] as u32, a[6] as u32, a[7] as u32], index_buffer_size: [a[8] as u32, a[9] as u32, a[10] as u32] };
    // (summed in the order stack, runtime, then per LOD vertex, edge, index - adder re-association is SAT-hard)
    let mut s: u32 = a[0] as u32 + a[1] as u32;
    let mut i = 0;
    while i < 3 { s += a[2 + i] as u32; s += a[5 + i] as u32; s += a[8 + i] as u32; i += 1; }
    assert!(m.total() == s, "sum of the 11 fields");
    let b: [u8; 11] = kani::any();
    let m16 = ModelMemorySizes::<u16> { stack_size: b[0] as u16, runtime_size: b[1] as u16, vertex_buffer_size: [b[2] as u16, b[3] as u16, b[4] as u16],
        edge_geometry_vertex_buffer_size: [b[5] as u16, b[6] as u16, b[7] as u16], index_buffer_size: [b[8] as u16, b[9] as u16, b[10] as u16] };
    let mut s16: u16 = b[0] as u16 + b[1] as u16;
    let mut i = 0;
    while i < 3 { s16 += b[2 + i] as u16; s16 += b[5 + i] as u16; s16 += b[8 + i] as u16; i += 1; }
    assert!(m16.total() == s16, "sum of the 11 fields (u16 table)");
    kani::cover!(true, "reachable");
}
