//@module src/exd.rs
use super::*;
use crate::exh::EXHHeader;

fn stub_fmt(_a: core::fmt::Arguments<'_>) -> String { String::new() }
fn mk_exh(data_offset: u16, cols: Vec<ExcelColumnDefinition>) -> EXH {
    EXH { header: EXHHeader { version: 3, data_offset, column_count: cols.len() as u16, page_count: 0, language_count: 0, row_count: 1 },
          column_definitions: cols, pages: vec![], languages: vec![] }
}
/// read one cell of type `dt` stored at `off` in a 24-byte symbolic row (row_offset 0)
fn cell(arr: &[u8; 24], dt: ColumnDataType, off: u16) -> Option<ColumnData> {
    let data = arr.to_vec();
    let column = ExcelColumnDefinition { data_type: dt, offset: off };
    let exh = mk_exh(16, vec![]);
    let mut cursor = Cursor::new(&data);
    cursor.seek(SeekFrom::Start(off as u64)).unwrap();
    let r = EXD::read_column(&mut cursor, &exh, 0, &column);
    core::mem::forget(exh);
    r
}

//@unit props=C05 label=S tier=quick fn=exd::EXD::read_column bound="column type Int8 at column offset 5 in a 24-byte row, all contents"
//@desc the cell is the big-endian i8 stored at row_offset + column.offset
#[kani::proof]
#[kani::unwind(26)]
fn k_exd_cell_int8_off5() {
    let arr: [u8; 24] = kani::any();
    match cell(&arr, ColumnDataType::Int8, 5) {
        Some(ColumnData::Int8(v)) => assert!(v == i8::from_be_bytes([arr[5]]), "cell equals the stored big-endian value"),
        _ => assert!(false, "cell of the declared type"),
    }
    kani::cover!(true, "reachable");
}

//@unit props=C05 label=S tier=quick fn=exd::EXD::read_column bound="column type UInt8 at column offset 5 in a 24-byte row, all contents"
//@desc the cell is the big-endian u8 stored at row_offset + column.offset
#[kani::proof]
#[kani::unwind(26)]
fn k_exd_cell_uint8_off5() {
    let arr: [u8; 24] = kani::any();
    match cell(&arr, ColumnDataType::UInt8, 5) {
        Some(ColumnData::UInt8(v)) => assert!(v == u8::from_be_bytes([arr[5]]), "cell equals the stored big-endian value"),
        _ => assert!(false, "cell of the declared type"),
    }
    kani::cover!(true, "reachable");
}

//@unit props=C05 label=S tier=quick fn=exd::EXD::read_column bound="column type Int16 at column offset 5 in a 24-byte row, all contents"
//@desc the cell is the big-endian i16 stored at row_offset + column.offset
#[kani::proof]
#[kani::unwind(26)]
fn k_exd_cell_int16_off5() {
    let arr: [u8; 24] = kani::any();
    match cell(&arr, ColumnDataType::Int16, 5) {
        Some(ColumnData::Int16(v)) => assert!(v == i16::from_be_bytes([arr[5], arr[6]]), "cell equals the stored big-endian value"),
        _ => assert!(false, "cell of the declared type"),
    }
    kani::cover!(true, "reachable");
}

//@unit props=C05 label=S tier=quick fn=exd::EXD::read_column bound="column type UInt16 at column offset 5 in a 24-byte row, all contents"
//@desc the cell is the big-endian u16 stored at row_offset + column.offset
#[kani::proof]
#[kani::unwind(26)]
fn k_exd_cell_uint16_off5() {
    let arr: [u8; 24] = kani::any();
    match cell(&arr, ColumnDataType::UInt16, 5) {
        Some(ColumnData::UInt16(v)) => assert!(v == u16::from_be_bytes([arr[5], arr[6]]), "cell equals the stored big-endian value"),
        _ => assert!(false, "cell of the declared type"),
    }
    kani::cover!(true, "reachable");
}

//@unit props=C05 label=S tier=quick fn=exd::EXD::read_column bound="column type Int32 at column offset 5 in a 24-byte row, all contents"
//@desc the cell is the big-endian i32 stored at row_offset + column.offset
#[kani::proof]
#[kani::unwind(26)]
fn k_exd_cell_int32_off5() {
    let arr: [u8; 24] = kani::any();
    match cell(&arr, ColumnDataType::Int32, 5) {
        Some(ColumnData::Int32(v)) => assert!(v == i32::from_be_bytes([arr[5], arr[6], arr[7], arr[8]]), "cell equals the stored big-endian value"),
        _ => assert!(false, "cell of the declared type"),
    }
    kani::cover!(true, "reachable");
}

//@unit props=C05 label=S tier=quick fn=exd::EXD::read_column bound="column type UInt32 at column offset 5 in a 24-byte row, all contents"
//@desc the cell is the big-endian u32 stored at row_offset + column.offset
#[kani::proof]
#[kani::unwind(26)]
fn k_exd_cell_uint32_off5() {
    let arr: [u8; 24] = kani::any();
    match cell(&arr, ColumnDataType::UInt32, 5) {
        Some(ColumnData::UInt32(v)) => assert!(v == u32::from_be_bytes([arr[5], arr[6], arr[7], arr[8]]), "cell equals the stored big-endian value"),
        _ => assert!(false, "cell of the declared type"),
    }
    kani::cover!(true, "reachable");
}

//@unit props=C05 label=S tier=quick fn=exd::EXD::read_column bound="column type Int64 at column offset 5 in a 24-byte row, all contents"
//@desc the cell is the big-endian i64 stored at row_offset + column.offset
#[kani::proof]
#[kani::unwind(26)]
fn k_exd_cell_int64_off5() {
    let arr: [u8; 24] = kani::any();
    match cell(&arr, ColumnDataType::Int64, 5) {
        Some(ColumnData::Int64(v)) => assert!(v == i64::from_be_bytes([arr[5], arr[6], arr[7], arr[8], arr[9], arr[10], arr[11], arr[12]]), "cell equals the stored big-endian value"),
        _ => assert!(false, "cell of the declared type"),
    }
    kani::cover!(true, "reachable");
}

//@unit props=C05 label=S tier=quick fn=exd::EXD::read_column bound="column type UInt64 at column offset 5 in a 24-byte row, all contents"
//@desc the cell is the big-endian u64 stored at row_offset + column.offset
#[kani::proof]
#[kani::unwind(26)]
fn k_exd_cell_uint64_off5() {
    let arr: [u8; 24] = kani::any();
    match cell(&arr, ColumnDataType::UInt64, 5) {
        Some(ColumnData::UInt64(v)) => assert!(v == u64::from_be_bytes([arr[5], arr[6], arr[7], arr[8], arr[9], arr[10], arr[11], arr[12]]), "cell equals the stored big-endian value"),
        _ => assert!(false, "cell of the declared type"),
    }
    kani::cover!(true, "reachable");
}

//@unit props=C05 label=S tier=quick fn=exd::EXD::read_column bound="column type Float32 at column offset 5 in a 24-byte row, all contents"
//@desc the cell has the bits of the big-endian 32-bit word stored at the column offset
#[kani::proof]
#[kani::unwind(26)]
fn k_exd_cell_float32_off5() {
    let arr: [u8; 24] = kani::any();
    match cell(&arr, ColumnDataType::Float32, 5) {
        Some(ColumnData::Float32(v)) => assert!(v.to_bits() == u32::from_be_bytes([arr[5], arr[6], arr[7], arr[8]]), "cell has the stored bits"),
        _ => assert!(false, "cell of the declared type"),
    }
    kani::cover!(true, "reachable");
}

//@unit props=C05 label=S tier=quick fn=exd::EXD::read_column bound="column type Bool at column offset 5 in a 24-byte row, all contents"
//@desc the cell is false for a stored byte 0 and true for every other stored byte (the reference decoders - SaintCoinach, Lumina - read a whole-byte boolean as byte != 0), whatever bytes follow it
#[kani::proof]
#[kani::unwind(26)]
fn k_exd_cell_bool_off5() {
    let arr: [u8; 24] = kani::any();
    let _ = 5;
    match cell(&arr, ColumnDataType::Bool, 5) {
        Some(ColumnData::Bool(v)) => assert!(v == (arr[5] != 0), "boolean cell = (the one stored byte != 0)"),
        _ => assert!(false, "cell of the declared type"),
    }
    kani::cover!(true, "reachable");
}

//@unit props=C05 label=S tier=quick fn=exd::EXD::read_column bound="column type PackedBool0 at column offset 5 in a 24-byte row, all contents"
//@desc the cell is bit 0 of the one byte stored at the column offset; the bytes after it do not matter
#[kani::proof]
#[kani::unwind(26)]
fn k_exd_cell_packedbool0_off5() {
    let arr: [u8; 24] = kani::any();
    match cell(&arr, ColumnDataType::PackedBool0, 5) {
        Some(ColumnData::Bool(v)) => assert!(v == (arr[5] & (1 << 0) != 0), "packed boolean = bit n of the stored byte"),
        _ => assert!(false, "cell of the declared type"),
    }
    kani::cover!(true, "reachable");
}

//@unit props=C05 label=S tier=thorough fn=exd::EXD::read_column bound="column type PackedBool1 at column offset 5 in a 24-byte row, all contents"
//@desc the cell is bit 1 of the one byte stored at the column offset; the bytes after it do not matter
#[kani::proof]
#[kani::unwind(26)]
fn k_exd_cell_packedbool1_off5() {
    let arr: [u8; 24] = kani::any();
    match cell(&arr, ColumnDataType::PackedBool1, 5) {
        Some(ColumnData::Bool(v)) => assert!(v == (arr[5] & (1 << 1) != 0), "packed boolean = bit n of the stored byte"),
        _ => assert!(false, "cell of the declared type"),
    }
    kani::cover!(true, "reachable");
}

//@unit props=C05 label=S tier=thorough fn=exd::EXD::read_column bound="column type PackedBool2 at column offset 5 in a 24-byte row, all contents"
//@desc the cell is bit 2 of the one byte stored at the column offset; the bytes after it do not matter
#[kani::proof]
#[kani::unwind(26)]
fn k_exd_cell_packedbool2_off5() {
    let arr: [u8; 24] = kani::any();
    match cell(&arr, ColumnDataType::PackedBool2, 5) {
        Some(ColumnData::Bool(v)) => assert!(v == (arr[5] & (1 << 2) != 0), "packed boolean = bit n of the stored byte"),
        _ => assert!(false, "cell of the declared type"),
    }
    kani::cover!(true, "reachable");
}

//@unit props=C05 label=S tier=quick fn=exd::EXD::read_column bound="column type PackedBool3 at column offset 5 in a 24-byte row, all contents"
//@desc the cell is bit 3 of the one byte stored at the column offset; the bytes after it do not matter
#[kani::proof]
#[kani::unwind(26)]
fn k_exd_cell_packedbool3_off5() {
    let arr: [u8; 24] = kani::any();
    match cell(&arr, ColumnDataType::PackedBool3, 5) {
        Some(ColumnData::Bool(v)) => assert!(v == (arr[5] & (1 << 3) != 0), "packed boolean = bit n of the stored byte"),
        _ => assert!(false, "cell of the declared type"),
    }
    kani::cover!(true, "reachable");
}

//@unit props=C05 label=S tier=thorough fn=exd::EXD::read_column bound="column type PackedBool4 at column offset 5 in a 24-byte row, all contents"
//@desc the cell is bit 4 of the one byte stored at the column offset; the bytes after it do not matter
#[kani::proof]
#[kani::unwind(26)]
fn k_exd_cell_packedbool4_off5() {
    let arr: [u8; 24] = kani::any();
    match cell(&arr, ColumnDataType::PackedBool4, 5) {
        Some(ColumnData::Bool(v)) => assert!(v == (arr[5] & (1 << 4) != 0), "packed boolean = bit n of the stored byte"),
        _ => assert!(false, "cell of the declared type"),
    }
    kani::cover!(true, "reachable");
}

//@unit props=C05 label=S tier=thorough fn=exd::EXD::read_column bound="column type PackedBool5 at column offset 5 in a 24-byte row, all contents"
//@desc the cell is bit 5 of the one byte stored at the column offset; the bytes after it do not matter
#[kani::proof]
#[kani::unwind(26)]
fn k_exd_cell_packedbool5_off5() {
    let arr: [u8; 24] = kani::any();
    match cell(&arr, ColumnDataType::PackedBool5, 5) {
        Some(ColumnData::Bool(v)) => assert!(v == (arr[5] & (1 << 5) != 0), "packed boolean = bit n of the stored byte"),
        _ => assert!(false, "cell of the declared type"),
    }
    kani::cover!(true, "reachable");
}

//@unit props=C05 label=S tier=thorough fn=exd::EXD::read_column bound="column type PackedBool6 at column offset 5 in a 24-byte row, all contents"
//@desc the cell is bit 6 of the one byte stored at the column offset; the bytes after it do not matter
#[kani::proof]
#[kani::unwind(26)]
fn k_exd_cell_packedbool6_off5() {
    let arr: [u8; 24] = kani::any();
    match cell(&arr, ColumnDataType::PackedBool6, 5) {
        Some(ColumnData::Bool(v)) => assert!(v == (arr[5] & (1 << 6) != 0), "packed boolean = bit n of the stored byte"),
        _ => assert!(false, "cell of the declared type"),
    }
    kani::cover!(true, "reachable");
}

//@unit props=C05 label=S tier=quick fn=exd::EXD::read_column bound="column type PackedBool7 at column offset 5 in a 24-byte row, all contents"
//@desc the cell is bit 7 of the one byte stored at the column offset; the bytes after it do not matter
#[kani::proof]
#[kani::unwind(26)]
fn k_exd_cell_packedbool7_off5() {
    let arr: [u8; 24] = kani::any();
    match cell(&arr, ColumnDataType::PackedBool7, 5) {
        Some(ColumnData::Bool(v)) => assert!(v == (arr[5] & (1 << 7) != 0), "packed boolean = bit n of the stored byte"),
        _ => assert!(false, "cell of the declared type"),
    }
    kani::cover!(true, "reachable");
}

//@unit props=C05 label=S tier=thorough fn=exd::EXD::read_column bound="column type Int8 at column offset 0 in a 24-byte row, all contents"
//@desc the cell is the big-endian i8 stored at row_offset + column.offset
#[kani::proof]
#[kani::unwind(26)]
fn k_exd_cell_int8_off0() {
    let arr: [u8; 24] = kani::any();
    match cell(&arr, ColumnDataType::Int8, 0) {
        Some(ColumnData::Int8(v)) => assert!(v == i8::from_be_bytes([arr[0]]), "cell equals the stored big-endian value"),
        _ => assert!(false, "cell of the declared type"),
    }
    kani::cover!(true, "reachable");
}

//@unit props=C05 label=S tier=thorough fn=exd::EXD::read_column bound="column type UInt8 at column offset 0 in a 24-byte row, all contents"
//@desc the cell is the big-endian u8 stored at row_offset + column.offset
#[kani::proof]
#[kani::unwind(26)]
fn k_exd_cell_uint8_off0() {
    let arr: [u8; 24] = kani::any();
    match cell(&arr, ColumnDataType::UInt8, 0) {
        Some(ColumnData::UInt8(v)) => assert!(v == u8::from_be_bytes([arr[0]]), "cell equals the stored big-endian value"),
        _ => assert!(false, "cell of the declared type"),
    }
    kani::cover!(true, "reachable");
}

//@unit props=C05 label=S tier=thorough fn=exd::EXD::read_column bound="column type Int16 at column offset 0 in a 24-byte row, all contents"
//@desc the cell is the big-endian i16 stored at row_offset + column.offset
#[kani::proof]
#[kani::unwind(26)]
fn k_exd_cell_int16_off0() {
    let arr: [u8; 24] = kani::any();
    match cell(&arr, ColumnDataType::Int16, 0) {
        Some(ColumnData::Int16(v)) => assert!(v == i16::from_be_bytes([arr[0], arr[1]]), "cell equals the stored big-endian value"),
        _ => assert!(false, "cell of the declared type"),
    }
    kani::cover!(true, "reachable");
}

//@unit props=C05 label=S tier=thorough fn=exd::EXD::read_column bound="column type UInt16 at column offset 0 in a 24-byte row, all contents"
//@desc the cell is the big-endian u16 stored at row_offset + column.offset
#[kani::proof]
#[kani::unwind(26)]
fn k_exd_cell_uint16_off0() {
    let arr: [u8; 24] = kani::any();
    match cell(&arr, ColumnDataType::UInt16, 0) {
        Some(ColumnData::UInt16(v)) => assert!(v == u16::from_be_bytes([arr[0], arr[1]]), "cell equals the stored big-endian value"),
        _ => assert!(false, "cell of the declared type"),
    }
    kani::cover!(true, "reachable");
}

//@unit props=C05 label=S tier=thorough fn=exd::EXD::read_column bound="column type Int32 at column offset 0 in a 24-byte row, all contents"
//@desc the cell is the big-endian i32 stored at row_offset + column.offset
#[kani::proof]
#[kani::unwind(26)]
fn k_exd_cell_int32_off0() {
    let arr: [u8; 24] = kani::any();
    match cell(&arr, ColumnDataType::Int32, 0) {
        Some(ColumnData::Int32(v)) => assert!(v == i32::from_be_bytes([arr[0], arr[1], arr[2], arr[3]]), "cell equals the stored big-endian value"),
        _ => assert!(false, "cell of the declared type"),
    }
    kani::cover!(true, "reachable");
}

//@unit props=C05 label=S tier=thorough fn=exd::EXD::read_column bound="column type UInt32 at column offset 0 in a 24-byte row, all contents"
//@desc the cell is the big-endian u32 stored at row_offset + column.offset
#[kani::proof]
#[kani::unwind(26)]
fn k_exd_cell_uint32_off0() {
    let arr: [u8; 24] = kani::any();
    match cell(&arr, ColumnDataType::UInt32, 0) {
        Some(ColumnData::UInt32(v)) => assert!(v == u32::from_be_bytes([arr[0], arr[1], arr[2], arr[3]]), "cell equals the stored big-endian value"),
        _ => assert!(false, "cell of the declared type"),
    }
    kani::cover!(true, "reachable");
}

//@unit props=C05 label=S tier=thorough fn=exd::EXD::read_column bound="column type Int64 at column offset 0 in a 24-byte row, all contents"
//@desc the cell is the big-endian i64 stored at row_offset + column.offset
#[kani::proof]
#[kani::unwind(26)]
fn k_exd_cell_int64_off0() {
    let arr: [u8; 24] = kani::any();
    match cell(&arr, ColumnDataType::Int64, 0) {
        Some(ColumnData::Int64(v)) => assert!(v == i64::from_be_bytes([arr[0], arr[1], arr[2], arr[3], arr[4], arr[5], arr[6], arr[7]]), "cell equals the stored big-endian value"),
        _ => assert!(false, "cell of the declared type"),
    }
    kani::cover!(true, "reachable");
}

//@unit props=C05 label=S tier=thorough fn=exd::EXD::read_column bound="column type UInt64 at column offset 0 in a 24-byte row, all contents"
//@desc the cell is the big-endian u64 stored at row_offset + column.offset
#[kani::proof]
#[kani::unwind(26)]
fn k_exd_cell_uint64_off0() {
    let arr: [u8; 24] = kani::any();
    match cell(&arr, ColumnDataType::UInt64, 0) {
        Some(ColumnData::UInt64(v)) => assert!(v == u64::from_be_bytes([arr[0], arr[1], arr[2], arr[3], arr[4], arr[5], arr[6], arr[7]]), "cell equals the stored big-endian value"),
        _ => assert!(false, "cell of the declared type"),
    }
    kani::cover!(true, "reachable");
}

//@unit props=C05 label=S tier=thorough fn=exd::EXD::read_column bound="column type Float32 at column offset 0 in a 24-byte row, all contents"
//@desc the cell has the bits of the big-endian 32-bit word stored at the column offset
#[kani::proof]
#[kani::unwind(26)]
fn k_exd_cell_float32_off0() {
    let arr: [u8; 24] = kani::any();
    match cell(&arr, ColumnDataType::Float32, 0) {
        Some(ColumnData::Float32(v)) => assert!(v.to_bits() == u32::from_be_bytes([arr[0], arr[1], arr[2], arr[3]]), "cell has the stored bits"),
        _ => assert!(false, "cell of the declared type"),
    }
    kani::cover!(true, "reachable");
}

//@unit props=C05 label=S tier=thorough fn=exd::EXD::read_column bound="column type Bool at column offset 0 in a 24-byte row, all contents"
//@desc the cell is false for a stored byte 0 and true for every other stored byte (the reference decoders - SaintCoinach, Lumina - read a whole-byte boolean as byte != 0), whatever bytes follow it
#[kani::proof]
#[kani::unwind(26)]
fn k_exd_cell_bool_off0() {
    let arr: [u8; 24] = kani::any();
    let _ = 0;
    match cell(&arr, ColumnDataType::Bool, 0) {
        Some(ColumnData::Bool(v)) => assert!(v == (arr[0] != 0), "boolean cell = (the one stored byte != 0)"),
        _ => assert!(false, "cell of the declared type"),
    }
    kani::cover!(true, "reachable");
}

//@unit props=C05 label=S tier=thorough fn=exd::EXD::read_column bound="column type PackedBool0 at column offset 0 in a 24-byte row, all contents"
//@desc the cell is bit 0 of the one byte stored at the column offset; the bytes after it do not matter
#[kani::proof]
#[kani::unwind(26)]
fn k_exd_cell_packedbool0_off0() {
    let arr: [u8; 24] = kani::any();
    match cell(&arr, ColumnDataType::PackedBool0, 0) {
        Some(ColumnData::Bool(v)) => assert!(v == (arr[0] & (1 << 0) != 0), "packed boolean = bit n of the stored byte"),
        _ => assert!(false, "cell of the declared type"),
    }
    kani::cover!(true, "reachable");
}

//@unit props=C05 label=S tier=thorough fn=exd::EXD::read_column bound="column type PackedBool1 at column offset 0 in a 24-byte row, all contents"
//@desc the cell is bit 1 of the one byte stored at the column offset; the bytes after it do not matter
#[kani::proof]
#[kani::unwind(26)]
fn k_exd_cell_packedbool1_off0() {
    let arr: [u8; 24] = kani::any();
    match cell(&arr, ColumnDataType::PackedBool1, 0) {
        Some(ColumnData::Bool(v)) => assert!(v == (arr[0] & (1 << 1) != 0), "packed boolean = bit n of the stored byte"),
        _ => assert!(false, "cell of the declared type"),
    }
    kani::cover!(true, "reachable");
}

//@unit props=C05 label=S tier=thorough fn=exd::EXD::read_column bound="column type PackedBool2 at column offset 0 in a 24-byte row, all contents"
//@desc the cell is bit 2 of the one byte stored at the column offset; the bytes after it do not matter
#[kani::proof]
#[kani::unwind(26)]
fn k_exd_cell_packedbool2_off0() {
    let arr: [u8; 24] = kani::any();
    match cell(&arr, ColumnDataType::PackedBool2, 0) {
        Some(ColumnData::Bool(v)) => assert!(v == (arr[0] & (1 << 2) != 0), "packed boolean = bit n of the stored byte"),
        _ => assert!(false, "cell of the declared type"),
    }
    kani::cover!(true, "reachable");
}

//@unit props=C05 label=S tier=thorough fn=exd::EXD::read_column bound="column type PackedBool3 at column offset 0 in a 24-byte row, all contents"
//@desc the cell is bit 3 of the one byte stored at the column offset; the bytes after it do not matter
#[kani::proof]
#[kani::unwind(26)]
fn k_exd_cell_packedbool3_off0() {
    let arr: [u8; 24] = kani::any();
    match cell(&arr, ColumnDataType::PackedBool3, 0) {
        Some(ColumnData::Bool(v)) => assert!(v == (arr[0] & (1 << 3) != 0), "packed boolean = bit n of the stored byte"),
        _ => assert!(false, "cell of the declared type"),
    }
    kani::cover!(true, "reachable");
}

//@unit props=C05 label=S tier=thorough fn=exd::EXD::read_column bound="column type PackedBool4 at column offset 0 in a 24-byte row, all contents"
//@desc the cell is bit 4 of the one byte stored at the column offset; the bytes after it do not matter
#[kani::proof]
#[kani::unwind(26)]
fn k_exd_cell_packedbool4_off0() {
    let arr: [u8; 24] = kani::any();
    match cell(&arr, ColumnDataType::PackedBool4, 0) {
        Some(ColumnData::Bool(v)) => assert!(v == (arr[0] & (1 << 4) != 0), "packed boolean = bit n of the stored byte"),
        _ => assert!(false, "cell of the declared type"),
    }
    kani::cover!(true, "reachable");
}

//@unit props=C05 label=S tier=thorough fn=exd::EXD::read_column bound="column type PackedBool5 at column offset 0 in a 24-byte row, all contents"
//@desc the cell is bit 5 of the one byte stored at the column offset; the bytes after it do not matter
#[kani::proof]
#[kani::unwind(26)]
fn k_exd_cell_packedbool5_off0() {
    let arr: [u8; 24] = kani::any();
    match cell(&arr, ColumnDataType::PackedBool5, 0) {
        Some(ColumnData::Bool(v)) => assert!(v == (arr[0] & (1 << 5) != 0), "packed boolean = bit n of the stored byte"),
        _ => assert!(false, "cell of the declared type"),
    }
    kani::cover!(true, "reachable");
}

//@unit props=C05 label=S tier=thorough fn=exd::EXD::read_column bound="column type PackedBool6 at column offset 0 in a 24-byte row, all contents"
//@desc the cell is bit 6 of the one byte stored at the column offset; the bytes after it do not matter
#[kani::proof]
#[kani::unwind(26)]
fn k_exd_cell_packedbool6_off0() {
    let arr: [u8; 24] = kani::any();
    match cell(&arr, ColumnDataType::PackedBool6, 0) {
        Some(ColumnData::Bool(v)) => assert!(v == (arr[0] & (1 << 6) != 0), "packed boolean = bit n of the stored byte"),
        _ => assert!(false, "cell of the declared type"),
    }
    kani::cover!(true, "reachable");
}

//@unit props=C05 label=S tier=thorough fn=exd::EXD::read_column bound="column type PackedBool7 at column offset 0 in a 24-byte row, all contents"
//@desc the cell is bit 7 of the one byte stored at the column offset; the bytes after it do not matter
#[kani::proof]
#[kani::unwind(26)]
fn k_exd_cell_packedbool7_off0() {
    let arr: [u8; 24] = kani::any();
    match cell(&arr, ColumnDataType::PackedBool7, 0) {
        Some(ColumnData::Bool(v)) => assert!(v == (arr[0] & (1 << 7) != 0), "packed boolean = bit n of the stored byte"),
        _ => assert!(false, "cell of the declared type"),
    }
    kani::cover!(true, "reachable");
}

//@unit props=C05 label=S tier=thorough fn=exd::EXD::read_column bound="column type Int8 at column offset 1 in a 24-byte row, all contents"
//@desc the cell is the big-endian i8 stored at row_offset + column.offset
#[kani::proof]
#[kani::unwind(26)]
fn k_exd_cell_int8_off1() {
    let arr: [u8; 24] = kani::any();
    match cell(&arr, ColumnDataType::Int8, 1) {
        Some(ColumnData::Int8(v)) => assert!(v == i8::from_be_bytes([arr[1]]), "cell equals the stored big-endian value"),
        _ => assert!(false, "cell of the declared type"),
    }
    kani::cover!(true, "reachable");
}

//@unit props=C05 label=S tier=thorough fn=exd::EXD::read_column bound="column type UInt8 at column offset 1 in a 24-byte row, all contents"
//@desc the cell is the big-endian u8 stored at row_offset + column.offset
#[kani::proof]
#[kani::unwind(26)]
fn k_exd_cell_uint8_off1() {
    let arr: [u8; 24] = kani::any();
    match cell(&arr, ColumnDataType::UInt8, 1) {
        Some(ColumnData::UInt8(v)) => assert!(v == u8::from_be_bytes([arr[1]]), "cell equals the stored big-endian value"),
        _ => assert!(false, "cell of the declared type"),
    }
    kani::cover!(true, "reachable");
}

//@unit props=C05 label=S tier=thorough fn=exd::EXD::read_column bound="column type Int16 at column offset 1 in a 24-byte row, all contents"
//@desc the cell is the big-endian i16 stored at row_offset + column.offset
#[kani::proof]
#[kani::unwind(26)]
fn k_exd_cell_int16_off1() {
    let arr: [u8; 24] = kani::any();
    match cell(&arr, ColumnDataType::Int16, 1) {
        Some(ColumnData::Int16(v)) => assert!(v == i16::from_be_bytes([arr[1], arr[2]]), "cell equals the stored big-endian value"),
        _ => assert!(false, "cell of the declared type"),
    }
    kani::cover!(true, "reachable");
}

//@unit props=C05 label=S tier=thorough fn=exd::EXD::read_column bound="column type UInt16 at column offset 1 in a 24-byte row, all contents"
//@desc the cell is the big-endian u16 stored at row_offset + column.offset
#[kani::proof]
#[kani::unwind(26)]
fn k_exd_cell_uint16_off1() {
    let arr: [u8; 24] = kani::any();
    match cell(&arr, ColumnDataType::UInt16, 1) {
        Some(ColumnData::UInt16(v)) => assert!(v == u16::from_be_bytes([arr[1], arr[2]]), "cell equals the stored big-endian value"),
        _ => assert!(false, "cell of the declared type"),
    }
    kani::cover!(true, "reachable");
}

//@unit props=C05 label=S tier=thorough fn=exd::EXD::read_column bound="column type Int32 at column offset 1 in a 24-byte row, all contents"
//@desc the cell is the big-endian i32 stored at row_offset + column.offset
#[kani::proof]
#[kani::unwind(26)]
fn k_exd_cell_int32_off1() {
    let arr: [u8; 24] = kani::any();
    match cell(&arr, ColumnDataType::Int32, 1) {
        Some(ColumnData::Int32(v)) => assert!(v == i32::from_be_bytes([arr[1], arr[2], arr[3], arr[4]]), "cell equals the stored big-endian value"),
        _ => assert!(false, "cell of the declared type"),
    }
    kani::cover!(true, "reachable");
}

//@unit props=C05 label=S tier=thorough fn=exd::EXD::read_column bound="column type UInt32 at column offset 1 in a 24-byte row, all contents"
//@desc the cell is the big-endian u32 stored at row_offset + column.offset
#[kani::proof]
#[kani::unwind(26)]
fn k_exd_cell_uint32_off1() {
    let arr: [u8; 24] = kani::any();
    match cell(&arr, ColumnDataType::UInt32, 1) {
        Some(ColumnData::UInt32(v)) => assert!(v == u32::from_be_bytes([arr[1], arr[2], arr[3], arr[4]]), "cell equals the stored big-endian value"),
        _ => assert!(false, "cell of the declared type"),
    }
    kani::cover!(true, "reachable");
}

//@unit props=C05 label=S tier=thorough fn=exd::EXD::read_column bound="column type Int64 at column offset 1 in a 24-byte row, all contents"
//@desc the cell is the big-endian i64 stored at row_offset + column.offset
#[kani::proof]
#[kani::unwind(26)]
fn k_exd_cell_int64_off1() {
    let arr: [u8; 24] = kani::any();
    match cell(&arr, ColumnDataType::Int64, 1) {
        Some(ColumnData::Int64(v)) => assert!(v == i64::from_be_bytes([arr[1], arr[2], arr[3], arr[4], arr[5], arr[6], arr[7], arr[8]]), "cell equals the stored big-endian value"),
        _ => assert!(false, "cell of the declared type"),
    }
    kani::cover!(true, "reachable");
}

//@unit props=C05 label=S tier=thorough fn=exd::EXD::read_column bound="column type UInt64 at column offset 1 in a 24-byte row, all contents"
//@desc the cell is the big-endian u64 stored at row_offset + column.offset
#[kani::proof]
#[kani::unwind(26)]
fn k_exd_cell_uint64_off1() {
    let arr: [u8; 24] = kani::any();
    match cell(&arr, ColumnDataType::UInt64, 1) {
        Some(ColumnData::UInt64(v)) => assert!(v == u64::from_be_bytes([arr[1], arr[2], arr[3], arr[4], arr[5], arr[6], arr[7], arr[8]]), "cell equals the stored big-endian value"),
        _ => assert!(false, "cell of the declared type"),
    }
    kani::cover!(true, "reachable");
}

//@unit props=C05 label=S tier=thorough fn=exd::EXD::read_column bound="column type Float32 at column offset 1 in a 24-byte row, all contents"
//@desc the cell has the bits of the big-endian 32-bit word stored at the column offset
#[kani::proof]
#[kani::unwind(26)]
fn k_exd_cell_float32_off1() {
    let arr: [u8; 24] = kani::any();
    match cell(&arr, ColumnDataType::Float32, 1) {
        Some(ColumnData::Float32(v)) => assert!(v.to_bits() == u32::from_be_bytes([arr[1], arr[2], arr[3], arr[4]]), "cell has the stored bits"),
        _ => assert!(false, "cell of the declared type"),
    }
    kani::cover!(true, "reachable");
}

//@unit props=C05 label=S tier=thorough fn=exd::EXD::read_column bound="column type Bool at column offset 1 in a 24-byte row, all contents"
//@desc the cell is false for a stored byte 0 and true for every other stored byte (the reference decoders - SaintCoinach, Lumina - read a whole-byte boolean as byte != 0), whatever bytes follow it
#[kani::proof]
#[kani::unwind(26)]
fn k_exd_cell_bool_off1() {
    let arr: [u8; 24] = kani::any();
    let _ = 1;
    match cell(&arr, ColumnDataType::Bool, 1) {
        Some(ColumnData::Bool(v)) => assert!(v == (arr[1] != 0), "boolean cell = (the one stored byte != 0)"),
        _ => assert!(false, "cell of the declared type"),
    }
    kani::cover!(true, "reachable");
}

//@unit props=C05 label=S tier=thorough fn=exd::EXD::read_column bound="column type PackedBool0 at column offset 1 in a 24-byte row, all contents"
//@desc the cell is bit 0 of the one byte stored at the column offset; the bytes after it do not matter
#[kani::proof]
#[kani::unwind(26)]
fn k_exd_cell_packedbool0_off1() {
    let arr: [u8; 24] = kani::any();
    match cell(&arr, ColumnDataType::PackedBool0, 1) {
        Some(ColumnData::Bool(v)) => assert!(v == (arr[1] & (1 << 0) != 0), "packed boolean = bit n of the stored byte"),
        _ => assert!(false, "cell of the declared type"),
    }
    kani::cover!(true, "reachable");
}

//@unit props=C05 label=S tier=thorough fn=exd::EXD::read_column bound="column type PackedBool1 at column offset 1 in a 24-byte row, all contents"
//@desc the cell is bit 1 of the one byte stored at the column offset; the bytes after it do not matter
#[kani::proof]
#[kani::unwind(26)]
fn k_exd_cell_packedbool1_off1() {
    let arr: [u8; 24] = kani::any();
    match cell(&arr, ColumnDataType::PackedBool1, 1) {
        Some(ColumnData::Bool(v)) => assert!(v == (arr[1] & (1 << 1) != 0), "packed boolean = bit n of the stored byte"),
        _ => assert!(false, "cell of the declared type"),
    }
    kani::cover!(true, "reachable");
}

//@unit props=C05 label=S tier=thorough fn=exd::EXD::read_column bound="column type PackedBool2 at column offset 1 in a 24-byte row, all contents"
//@desc the cell is bit 2 of the one byte stored at the column offset; the bytes after it do not matter
#[kani::proof]
#[kani::unwind(26)]
fn k_exd_cell_packedbool2_off1() {
    let arr: [u8; 24] = kani::any();
    match cell(&arr, ColumnDataType::PackedBool2, 1) {
        Some(ColumnData::Bool(v)) => assert!(v == (arr[1] & (1 << 2) != 0), "packed boolean = bit n of the stored byte"),
        _ => assert!(false, "cell of the declared type"),
    }
    kani::cover!(true, "reachable");
}

//@unit props=C05 label=S tier=thorough fn=exd::EXD::read_column bound="column type PackedBool3 at column offset 1 in a 24-byte row, all contents"
//@desc the cell is bit 3 of the one byte stored at the column offset; the bytes after it do not matter
#[kani::proof]
#[kani::unwind(26)]
fn k_exd_cell_packedbool3_off1() {
    let arr: [u8; 24] = kani::any();
    match cell(&arr, ColumnDataType::PackedBool3, 1) {
        Some(ColumnData::Bool(v)) => assert!(v == (arr[1] & (1 << 3) != 0), "packed boolean = bit n of the stored byte"),
        _ => assert!(false, "cell of the declared type"),
    }
    kani::cover!(true, "reachable");
}

//@unit props=C05 label=S tier=thorough fn=exd::EXD::read_column bound="column type PackedBool4 at column offset 1 in a 24-byte row, all contents"
//@desc the cell is bit 4 of the one byte stored at the column offset; the bytes after it do not matter
#[kani::proof]
#[kani::unwind(26)]
fn k_exd_cell_packedbool4_off1() {
    let arr: [u8; 24] = kani::any();
    match cell(&arr, ColumnDataType::PackedBool4, 1) {
        Some(ColumnData::Bool(v)) => assert!(v == (arr[1] & (1 << 4) != 0), "packed boolean = bit n of the stored byte"),
        _ => assert!(false, "cell of the declared type"),
    }
    kani::cover!(true, "reachable");
}

//@unit props=C05 label=S tier=thorough fn=exd::EXD::read_column bound="column type PackedBool5 at column offset 1 in a 24-byte row, all contents"
//@desc the cell is bit 5 of the one byte stored at the column offset; the bytes after it do not matter
#[kani::proof]
#[kani::unwind(26)]
fn k_exd_cell_packedbool5_off1() {
    let arr: [u8; 24] = kani::any();
    match cell(&arr, ColumnDataType::PackedBool5, 1) {
        Some(ColumnData::Bool(v)) => assert!(v == (arr[1] & (1 << 5) != 0), "packed boolean = bit n of the stored byte"),
        _ => assert!(false, "cell of the declared type"),
    }
    kani::cover!(true, "reachable");
}

//@unit props=C05 label=S tier=thorough fn=exd::EXD::read_column bound="column type PackedBool6 at column offset 1 in a 24-byte row, all contents"
//@desc the cell is bit 6 of the one byte stored at the column offset; the bytes after it do not matter
#[kani::proof]
#[kani::unwind(26)]
fn k_exd_cell_packedbool6_off1() {
    let arr: [u8; 24] = kani::any();
    match cell(&arr, ColumnDataType::PackedBool6, 1) {
        Some(ColumnData::Bool(v)) => assert!(v == (arr[1] & (1 << 6) != 0), "packed boolean = bit n of the stored byte"),
        _ => assert!(false, "cell of the declared type"),
    }
    kani::cover!(true, "reachable");
}

//@unit props=C05 label=S tier=thorough fn=exd::EXD::read_column bound="column type PackedBool7 at column offset 1 in a 24-byte row, all contents"
//@desc the cell is bit 7 of the one byte stored at the column offset; the bytes after it do not matter
#[kani::proof]
#[kani::unwind(26)]
fn k_exd_cell_packedbool7_off1() {
    let arr: [u8; 24] = kani::any();
    match cell(&arr, ColumnDataType::PackedBool7, 1) {
        Some(ColumnData::Bool(v)) => assert!(v == (arr[1] & (1 << 7) != 0), "packed boolean = bit n of the stored byte"),
        _ => assert!(false, "cell of the declared type"),
    }
    kani::cover!(true, "reachable");
}

//@unit props=C05 label=B tier=quick fn=exd::EXD::read_column bound="String column at offset 4, data_offset 8, string offset word 1, strings of at most 2 characters before the NUL, row of 12 bytes"
//@desc the string offset word is big-endian; the characters are read from row_offset + data_offset + string_offset up to the NUL
#[kani::proof]
#[kani::unwind(14)]
fn k_exd_cell_string() {
    let mut arr: [u8; 12] = kani::any();
    arr[4] = 0; arr[5] = 0; arr[6] = 0; arr[7] = 1;
    kani::assume(arr[9] < 128 && arr[10] < 128);
    arr[11] = 0;
    let data = arr.to_vec();
    let column = ExcelColumnDefinition { data_type: ColumnDataType::String, offset: 4 };
    let exh = mk_exh(8, vec![]);
    let mut cursor = Cursor::new(&data);
    cursor.seek(SeekFrom::Start(4)).unwrap();
    match EXD::read_column(&mut cursor, &exh, 0, &column) {
        Some(ColumnData::String(s)) => {
            let b = s.as_bytes();
            let n = if arr[9] == 0 { 0 } else if arr[10] == 0 { 1 } else { 2 };
            assert!(b.len() == n, "string ends at the first NUL");
            if n >= 1 { assert!(b[0] == arr[9], "first character at row_offset + data_offset + string_offset"); }
            if n >= 2 { assert!(b[1] == arr[10], "second character"); }
            core::mem::forget(s);
        }
        _ => assert!(false, "string cell"),
    }
    kani::cover!(true, "reachable");
    core::mem::forget(exh);
}

fn mk_exd(data: Vec<u8>, offsets: Vec<ExcelDataOffset>) -> EXD {
    EXD { header: EXDHeader { version: 2, index_size: (offsets.len() * 8) as u32 }, data_offsets: offsets, data }
}

//@unit props=C05 label=S tier=quick fn=exd::EXD::read_row bound="page with 1 index entry (any id); row at offset 4 with row_count 1; schema of 2 columns (UInt16 at 0, UInt8 at 3); 16 data bytes symbolic" stubs=fmt::format
//@desc a known id yields one record whose cells are read at offset + 6 + column.offset, column by column
#[kani::proof]
#[kani::unwind(18)]
#[kani::stub(alloc::fmt::format, stub_fmt)]
fn k_exd_read_row_single() {
    let mut arr: [u8; 16] = kani::any();
    arr[8] = 0; arr[9] = 1; // row header at 4: data_size free, row_count = 1
    let id: u32 = kani::any();
    let exd = mk_exd(arr.to_vec(), vec![ExcelDataOffset { row_id: id, offset: 4 }]);
    let exh = mk_exh(4, vec![ExcelColumnDefinition { data_type: ColumnDataType::UInt16, offset: 0 }, ExcelColumnDefinition { data_type: ColumnDataType::UInt8, offset: 3 }]);
    match exd.read_row(&exh, id) {
        Some(rows) => {
            assert!(rows.len() == 1 && rows[0].data.len() == 2, "one record, one cell per column");
            match (&rows[0].data[0], &rows[0].data[1]) {
                (ColumnData::UInt16(a), ColumnData::UInt8(b)) => {
                    assert!(*a == u16::from_be_bytes([arr[10], arr[11]]), "column 0 at offset + 6 + 0");
                    assert!(*b == arr[13], "column 1 at offset + 6 + 3");
                }
                _ => assert!(false, "cell types follow the schema"),
            }
            core::mem::forget(rows);
        }
        None => assert!(false, "known row id yields a row"),
    }
    kani::cover!(true, "reachable");
    core::mem::forget(exd); core::mem::forget(exh);
}

//@unit props=C05 label=S tier=quick fn=exd::EXD::read_row bound="page with 2 index entries (any ids), query id different from both"
//@desc an unknown row id yields nothing
#[kani::proof]
#[kani::unwind(6)]
#[kani::stub(alloc::fmt::format, stub_fmt)]
fn k_exd_read_row_unknown_id() {
    let ids: [u32; 2] = kani::any();
    let exd = mk_exd(vec![0u8; 16], vec![ExcelDataOffset { row_id: ids[0], offset: 8 }, ExcelDataOffset { row_id: ids[1], offset: 0 }]);
    let exh = mk_exh(4, vec![]);
    let q: u32 = kani::any();
    kani::assume(q != ids[0] && q != ids[1]);
    assert!(exd.read_row(&exh, q).is_none(), "unknown row id yields nothing");
    kani::cover!(true, "reachable");
    core::mem::forget(exd); core::mem::forget(exh);
}

//@unit props=C05 label=S tier=quick fn=exd::EXD::read_row bound="row at offset 0 with row_count 2, data_offset 3, schema of 1 column (UInt8 at 1); 20 data bytes symbolic" stubs=fmt::format
//@desc sub-rows: one record per stored sub-row, sub-row i read at offset + 6 + i*(data_offset + 2) + 2, in order
#[kani::proof]
#[kani::unwind(22)]
#[kani::stub(alloc::fmt::format, stub_fmt)]
fn k_exd_read_row_subrows() {
    let mut arr: [u8; 20] = kani::any();
    arr[4] = 0; arr[5] = 2; // row_count = 2
    let id: u32 = kani::any();
    let exd = mk_exd(arr.to_vec(), vec![ExcelDataOffset { row_id: id, offset: 0 }]);
    let exh = mk_exh(3, vec![ExcelColumnDefinition { data_type: ColumnDataType::UInt8, offset: 1 }]);
    match exd.read_row(&exh, id) {
        Some(rows) => {
            assert!(rows.len() == 2, "one record per stored sub-row");
            match (&rows[0].data[0], &rows[1].data[0]) {
                (ColumnData::UInt8(a), ColumnData::UInt8(b)) => {
                    assert!(*a == arr[6 + 2 + 1], "sub-row 0 at offset + 6 + 2");
                    assert!(*b == arr[6 + (3 + 2) + 2 + 1], "sub-row 1 at offset + 6 + (data_offset + 2) + 2");
                }
                _ => assert!(false, "cell types follow the schema"),
            }
            core::mem::forget(rows);
        }
        None => assert!(false, "known row id yields rows"),
    }
    kani::cover!(true, "reachable");
    core::mem::forget(exd); core::mem::forget(exh);
}


//@unit props=C05 label=S tier=parked fn=exd::EXD::read_row bound="page with 2 index entries in any id order (ids symbolic, distinct); the wanted row is listed second; 1 column (UInt8 at 0); 16 data bytes symbolic" stubs=fmt::format
//@desc a stored row is found wherever it is listed in the page index, whatever ids precede it (the index need not be sorted)
#[kani::proof]
#[kani::unwind(18)]
#[kani::stub(alloc::fmt::format, stub_fmt)]
fn k_exd_read_row_second_entry() {
    let mut arr: [u8; 16] = kani::any();
    arr[8] = 0; arr[9] = 1;   // row header at 4: row_count = 1
    let ids: [u32; 2] = kani::any();
    kani::assume(ids[0] != ids[1]);
    let exd = mk_exd(arr.to_vec(), vec![ExcelDataOffset { row_id: ids[0], offset: 10 }, ExcelDataOffset { row_id: ids[1], offset: 4 }]);
    let exh = mk_exh(4, vec![ExcelColumnDefinition { data_type: ColumnDataType::UInt8, offset: 0 }]);
    match exd.read_row(&exh, ids[1]) {
        Some(rows) => {
            assert!(rows.len() == 1, "one record");
            match &rows[0].data[0] { ColumnData::UInt8(a) => assert!(*a == arr[10], "cell of the second listed row, read at its own offset + 6"), _ => assert!(false, "cell type") }
            core::mem::forget(rows);
        }
        None => assert!(false, "a stored row id yields its row wherever it is listed"),
    }
    kani::cover!(ids[0] > ids[1], "reachable");
    core::mem::forget(exd); core::mem::forget(exh);
}


//@unit props=C05 label=S tier=quick fn=exd::EXD::read_row bound="page with 2 index entries listed in descending id order (first id symbolic and larger than the wanted id 5); the wanted row is listed second; 1 column (UInt8 at 0); the cell byte symbolic" stubs=fmt::format
//@desc a stored row is found wherever it is listed in the page index, whatever ids precede it (the index need not be sorted)
#[kani::proof]
#[kani::unwind(18)]
#[kani::stub(alloc::fmt::format, stub_fmt)]
fn k_exd_read_row_second_entry_quick() {
    let mut arr = [0u8; 16];
    arr[10] = kani::any();
    arr[8] = 0; arr[9] = 1;   // row header at 4: row_count = 1
    let first: u32 = kani::any();
    kani::assume(first > 5);
    let ids: [u32; 2] = [first, 5];
    let exd = mk_exd(arr.to_vec(), vec![ExcelDataOffset { row_id: ids[0], offset: 10 }, ExcelDataOffset { row_id: ids[1], offset: 4 }]);
    let exh = mk_exh(4, vec![ExcelColumnDefinition { data_type: ColumnDataType::UInt8, offset: 0 }]);
    match exd.read_row(&exh, ids[1]) {
        Some(rows) => {
            assert!(rows.len() == 1, "one record");
            match &rows[0].data[0] { ColumnData::UInt8(a) => assert!(*a == arr[10], "cell of the second listed row, read at its own offset + 6"), _ => assert!(false, "cell type") }
            core::mem::forget(rows);
        }
        None => assert!(false, "a stored row id yields its row wherever it is listed"),
    }
    kani::cover!(ids[0] > ids[1], "reachable");
    core::mem::forget(exd); core::mem::forget(exh);
}


//@unit props=C05 label=S tier=quick fn=exd::EXD::read_row bound="row at offset 0 with row_count 2, data_offset 4, schema of 1 String column at 0; one-character ASCII strings (symbolic) stored right behind each sub-row's fixed part" stubs=fmt::format
//@desc string cells of sub-rows are resolved relative to their OWN sub-row (sub-row offset + data_offset + string offset), one record per sub-row
#[kani::proof]
#[kani::unwind(22)]
#[kani::stub(alloc::fmt::format, stub_fmt)]
fn k_exd_read_row_subrows_string() {
    let mut arr = [0u8; 20];
    arr[5] = 2; // row_count = 2 (big-endian u16 at 4)
    let c: [u8; 2] = kani::any();
    kani::assume(c[0] >= b'a' && c[0] <= b'z' && c[1] >= b'A' && c[1] <= b'Z');
    // sub-row 0 at 6 + 2 = 8: string offset word 0 at 8..12, its string at 8 + 4 + 0 = 12
    arr[12] = c[0]; arr[13] = 0;
    // sub-row 1 at 6 + (4 + 2) + 2 = 14: string offset word 0 at 14..18, its string at 14 + 4 + 0 = 18
    arr[18] = c[1]; arr[19] = 0;
    let id: u32 = kani::any();
    let exd = mk_exd(arr.to_vec(), vec![ExcelDataOffset { row_id: id, offset: 0 }]);
    let exh = mk_exh(4, vec![ExcelColumnDefinition { data_type: ColumnDataType::String, offset: 0 }]);
    match exd.read_row(&exh, id) {
        Some(rows) => {
            assert!(rows.len() == 2, "one record per stored sub-row");
            match (&rows[0].data[0], &rows[1].data[0]) {
                (ColumnData::String(a), ColumnData::String(b)) => {
                    assert!(a.as_bytes().len() == 1 && a.as_bytes()[0] == c[0], "string of sub-row 0, relative to sub-row 0");
                    assert!(b.as_bytes().len() == 1 && b.as_bytes()[0] == c[1], "string of sub-row 1, relative to sub-row 1");
                }
                _ => assert!(false, "cell types follow the schema"),
            }
            core::mem::forget(rows);
        }
        None => assert!(false, "known row id yields rows"),
    }
    kani::cover!(true, "reachable");
    core::mem::forget(exd); core::mem::forget(exh);
}

fn be32(b: &[u8], o: usize) -> u32 { u32::from_be_bytes([b[o], b[o + 1], b[o + 2], b[o + 3]]) }
fn be16(b: &[u8], o: usize) -> u16 { u16::from_be_bytes([b[o], b[o + 1]]) }

//@unit props=C05 label=S tier=quick fn=exd::{ExcelDataOffset,ExcelDataRowHeader}(derive),exh::{ExcelColumnDefinition,ExcelDataPagination,EXHHeader}(derive) bound="fixed-size records 8/6/4/8/32 bytes, all contents (EXH magic concrete; column type code held at UInt32)" stubs=fmt::format
//@desc big-endian field placement and bytes consumed of the sheet records
#[kani::proof]
#[kani::unwind(6)]
#[kani::stub(alloc::fmt::format, stub_fmt)]
fn k_excel_records() {
    let b: [u8; 8] = kani::any();
    let mut c = Cursor::new(&b[..]);
    match ExcelDataOffset::read(&mut c) {
        Ok(h) => { assert!(h.row_id == be32(&b, 0) && h.offset == be32(&b, 4), "row id, offset big-endian"); assert!(c.position() == 8, "8 bytes"); }
        Err(e) => { core::mem::forget(e); assert!(false, "parses"); }
    }
    let mut c = Cursor::new(&b[..]);
    match ExcelDataRowHeader::read(&mut c) {
        Ok(h) => { assert!(h.data_size == be32(&b, 0) && h.row_count == be16(&b, 4), "data size, row count big-endian"); assert!(c.position() == 6, "6 bytes"); }
        Err(e) => { core::mem::forget(e); assert!(false, "parses"); }
    }
    let mut c = Cursor::new(&b[..]);
    match ExcelDataPagination::read(&mut c) {
        Ok(h) => { assert!(h.start_id == be32(&b, 0) && h.row_count == be32(&b, 4), "start id, row count big-endian"); assert!(c.position() == 8, "8 bytes"); }
        Err(e) => { core::mem::forget(e); assert!(false, "parses"); }
    }
    let mut d = b; d[0] = 0; d[1] = 7;
    let mut c = Cursor::new(&d[..]);
    match ExcelColumnDefinition::read(&mut c) {
        Ok(h) => { assert!(h.data_type == ColumnDataType::UInt32 && h.offset == be16(&d, 2), "type code then big-endian offset"); assert!(c.position() == 4, "4 bytes"); }
        Err(e) => { core::mem::forget(e); assert!(false, "parses"); }
    }
    let mut hb: [u8; 32] = kani::any();
    hb[0] = b'E'; hb[1] = b'X'; hb[2] = b'H'; hb[3] = b'F';
    let mut c = Cursor::new(&hb[..]);
    match EXHHeader::read(&mut c) {
        Ok(h) => {
            assert!(h.version == be16(&hb, 4) && h.data_offset == be16(&hb, 6) && h.column_count == be16(&hb, 8) && h.page_count == be16(&hb, 10) && h.language_count == be16(&hb, 12), "header words");
            assert!(h.row_count == be32(&hb, 20), "row count after 6 bytes of padding");
            assert!(c.position() == 32, "32 bytes");
        }
        Err(e) => { core::mem::forget(e); assert!(false, "parses"); }
    }
    kani::cover!(true, "reachable");
}

//@unit props=C05 label=B tier=quick native=1 fn=exd::EXD::calculate_filename bound="exhaustive by execution: 8 languages x start ids {0, 1, 500, 10000, u32::MAX} x 3 sheet names"
//@desc data pages are named <sheet>_<start id>.exd for language-neutral sheets and <sheet>_<start id>_<language code>.exd otherwise (ja, en, de, fr, chs, cht, ko)
#[test]
fn native_exd_filenames() {
    let langs = [(Language::None, ""), (Language::Japanese, "ja"), (Language::English, "en"), (Language::German, "de"), (Language::French, "fr"),
                 (Language::ChineseSimplified, "chs"), (Language::ChineseTraditional, "cht"), (Language::Korean, "ko")];
    let mut cases = 0u64;
    for (l, code) in langs.iter() {
        for start in [0u32, 1, 500, 10000, u32::MAX] {
            for name in ["Item", "quest/000/ClsArc000_00021", "a"] {
                let page = ExcelDataPagination { start_id: start, row_count: 1 };
                let got = EXD::calculate_filename(name, *l, &page);
                let want = if code.is_empty() { format!("{name}_{start}.exd") } else { format!("{name}_{start}_{code}.exd") };
                assert_eq!(got, want, "page file name");
                cases += 1;
            }
        }
    }
    println!("NATIVE native_exd_filenames cases={cases}");
}

//@use_common

/// (type code, offset in the fixed-size region, width) of a schema with every column type; data_offset = 40
fn nex_columns() -> Vec<(u16, u16)> {
    vec![(0x0, 0), (0x1, 4), (0x2, 5), (0x3, 6), (0x4, 8), (0x5, 10), (0x6, 12), (0x7, 16), (0x9, 20), (0xA, 24), (0xB, 32),
         (0x19, 7), (0x1A, 7), (0x1B, 7), (0x1C, 7), (0x1D, 7), (0x1E, 7), (0x1F, 7), (0x20, 7), (0x0, 36)]
}
fn nex_exh(data_offset: u16, columns: &[(u16, u16)], pages: &[(u32, u32)], languages: &[u8]) -> Vec<u8> {
    let mut b = vec![];
    b.extend_from_slice(b"EXHF"); b.extend_from_slice(&3u16.to_be_bytes()); b.extend_from_slice(&data_offset.to_be_bytes());
    b.extend_from_slice(&(columns.len() as u16).to_be_bytes()); b.extend_from_slice(&(pages.len() as u16).to_be_bytes()); b.extend_from_slice(&(languages.len() as u16).to_be_bytes());
    b.extend_from_slice(&[0u8; 6]); b.extend_from_slice(&pages.iter().map(|p| p.1).sum::<u32>().to_be_bytes()); b.extend_from_slice(&[0u8; 8]);
    for (t, o) in columns { b.extend_from_slice(&t.to_be_bytes()); b.extend_from_slice(&o.to_be_bytes()); }
    for (s, c) in pages { b.extend_from_slice(&s.to_be_bytes()); b.extend_from_slice(&c.to_be_bytes()); }
    for l in languages { b.push(*l); b.push(0); }
    b
}
/// the stored values of record (row, sub) - every cell is a function of (row, sub, column) so that a misplaced read shows
struct NexRec { s1: String, b: bool, i8v: i8, u8v: u8, i16v: i16, u16v: u16, i32v: i32, u32v: u32, f: f32, i64v: i64, u64v: u64, packed: u8, s2: String }
fn nex_rec(row: u32, sub: u32) -> NexRec {
    let k = row.wrapping_mul(31).wrapping_add(sub * 7) % 100_003;
    NexRec { s1: format!("name {row}/{sub}"), b: k % 2 == 1, i8v: (k as i8).wrapping_sub(100), u8v: k.wrapping_mul(3) as u8, i16v: (k as i16).wrapping_mul(-77), u16v: k.wrapping_mul(1001) as u16,
             i32v: if k % 5 == 0 { i32::MIN } else { (k as i32).wrapping_mul(-123457) }, u32v: if k % 7 == 0 { u32::MAX } else { k.wrapping_mul(2654435761) }, f: k as f32 * 0.25 - 3.5,
             i64v: if k % 3 == 0 { i64::MIN } else { (k as i64).wrapping_mul(-0x1_0000_0001) }, u64v: if k % 4 == 0 { u64::MAX } else { (k as u64).wrapping_mul(0x1_0000_0001) }, packed: k.wrapping_mul(37).wrapping_add(0x55) as u8, s2: if k % 2 == 0 { String::new() } else { format!("description of {row}.{sub} ~") } }
}
fn nex_fixed(r: &NexRec, s1_rel: u32, s2_rel: u32) -> Vec<u8> {
    let mut f = vec![0u8; 40];
    f[0..4].copy_from_slice(&s1_rel.to_be_bytes()); f[4] = r.b as u8; f[5] = r.i8v as u8; f[6] = r.u8v; f[7] = r.packed;
    f[8..10].copy_from_slice(&r.i16v.to_be_bytes()); f[10..12].copy_from_slice(&r.u16v.to_be_bytes()); f[12..16].copy_from_slice(&r.i32v.to_be_bytes()); f[16..20].copy_from_slice(&r.u32v.to_be_bytes());
    f[20..24].copy_from_slice(&r.f.to_be_bytes()); f[24..32].copy_from_slice(&r.i64v.to_be_bytes()); f[32..40].copy_from_slice(&r.u64v.to_be_bytes()); f[36..40].copy_from_slice(&s2_rel.to_be_bytes());
    f
}
/// an EXD page: rows given as (row id, number of sub-rows); sub-row records are [u16 sub-row id][fixed region], strings pooled after the last record of the row
fn nex_exd(rows: &[(u32, u32)]) -> Vec<u8> {
    let mut body: Vec<u8> = vec![]; let mut index: Vec<(u32, u32)> = vec![];
    let base = 32 + rows.len() * 8;
    for (row, n) in rows {
        let start = base + body.len();
        index.push((*row, start as u32));
        let many = *n > 1;
        let rec_off = |i: u32| -> u32 { if many { start as u32 + 6 + i * 40 + 2 * (i + 1) } else { start as u32 + 6 } };
        let pool_start = rec_off(n - 1) + 40;
        let mut pool: Vec<u8> = vec![]; let mut fixed: Vec<u8> = vec![];
        for i in 0..*n {
            let r = nex_rec(*row, i);
            if many { fixed.extend_from_slice(&(i as u16).to_be_bytes()); }
            let s1_rel = pool_start + pool.len() as u32 - (rec_off(i) + 40); pool.extend_from_slice(r.s1.as_bytes()); pool.push(0);
            let s2_rel = pool_start + pool.len() as u32 - (rec_off(i) + 40); pool.extend_from_slice(r.s2.as_bytes()); pool.push(0);
            fixed.extend_from_slice(&nex_fixed(&r, s1_rel, s2_rel));
        }
        body.extend_from_slice(&((fixed.len() + pool.len()) as u32).to_be_bytes()); body.extend_from_slice(&(*n as u16).to_be_bytes());
        body.extend_from_slice(&fixed); body.extend_from_slice(&pool);
    }
    let mut b = vec![];
    b.extend_from_slice(b"EXDF"); b.extend_from_slice(&2u16.to_be_bytes()); b.extend_from_slice(&[0u8; 2]); b.extend_from_slice(&((rows.len() * 8) as u32).to_be_bytes()); b.extend_from_slice(&(body.len() as u32).to_be_bytes()); b.extend_from_slice(&[0u8; 16]);
    for (id, off) in index { b.extend_from_slice(&id.to_be_bytes()); b.extend_from_slice(&off.to_be_bytes()); }
    b.extend_from_slice(&body);
    b
}
fn nex_check_row(got: &ExcelRow, row: u32, sub: u32) {
    let r = nex_rec(row, sub);
    assert_eq!(got.data.len(), 20, "one cell per column");
    let cell = |i: usize| format!("{:?}", got.data[i]);
    assert_eq!(cell(0), format!("{:?}", ColumnData::String(r.s1.clone())), "row {row}/{sub}: first string");
    assert_eq!(cell(1), format!("{:?}", ColumnData::Bool(r.b)), "row {row}/{sub}: bool");
    assert_eq!(cell(2), format!("{:?}", ColumnData::Int8(r.i8v))); assert_eq!(cell(3), format!("{:?}", ColumnData::UInt8(r.u8v)));
    assert_eq!(cell(4), format!("{:?}", ColumnData::Int16(r.i16v))); assert_eq!(cell(5), format!("{:?}", ColumnData::UInt16(r.u16v)));
    assert_eq!(cell(6), format!("{:?}", ColumnData::Int32(r.i32v)), "row {row}/{sub}: i32"); assert_eq!(cell(7), format!("{:?}", ColumnData::UInt32(r.u32v)), "row {row}/{sub}: u32");
    assert_eq!(cell(8), format!("{:?}", ColumnData::Float32(r.f)), "row {row}/{sub}: float");
    assert_eq!(cell(9), format!("{:?}", ColumnData::Int64(r.i64v)), "row {row}/{sub}: i64");
    for bit in 0..8 { assert_eq!(cell(11 + bit), format!("{:?}", ColumnData::Bool(r.packed >> bit & 1 == 1)), "row {row}/{sub}: packed bool bit {bit}"); }
    assert_eq!(cell(19), format!("{:?}", ColumnData::String(r.s2.clone())), "row {row}/{sub}: second string");
}

//@unit props=C05 label=B tier=quick native=1 fn=exd::EXD::{from_existing,read_row,read_column},exh::EXH::from_existing bound="by execution: one 20-column schema holding every column type (two strings, all eight packed-bool bits of one byte), pages of 1..6 rows in ascending, descending and shuffled id order, 1..4 sub-rows per row, 2 pages, 3 languages; every stored row id and 6 absent ids; one row of 6 sub-rows with a 0x4000-byte fixed-size region (sub-row offsets beyond 65535)"
//@desc a header built from bytes parses to its columns, pages and languages; reading a stored row returns one record per sub-row whose 20 cells equal the stored values (big-endian integers, float bits, one-byte bool, each packed bit, both strings); an unknown row id yields nothing
#[test]
fn native_exd_files() {
    let mut cases = 0u64;
    let exh = EXH::from_existing(&nex_exh(40, &nex_columns(), &[(0, 100), (100, 50)], &[0, 1, 2])).expect("header parses");
    assert_eq!((exh.header.data_offset, exh.column_definitions.len(), exh.pages.len(), exh.languages.len()), (40, 20, 2, 3));
    assert_eq!((exh.pages[1].start_id, exh.pages[1].row_count), (100, 50));
    for (i, (t, o)) in nex_columns().iter().enumerate() { assert_eq!((exh.column_definitions[i].data_type.clone() as u16, exh.column_definitions[i].offset), (*t, *o), "column {i}"); }
    let id_sets: Vec<Vec<u32>> = vec![vec![7], vec![1, 2, 3], vec![30, 20, 10], vec![5, 1, 9, 3, 7, 2], vec![0, u32::MAX, 1000000]];
    for ids in id_sets.iter() { for subshape in 0..3u32 {
        let rows: Vec<(u32, u32)> = ids.iter().enumerate().map(|(k, id)| (*id, match subshape { 0 => 1, 1 => 1 + (k as u32 % 4), _ => 4 - (k as u32 % 4) })).collect();
        let exd = EXD::from_existing(&nex_exd(&rows)).expect("page parses");
        for (id, n) in rows.iter() {
            let got = exd.read_row(&exh, *id).expect("a stored row is found");
            assert_eq!(got.len() as u32, *n, "one record per stored sub-row of row {id}");
            for (sub, rec) in got.iter().enumerate() { nex_check_row(rec, *id, sub as u32); }
            cases += 1;
        }
        for absent in [4u32, 6, 8, 11, 999, 0x8000_0000] { if !ids.contains(&absent) { assert!(exd.read_row(&exh, absent).is_none(), "unknown row id {absent} yields nothing"); cases += 1; } }
    } }
    // a wide fixed-size region (0x4000 bytes) with 6 sub-rows: sub-row i starts 6 + i * (0x4000 + 2) + 2 bytes into the row, beyond 65535 from i = 4 on
    {
        let d: u16 = 0x4000; let n: u32 = 6;
        let exh = EXH::from_existing(&nex_exh(d, &[(0x7, 0), (0x5, d - 2)], &[(0, 10)], &[0])).expect("header parses");
        let mut body: Vec<u8> = vec![];
        for i in 0..n { body.extend_from_slice(&(i as u16).to_be_bytes()); let mut f = vec![0u8; d as usize]; f[0..4].copy_from_slice(&(0xA000_0000u32 + i).to_be_bytes()); f[d as usize - 2..].copy_from_slice(&(0xB000u16 + i as u16).to_be_bytes()); body.extend_from_slice(&f); }
        let mut b = vec![]; b.extend_from_slice(b"EXDF"); b.extend_from_slice(&2u16.to_be_bytes()); b.extend_from_slice(&[0u8; 2]); b.extend_from_slice(&8u32.to_be_bytes()); b.extend_from_slice(&((body.len() + 6) as u32).to_be_bytes()); b.extend_from_slice(&[0u8; 16]);
        b.extend_from_slice(&9u32.to_be_bytes()); b.extend_from_slice(&40u32.to_be_bytes());
        b.extend_from_slice(&(body.len() as u32).to_be_bytes()); b.extend_from_slice(&(n as u16).to_be_bytes()); b.extend_from_slice(&body);
        let exd = EXD::from_existing(&b).expect("page parses");
        let got = exd.read_row(&exh, 9).expect("stored row");
        assert_eq!(got.len() as u32, n, "one record per sub-row");
        for (i, r) in got.iter().enumerate() { assert_eq!(format!("{:?}", r.data), format!("{:?}", vec![ColumnData::UInt32(0xA000_0000 + i as u32), ColumnData::UInt16(0xB000 + i as u16)]), "sub-row {i} of a row with a 0x4000-byte fixed region"); }
        cases += 1;
    }
    println!("NATIVE native_exd_files cases={cases}");
}

//@unit props=C18 label=B tier=quick native=1 fn=exd::EXD::{from_existing,read_row},exh::EXH::from_existing bound="by execution: the 20-column header and a 3-row page with sub-rows of native_exd_files: every truncation and 7 single-byte corruptions per byte of the page (read with the intact header) and of the header (used to read the intact page), each followed by read_row on every stored id"
//@desc extreme row lengths, column offsets and sub-row counts (0xFFFF each, all column types) and damaged sheet headers and pages (truncated, any count, offset, type code, size or string byte damaged) yield None or values, never a panic
#[test]
fn native_exd_damaged_nopanic() {
    let hb = nex_exh(40, &nex_columns(), &[(0, 100)], &[0]);
    let pb = nex_exd(&[(1, 1), (2, 3), (3, 2)]);
    let mut s = NativeSites::new();
    { let hb = hb.clone(); let f = move |b: &[u8]| { if let (Some(h), Some(p)) = (EXH::from_existing(&hb), EXD::from_existing(b)) { for id in [1u32, 2, 3, 4] { let _ = p.read_row(&h, id); } } }; s.sweep(&pb, 1 << 20, 1, &f); }
    { let pb = pb.clone(); let f = move |b: &[u8]| { if let (Some(h), Some(p)) = (EXH::from_existing(b), EXD::from_existing(&pb)) { for id in [1u32, 2, 3, 4] { let _ = p.read_row(&h, id); } } }; s.sweep(&hb, 1 << 20, 1, &f); }
    // extreme counts that single-byte damage does not reach: one-column headers (each column type) whose fixed-size row length and column offset are
    // 0xFFFF, with a page whose only row claims 1, 2, 0x8000 and 0xFFFF sub-rows and has no payload (the last sub-rows lie beyond 4 GiB)
    for ty in [0x0u16, 0x1, 0x2, 0x3, 0x4, 0x5, 0x6, 0x7, 0x9, 0xA, 0xB, 0x19, 0x1A, 0x20] { for (data_offset, col_off) in [(0xFFFFu16, 0xFFFFu16), (0xFFFF, 0), (4, 0xFFFF), (0, 0)] { for subrows in [1u16, 2, 0x8000, 0xFFFF] {
        let mut hb2: Vec<u8> = b"EXHF".to_vec(); hb2.extend_from_slice(&3u16.to_be_bytes()); hb2.extend_from_slice(&data_offset.to_be_bytes()); hb2.extend_from_slice(&1u16.to_be_bytes()); hb2.extend_from_slice(&[0u8; 4]); hb2.extend_from_slice(&[0u8; 6]);
        hb2.extend_from_slice(&1u32.to_be_bytes()); hb2.extend_from_slice(&[0u8; 8]); hb2.extend_from_slice(&ty.to_be_bytes()); hb2.extend_from_slice(&col_off.to_be_bytes());
        let mut pb2: Vec<u8> = b"EXDF".to_vec(); pb2.extend_from_slice(&2u16.to_be_bytes()); pb2.extend_from_slice(&[0u8; 2]); pb2.extend_from_slice(&8u32.to_be_bytes()); pb2.extend_from_slice(&[0u8; 20]);
        pb2.extend_from_slice(&1u32.to_be_bytes()); pb2.extend_from_slice(&40u32.to_be_bytes()); pb2.extend_from_slice(&0u32.to_be_bytes()); pb2.extend_from_slice(&subrows.to_be_bytes());
        let f = move |b: &[u8]| { if let (Some(h), Some(p)) = (EXH::from_existing(&hb2), EXD::from_existing(b)) { let _ = p.read_row(&h, 1); let _ = p.read_row(&h, 2); } };
        s.run(&f, &pb2, &format!("one column of type {ty:#x} at offset {col_off:#x}, row length {data_offset:#x}, a row claiming {subrows} sub-rows without payload"));
    } } }
    s.finish("native_exd_damaged_nopanic");
}

// ---- a synthetic archive holding sheets (minimal copies of the index / standard-entry packers of the gamedata and dat units, so that this file stands alone) ----
fn nexa_jamcrc(bytes: &[u8]) -> u32 { let mut c: u32 = 0xFFFF_FFFF; for b in bytes { c ^= *b as u32; for _ in 0..8 { c = if c & 1 == 1 { (c >> 1) ^ 0xEDB8_8320 } else { c >> 1 }; } } c }
fn nexa_entry(content: &[u8]) -> Vec<u8> {
    let mut b = vec![]; b.extend_from_slice(&16u32.to_le_bytes()); b.extend_from_slice(&0u32.to_le_bytes()); b.extend_from_slice(&32000i32.to_le_bytes()); b.extend_from_slice(&(content.len() as i32).to_le_bytes()); b.extend_from_slice(content);
    while b.len() % 128 != 0 { b.push(0); }
    let mut info = vec![]; info.extend_from_slice(&0u32.to_le_bytes()); info.extend_from_slice(&2i32.to_le_bytes()); info.extend_from_slice(&(content.len() as u32).to_le_bytes()); info.extend_from_slice(&[0u8; 8]); info.extend_from_slice(&1u32.to_le_bytes());
    info.extend_from_slice(&0i32.to_le_bytes()); info.extend_from_slice(&(b.len() as u16).to_le_bytes()); info.extend_from_slice(&(content.len() as u16).to_le_bytes());
    while info.len() % 128 != 0 { info.push(0); }
    let n = info.len() as u32; info[0..4].copy_from_slice(&n.to_le_bytes()); info.extend_from_slice(&b); info
}
fn nexa_archive(dir: &std::path::Path, files: &[(String, Vec<u8>)]) {
    std::fs::create_dir_all(dir.join("sqpack/ffxiv")).unwrap();
    std::fs::write(dir.join("ffxivgame.ver"), "2023.09.28.0000.0000").unwrap();
    let mut dat = vec![0xEEu8; 0x800]; let mut idx = vec![0u8; 2048 + files.len() * 16];
    idx[0..8].copy_from_slice(b"SqPack\0\0"); idx[12..16].copy_from_slice(&1024u32.to_le_bytes()); idx[16..20].copy_from_slice(&1u32.to_le_bytes()); idx[20..24].copy_from_slice(&2u32.to_le_bytes()); idx[32] = 0xFF; idx[33] = 0xFF;
    idx[1024..1028].copy_from_slice(&1024u32.to_le_bytes()); idx[1028..1032].copy_from_slice(&1u32.to_le_bytes()); idx[1032..1036].copy_from_slice(&2048u32.to_le_bytes()); idx[1036..1040].copy_from_slice(&((files.len() * 16) as u32).to_le_bytes());
    for (i, (path, content)) in files.iter().enumerate() {
        let off = dat.len() as u64; dat.extend_from_slice(&nexa_entry(content)); dat.extend_from_slice(&[0u8; 128]);
        let (folder, file) = path.rsplit_once('/').unwrap(); let at = 2048 + i * 16;
        idx[at..at + 4].copy_from_slice(&nexa_jamcrc(file.as_bytes()).to_le_bytes()); idx[at + 4..at + 8].copy_from_slice(&nexa_jamcrc(folder.as_bytes()).to_le_bytes()); idx[at + 8..at + 12].copy_from_slice(&(((off / 128) as u32) << 4).to_le_bytes());
    }
    std::fs::write(dir.join("sqpack/ffxiv/0a0000.win32.index"), idx).unwrap();
    std::fs::write(dir.join("sqpack/ffxiv/0a0000.win32.dat0"), dat).unwrap();
}

//@unit props=C05 label=B tier=quick native=1 fn=gamedata::GameData::{read_excel_sheet_header,read_excel_sheet,get_all_sheet_names},exd::EXD::calculate_filename bound="by execution on a temporary installation: a root list with 3 sheets (one of them not stored), a language-neutral sheet with 2 pages and an English/Japanese sheet, headers and pages stored under the names the root list, header and language imply"
//@desc the root list names the sheets; a sheet's header is found under exd/<lower-cased name>.exh, its pages under exd/<name>_<start id>[_<language code>].exd; rows read from the located page hold the stored values; a sheet that is not listed, or listed but not stored, yields nothing
#[test]
fn native_excel_in_archive() {
    use crate::gamedata::GameData; use crate::common::{Language, Platform};
    let root = std::env::temp_dir().join(format!("physis-verif-c05g-{}", std::process::id()));
    let _ = std::fs::remove_dir_all(&root);
    let game = root.join("game");
    let files: Vec<(String, Vec<u8>)> = vec![
        ("exd/root.exl".to_string(), b"EXLT,2\nAchievement,209\nItemAction,-1\nquest/Missing,5".to_vec()),
        ("exd/achievement.exh".to_string(), nex_exh(40, &nex_columns(), &[(0, 3), (500, 2)], &[0])),
        ("exd/achievement_0.exd".to_string(), nex_exd(&[(0, 1), (1, 2), (2, 1)])),
        ("exd/achievement_500.exd".to_string(), nex_exd(&[(500, 1), (501, 3)])),
        ("exd/itemaction.exh".to_string(), nex_exh(40, &nex_columns(), &[(10, 2)], &[2, 1])),
        ("exd/itemaction_10_en.exd".to_string(), nex_exd(&[(10, 1), (11, 1)])),
        ("exd/itemaction_10_ja.exd".to_string(), nex_exd(&[(10, 2), (11, 2)])),
    ];
    nexa_archive(&game, &files);
    let mut gd = GameData::from_existing(Platform::Win32, game.to_str().unwrap()).expect("installation opens");
    assert_eq!(gd.get_all_sheet_names(), Some(vec!["Achievement".to_string(), "ItemAction".to_string(), "quest/Missing".to_string()]), "sheet names from the root list");
    let mut cases = 0u64;
    let a = gd.read_excel_sheet_header("Achievement").expect("header of a listed sheet");
    assert_eq!((a.pages.len(), a.pages[1].start_id, a.column_definitions.len()), (2, 500, 20));
    for (page, rows) in [(0usize, vec![(0u32, 1u32), (1, 2), (2, 1)]), (1, vec![(500, 1), (501, 3)])] {
        let exd = gd.read_excel_sheet("Achievement", &a, Language::None, page).expect("page located by <name>_<start id>.exd");
        for (id, n) in rows { let got = exd.read_row(&a, id).expect("stored row"); assert_eq!(got.len() as u32, n); for (sub, r) in got.iter().enumerate() { nex_check_row(r, id, sub as u32); } cases += 1; }
        assert!(exd.read_row(&a, 77).is_none());
    }
    let i = gd.read_excel_sheet_header("ItemAction").expect("header of the second sheet");
    for (lang, subs) in [(Language::English, 1u32), (Language::Japanese, 2)] {
        let exd = gd.read_excel_sheet("ItemAction", &i, lang, 0).expect("page located by <name>_<start id>_<language code>.exd");
        for id in [10u32, 11] { let got = exd.read_row(&i, id).expect("stored row"); assert_eq!(got.len() as u32, subs, "the page of the requested language is read"); nex_check_row(&got[0], id, 0); cases += 1; }
    }
    assert!(gd.read_excel_sheet("ItemAction", &i, Language::German, 0).is_none(), "a language that is not stored yields nothing");
    assert!(gd.read_excel_sheet_header("quest/Missing").is_none(), "listed but not stored");
    assert!(gd.read_excel_sheet_header("NotListed").is_none() && gd.read_excel_sheet_header("achievement").is_none(), "not listed (names are matched as listed)");
    let _ = std::fs::remove_dir_all(&root);
    println!("NATIVE native_excel_in_archive cases={cases}");
}
