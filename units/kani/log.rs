//@module src/log.rs
use super::*;

fn stub_fmt(_a: core::fmt::Arguments<'_>) -> String { String::new() }

//@unit props=C17 label=S tier=parked fn=log::ChatLog::from_existing bound="4-byte buffers (shorter than the 8-byte header), all contents" stubs=fmt::format
//@desc a chat log that is too short to hold its header yields None; it never panics
#[kani::proof]
#[kani::unwind(4)]
#[kani::stub(alloc::fmt::format, stub_fmt)]
fn k_chatlog_short_header_nopanic() {
    let b: [u8; 4] = kani::any();
    let r = ChatLog::from_existing(&b[..]);
    assert!(r.is_none(), "no log in fewer than 8 bytes");
    kani::cover!(true, "reachable");
}

//@unit props=C17 label=S tier=parked fn=log::ChatLog::from_existing bound="8-byte buffers (header only), all contents" stubs=fmt::format
//@desc a header-only chat log yields None or an empty log; it never panics (sizes larger than the buffer are rejected)
#[kani::proof]
#[kani::unwind(4)]
#[kani::stub(alloc::fmt::format, stub_fmt)]
fn k_chatlog_header_only_nopanic() {
    let b: [u8; 8] = kani::any();
    if let Some(l) = ChatLog::from_existing(&b) { core::mem::forget(l); }
    kani::cover!(true, "reachable");
}
