//@module src/log.rs
use super::*;

fn stub_fmt(_a: core::fmt::Arguments<'_>) -> String { String::new() }

//@unit props=C17 label=S tier=parked fn=log::ChatLog::from_existing bound="4-byte buffers (shorter than the 8-byte header), all contents" stubs=fmt::format
//@desc a chat log that is too short to hold its header yields None; it never panics
#[kani::proof]
#[kani::unwind(4)]
#[kani::stub(alloc::fmt::format, stub_fmt)]
fn k_chatlog_short_header_nopanic() {
    let b: [u8; 4] = kani::any();
    let r = ChatLog::from_existing(&b[..]);
    assert!(r.is_none(), "no log in fewer than 8 bytes");
    kani::cover!(true, "reachable");
}

//@unit props=C17 label=S tier=parked fn=log::ChatLog::from_existing bound="8-byte buffers (header only), all contents" stubs=fmt::format
//@desc a header-only chat log yields None or an empty log; it never panics (sizes larger than the buffer are rejected)
#[kani::proof]
#[kani::unwind(4)]
#[kani::stub(alloc::fmt::format, stub_fmt)]
fn k_chatlog_header_only_nopanic() {
    let b: [u8; 8] = kani::any();
    if let Some(l) = ChatLog::from_existing(&b) { core::mem::forget(l); }
    kani::cover!(true, "reachable");
}

//@use_common

fn nlog_valid() -> Vec<u8> {
    // layout the reader expects: content_size, file_size, (file_size - content_size) offsets, content at 8 + 4 * file_size
    let msgs: [&[u8]; 3] = [b"hello", b"", "w\u{f6}rld".as_bytes()];
    let mut content: Vec<u8> = vec![];
    let mut offs: Vec<u32> = vec![];
    for (i, m) in msgs.iter().enumerate() {
        offs.push(content.len() as u32);
        content.extend_from_slice(&(1_700_000_000u32 + i as u32).to_le_bytes());
        content.push([3u8, 20, 64][i]);
        content.push([0u8, 2, 32][i]);
        content.extend_from_slice(&1u32.to_le_bytes());
        content.extend_from_slice(m);
    }
    let mut v: Vec<u8> = vec![];
    v.extend_from_slice(&0u32.to_le_bytes());
    v.extend_from_slice(&3u32.to_le_bytes());
    for o in offs { v.extend_from_slice(&o.to_le_bytes()); }
    v.extend_from_slice(&content);
    v
}

//@unit props=C17 label=B tier=quick native=1 fn=log::ChatLog::from_existing bound="by execution: a 3-entry log built to the layout the reader expects (one empty and one multi-byte message): the log itself, every truncation and 7 single-byte corruptions per byte"
//@desc a well-formed log yields its three messages; damaged logs (truncated anywhere, any single byte of sizes, offsets, filter/channel bytes or text damaged) yield None or a value, never a panic
#[test]
fn native_chatlog_damaged_nopanic() {
    let v = nlog_valid();
    let log = ChatLog::from_existing(&v).expect("the well-formed log parses");
    assert_eq!(log.entries.len(), 3);
    assert_eq!(log.entries[0].message, "hello");
    assert_eq!(log.entries[1].message, "");
    assert_eq!(log.entries[2].message, "w\u{f6}rld");
    let f = |b: &[u8]| { let _ = ChatLog::from_existing(b); };
    let cases = native_sweep(&v, 4096, 1, &f);
    println!("NATIVE native_chatlog_damaged_nopanic cases={cases}");
}
