//@module src/crc.rs
use super::*;

fn spec_crc32_raw(init: u32, bytes: &[u8]) -> u32 {
    // reflected CRC-32 register update (poly 0xEDB88320), no pre/post inversion
    let mut c = init;
    let mut i = 0;
    while i < bytes.len() {
        c ^= bytes[i] as u32;
        let mut k = 0;
        while k < 8 { c = if c & 1 == 1 { (c >> 1) ^ 0xEDB8_8320 } else { c >> 1 }; k += 1; }
        i += 1;
    }
    c
}

//@unit props=C12 label=B tier=thorough fn=crc::XivCrc32::from(&[u8]) bound="inputs of exactly 2 bytes, all contents (through libz-rs-sys::crc32)"
//@desc the shader-key hash is the reflected CRC-32 register with zero initial value and no final XOR
#[kani::proof]
#[kani::unwind(10)]
fn k_xivcrc32_2bytes() {
    let b: [u8; 2] = kani::any();
    let x = XivCrc32::from(&b[..]);
    assert!(x.crc == spec_crc32_raw(0, &b), "CRC-32 with init 0 and no final XOR");
    assert!(x.len == 2, "length recorded");
    kani::cover!(true, "reachable");
}

//@unit props=C12 label=B tier=thorough fn=crc::XivCrc32::from(&[u8]) bound="the empty input only (through libz-rs-sys::crc32)"
//@desc the shader-key hash of the empty string is 0 (register form, zero initial value, no final XOR), slice and array entry points
#[kani::proof]
#[kani::unwind(10)]
fn k_xivcrc32_empty() {
    let e: [u8; 0] = [];
    let x0 = XivCrc32::from(&e[..]);
    assert!(x0.crc == 0 && x0.len == 0, "empty input hashes to 0");
    let x0a = XivCrc32::from(&e);
    assert!(x0a.crc == 0 && x0a.len == 0, "empty array input hashes to 0");
    kani::cover!(true, "reachable");
}

//@unit props=C12 label=B tier=thorough fn=crc::XivCrc32::from(&[u8]) bound="inputs of exactly 1 byte, all contents (through libz-rs-sys::crc32)"
//@desc the shader-key hash of one byte is the CRC-32 register of that byte with zero initial value and no final XOR
#[kani::proof]
#[kani::unwind(10)]
fn k_xivcrc32_1byte() {
    let b: [u8; 1] = kani::any();
    let x = XivCrc32::from(&b[..]);
    assert!(x.crc == spec_crc32_raw(0, &b), "CRC-32 with init 0 and no final XOR");
    assert!(x.len == 1, "length recorded");
    kani::cover!(true, "reachable");
}

//@unit props=C12 label=P tier=quick fn=crc::XivCrc32::{bitxor,bitxor_assign,new}
//@desc xor-combination of two hashes xors the registers and keeps the longer length, for all values
#[kani::proof]
fn k_xivcrc32_xor() {
    let (a, b): (u32, u32) = (kani::any(), kani::any());
    let (la, lb): (usize, usize) = (kani::any(), kani::any());
    let r = XivCrc32::new(a, la) ^ XivCrc32::new(b, lb);
    assert!(r.crc == a ^ b && r.len == if la > lb { la } else { lb }, "xor of registers, max of lengths");
    let mut m = XivCrc32::new(a, la);
    m ^= XivCrc32::new(b, lb);
    assert!(m == r, "assign form agrees");
    kani::cover!(true, "reachable");
}

//@unit props=C12 label=B tier=quick native=1 fn=crc::XivCrc32::from(&[u8]),crc::XivCrc32::from(&str),crc::Jamcrc::checksum bound="by execution: byte strings of every length 0..=200 (two content patterns) and 8 shader key names"
//@desc the shader-key hash is the reflected CRC-32 register with zero initial value and no final XOR of the bytes (through libz-rs-sys::crc32), for the empty string too; Jamcrc::checksum is its complement with initial value all-ones
#[test]
fn native_xivcrc32_vs_bitwise() {
    let mut cases = 0u64;
    for n in 0..=200usize { for pat in 0..2usize {
        let data: Vec<u8> = (0..n).map(|i| if pat == 0 { (i * 37 + n) as u8 } else { b'a' + (i % 26) as u8 }).collect();
        assert_eq!(XivCrc32::from(&data[..]).crc, spec_crc32_raw(0, &data), "shader-key hash of {n} bytes (pattern {pat})");
        assert_eq!(XivCrc32::from(&data[..]).len, n);
        assert_eq!(Jamcrc::new().checksum(&data), spec_crc32_raw(0xFFFF_FFFF, &data), "JAMCRC of {n} bytes");
        cases += 1;
    } }
    for name in ["", "PASS_0", "DecodeDepthBuffer", "TransformViewSkin", "GetAmbientLight_SH", "g_SamplerNormal", "a", "日本語"] {
        assert_eq!(XivCrc32::from(name).crc, spec_crc32_raw(0, name.as_bytes()), "shader-key hash of {name:?}");
        cases += 1;
    }
    assert_eq!(XivCrc32::from("PASS_0").crc, 0xC5A5389C);
    println!("NATIVE native_xivcrc32_vs_bitwise cases={cases}");
}
