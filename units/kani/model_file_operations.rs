//@module src/model_file_operations.rs
use super::*;

fn stub_cpuid(_l: u32, _s: u32) -> std::arch::x86_64::CpuidResult {
    std::arch::x86_64::CpuidResult { eax: 0, ebx: 0, ecx: 0, edx: 0 }
}
fn stub_fmt(_a: core::fmt::Arguments<'_>) -> String { String::new() }

//@unit props=C06 label=P tier=quick fn=model_file_operations::MDL::read_byte_float4
//@desc each component is byte/255 (IEEE single division, correctly rounded) for all 256^4 inputs; 4 bytes consumed
#[kani::proof]
fn k_read_byte_float4() {
    let b: [u8; 4] = kani::any();
    let mut c = Cursor::new(&b[..]);
    match MDL::read_byte_float4(&mut c) {
        Some(v) => {
            let mut i = 0;
            while i < 4 { assert!(v[i].to_bits() == (b[i] as f32 / 255.0f32).to_bits(), "component = byte / 255"); i += 1; }
            assert!(v[0] >= 0.0 && v[0] <= 1.0, "in [0,1]");
            assert!(c.position() == 4, "4 bytes consumed");
        }
        None => assert!(false, "4 bytes always decode"),
    }
    kani::cover!(true, "reachable");
}

//@unit props=C07 label=P tier=quick fn=model_file_operations::MDL::{read_byte_float4,write_byte_float4}
//@desc write_byte_float4(read_byte_float4(b)) == b for all 256^4 inputs (every encoding is canonical)
#[kani::proof]
fn k_byte_float4_roundtrip() {
    let b: [u8; 4] = kani::any();
    let mut c = Cursor::new(&b[..]);
    let v = MDL::read_byte_float4(&mut c).unwrap();
    let mut out = [0u8; 4];
    let mut w = Cursor::new(&mut out[..]);
    match MDL::write_byte_float4(&mut w, &v) { Ok(()) => {}, Err(e) => { core::mem::forget(e); assert!(false, "write succeeds"); } }
    assert!(out == b, "re-encoding reproduces the stored bytes");
    kani::cover!(true, "reachable");
}

//@unit props=C06 label=P tier=quick fn=model_file_operations::MDL::read_tangent
//@desc xyz = 2b/255 - 1 (bit-exact single arithmetic), within [-1,1]; w = 1 exactly for byte 255, -1 otherwise; 4 bytes consumed
#[kani::proof]
fn k_read_tangent() {
    let b: [u8; 4] = kani::any();
    let mut c = Cursor::new(&b[..]);
    match MDL::read_tangent(&mut c) {
        Some(v) => {
            let mut i = 0;
            while i < 3 {
                assert!(v[i].to_bits() == (b[i] as f32 * 2.0f32 / 255.0f32 - 1.0f32).to_bits(), "component = 2b/255 - 1");
                assert!(v[i] >= -1.0 && v[i] <= 1.0, "in [-1,1]");
                i += 1;
            }
            assert!(v[3] == if b[3] == 255 { 1.0 } else { -1.0 }, "w is the handedness sign");
            assert!(c.position() == 4, "4 bytes consumed");
        }
        None => assert!(false, "4 bytes always decode"),
    }
    kani::cover!(true, "reachable");
}

//@unit props=C07 label=P tier=quick fn=model_file_operations::MDL::{read_tangent,write_tangent}
//@desc write_tangent(read_tangent(b)) == b for every xyz byte and the canonical w encodings 0 and 255
#[kani::proof]
fn k_tangent_roundtrip() {
    let b: [u8; 4] = kani::any();
    kani::assume(b[3] == 0 || b[3] == 255);
    let mut c = Cursor::new(&b[..]);
    let v = MDL::read_tangent(&mut c).unwrap();
    let mut out = [0u8; 4];
    let mut w = Cursor::new(&mut out[..]);
    match MDL::write_tangent(&mut w, &v) { Ok(()) => {}, Err(e) => { core::mem::forget(e); assert!(false, "write succeeds"); } }
    assert!(out == b, "re-encoding reproduces the stored bytes");
    kani::cover!(true, "reachable");
}

//@unit props=C06 label=P tier=quick fn=model_file_operations::MDL::{read_half4,read_half2} stubs=__cpuid_count
//@desc component i = binary16 value of the little-endian half-word i (the conversion itself is proved IEEE-exact in k_half_to_f32_ieee); 8 / 4 bytes consumed
#[kani::proof]
#[kani::stub(std::arch::x86_64::__cpuid_count, stub_cpuid)]
fn k_read_half4_half2() {
    let b: [u8; 8] = kani::any();
    let mut c = Cursor::new(&b[..]);
    match MDL::read_half4(&mut c) {
        Some(v) => {
            let mut i = 0;
            while i < 4 {
                let h = u16::from_le_bytes([b[2 * i], b[2 * i + 1]]);
                let want = f16::from_bits(h).to_f32();
                assert!(v[i].to_bits() == want.to_bits() || (v[i].is_nan() && want.is_nan()), "component i from half-word i");
                i += 1;
            }
            assert!(c.position() == 8, "8 bytes consumed");
        }
        None => assert!(false, "8 bytes always decode"),
    }
    let mut c = Cursor::new(&b[..]);
    match MDL::read_half2(&mut c) {
        Some(v) => {
            let mut i = 0;
            while i < 2 {
                let h = u16::from_le_bytes([b[2 * i], b[2 * i + 1]]);
                let want = f16::from_bits(h).to_f32();
                assert!(v[i].to_bits() == want.to_bits() || (v[i].is_nan() && want.is_nan()), "component i from half-word i");
                i += 1;
            }
            assert!(c.position() == 4, "4 bytes consumed");
        }
        None => assert!(false, "4 bytes always decode"),
    }
    kani::cover!(true, "reachable");
}

//@unit props=C07 label=P tier=quick fn=model_file_operations::MDL::{read_half4,write_half4,read_half2,write_half2} stubs=__cpuid_count
//@desc write_half4(read_half4(h)) == h and write_half2(read_half2(h)) == h for every non-NaN half pattern per component (63488 patterns each)
#[kani::proof]
#[kani::stub(std::arch::x86_64::__cpuid_count, stub_cpuid)]
fn k_half4_roundtrip() {
    let b: [u8; 8] = kani::any();
    let mut i = 0;
    while i < 4 { let h = u16::from_le_bytes([b[2 * i], b[2 * i + 1]]); kani::assume((h & 0x7C00) != 0x7C00 || (h & 0x03FF) == 0); i += 1; }
    let mut c = Cursor::new(&b[..]);
    let v = MDL::read_half4(&mut c).unwrap();
    let mut out = [0u8; 8];
    let mut w = Cursor::new(&mut out[..]);
    match MDL::write_half4(&mut w, &v) { Ok(()) => {}, Err(e) => { core::mem::forget(e); assert!(false, "write succeeds"); } }
    assert!(out == b, "half4 re-encoding reproduces the stored bytes");
    let mut c = Cursor::new(&b[..]);
    let v2 = MDL::read_half2(&mut c).unwrap();
    let mut out2 = [0u8; 4];
    let mut w = Cursor::new(&mut out2[..]);
    match MDL::write_half2(&mut w, &v2) { Ok(()) => {}, Err(e) => { core::mem::forget(e); assert!(false, "write succeeds"); } }
    assert!(out2[0] == b[0] && out2[1] == b[1] && out2[2] == b[2] && out2[3] == b[3], "half2 re-encoding reproduces the stored bytes");
    kani::cover!(true, "reachable");
}

//@unit props=C06,C07 label=P tier=quick fn=model_file_operations::MDL::{read_byte4,write_byte4,read_unsigned_short4,read_single3,write_single3,read_single4,write_single4}
//@desc raw readers return the stored bytes / LE u16 / LE f32 bit patterns and consume 4/8/12/16 bytes; the writers reproduce the bytes bit-exactly
#[kani::proof]
#[kani::unwind(18)]
fn k_raw_attribute_codecs() {
    let b: [u8; 16] = kani::any();
    let mut c = Cursor::new(&b[..]);
    match MDL::read_byte4(&mut c) {
        Ok(v) => { assert!(v[0] == b[0] && v[1] == b[1] && v[2] == b[2] && v[3] == b[3], "byte4 raw"); assert!(c.position() == 4, "4 bytes");
            let mut o = [0u8; 4]; let mut w = Cursor::new(&mut o[..]);
            match MDL::write_byte4(&mut w, &v) { Ok(()) => {}, Err(e) => { core::mem::forget(e); assert!(false, "write"); } }
            assert!(o[0] == b[0] && o[1] == b[1] && o[2] == b[2] && o[3] == b[3], "byte4 round trip"); }
        Err(e) => { core::mem::forget(e); assert!(false, "byte4 decodes"); }
    }
    let mut c = Cursor::new(&b[..]);
    match MDL::read_unsigned_short4(&mut c) {
        Ok(v) => { let mut i = 0; while i < 4 { assert!(v[i] == u16::from_le_bytes([b[2 * i], b[2 * i + 1]]), "ushort4 LE"); i += 1; } assert!(c.position() == 8, "8 bytes"); }
        Err(e) => { core::mem::forget(e); assert!(false, "ushort4 decodes"); }
    }
    let mut c = Cursor::new(&b[..]);
    match MDL::read_single3(&mut c) {
        Ok(v) => { let mut i = 0; while i < 3 { assert!(v[i].to_bits() == u32::from_le_bytes([b[4 * i], b[4 * i + 1], b[4 * i + 2], b[4 * i + 3]]), "single3 LE bit pattern"); i += 1; } assert!(c.position() == 12, "12 bytes");
            let mut o = [0u8; 12]; let mut w = Cursor::new(&mut o[..]);
            match MDL::write_single3(&mut w, &v) { Ok(()) => {}, Err(e) => { core::mem::forget(e); assert!(false, "write"); } }
            let mut i = 0; while i < 12 { assert!(o[i] == b[i], "single3 round trip"); i += 1; } }
        Err(e) => { core::mem::forget(e); assert!(false, "single3 decodes"); }
    }
    let mut c = Cursor::new(&b[..]);
    match MDL::read_single4(&mut c) {
        Ok(v) => { let mut i = 0; while i < 4 { assert!(v[i].to_bits() == u32::from_le_bytes([b[4 * i], b[4 * i + 1], b[4 * i + 2], b[4 * i + 3]]), "single4 LE bit pattern"); i += 1; } assert!(c.position() == 16, "16 bytes");
            let mut o = [0u8; 16]; let mut w = Cursor::new(&mut o[..]);
            match MDL::write_single4(&mut w, &v) { Ok(()) => {}, Err(e) => { core::mem::forget(e); assert!(false, "write"); } }
            let mut i = 0; while i < 16 { assert!(o[i] == b[i], "single4 round trip"); i += 1; } }
        Err(e) => { core::mem::forget(e); assert!(false, "single4 decodes"); }
    }
    kani::cover!(true, "reachable");
}

//@unit props=C06 label=P tier=quick fn=model_file_operations::MDL::pad_slice
//@desc pad_slice::<N>: the first N components are copied, the rest are `fill` (N = 2, 3)
#[kani::proof]
fn k_pad_slice() {
    let a: [f32; 3] = kani::any();
    let fill: f32 = kani::any();
    let r = MDL::pad_slice(&a, fill);
    assert!(r[0].to_bits() == a[0].to_bits() && r[1].to_bits() == a[1].to_bits() && r[2].to_bits() == a[2].to_bits() && r[3].to_bits() == fill.to_bits(), "3 copied, 1 filled");
    let b: [f32; 2] = kani::any();
    let r = MDL::pad_slice(&b, fill);
    assert!(r[0].to_bits() == b[0].to_bits() && r[1].to_bits() == b[1].to_bits() && r[2].to_bits() == fill.to_bits() && r[3].to_bits() == fill.to_bits(), "2 copied, 2 filled");
    kani::cover!(true, "reachable");
}

//@unit props=C18 label=S tier=quick fn=model_file_operations::MDL::{read_byte_float4,read_tangent,read_half4,read_half2,read_byte4,read_single3,read_single4,read_unsigned_short4} bound="cursors holding 0..3 bytes (shorter than any attribute)" stubs=__cpuid_count
//@desc typed attribute readers on a short cursor return None / Err; they never panic
#[kani::proof]
#[kani::unwind(6)]
#[kani::stub(std::arch::x86_64::__cpuid_count, stub_cpuid)]
fn k_attribute_readers_short_nopanic() {
    let b: [u8; 3] = kani::any();
    let n: usize = kani::any();
    kani::assume(n <= 3);
    let s = &b[..n];
    assert!(MDL::read_byte_float4(&mut Cursor::new(s)).is_none(), "short: None");
    assert!(MDL::read_tangent(&mut Cursor::new(s)).is_none(), "short: None");
    assert!(MDL::read_half4(&mut Cursor::new(s)).is_none(), "short: None");
    assert!(MDL::read_half2(&mut Cursor::new(s)).is_none(), "short: None");
    match MDL::read_byte4(&mut Cursor::new(s)) { Ok(_) => assert!(false, "short: Err"), Err(e) => core::mem::forget(e) }
    match MDL::read_single3(&mut Cursor::new(s)) { Ok(_) => assert!(false, "short: Err"), Err(e) => core::mem::forget(e) }
    match MDL::read_single4(&mut Cursor::new(s)) { Ok(_) => assert!(false, "short: Err"), Err(e) => core::mem::forget(e) }
    match MDL::read_unsigned_short4(&mut Cursor::new(s)) { Ok(_) => assert!(false, "short: Err"), Err(e) => core::mem::forget(e) }
    kani::cover!(true, "reachable");
}
