//@module src/equipment.rs
use super::*;

//@unit props=C15 label=P tier=quick fn=equipment::{get_slot_from_id,get_slot_abbreviation,get_slot_from_abbreviation}
//@desc the ten slots have pairwise distinct three-letter abbreviations and abbreviation -> slot inverts slot -> abbreviation; slot ids 3,4,5,7..13 map to distinct slots, every other id to None
#[kani::proof]
#[kani::unwind(5)]
fn k_slot_tables() {
    let ids: [i32; 10] = [3, 4, 5, 7, 8, 9, 10, 11, 12, 13];
    let i: usize = kani::any();
    let j: usize = kani::any();
    kani::assume(i < 10 && j < 10);
    let si = get_slot_from_id(ids[i]).unwrap();
    let sj = get_slot_from_id(ids[j]).unwrap();
    let (ai, aj) = (get_slot_abbreviation(si.clone()), get_slot_abbreviation(sj.clone()));
    assert!(ai.len() == 3, "three-letter abbreviation");
    if i != j {
        assert!(si != sj, "distinct ids give distinct slots");
        assert!(ai.as_bytes() != aj.as_bytes(), "distinct slots have distinct abbreviations");
    }
    assert!(get_slot_from_abbreviation(ai) == Some(si), "abbreviation reads back to the slot");
    let other: i32 = kani::any();
    kani::assume(other < 3 || other == 6 || other > 13);
    assert!(get_slot_from_id(other).is_none(), "undefined slot id");
    kani::cover!(i != j, "reachable");
}

//@unit props=C15 label=P tier=thorough fn=equipment::deconstruct_equipment_path
//@desc for every file name of the built form cRRRReDDDD_sss.mdl (any 4 race-code digits, any 4 id digits, any of the ten slot abbreviations) the id and slot read back are the ones the name was built from
#[kani::proof]
#[kani::unwind(6)]
fn k_deconstruct_equipment_path() {
    let ids: [i32; 10] = [3, 4, 5, 7, 8, 9, 10, 11, 12, 13];
    let si: usize = kani::any();
    kani::assume(si < 10);
    let slot = get_slot_from_id(ids[si]).unwrap();
    let ab = get_slot_abbreviation(slot.clone()).as_bytes();
    let d: [u8; 4] = kani::any();
    let r: [u8; 4] = kani::any();
    kani::assume(d[0] < 10 && d[1] < 10 && d[2] < 10 && d[3] < 10 && r[0] < 10 && r[1] < 10 && r[2] < 10 && r[3] < 10);
    let name: [u8; 18] = [b'c', b'0' + r[0], b'0' + r[1], b'0' + r[2], b'0' + r[3], b'e', b'0' + d[0], b'0' + d[1], b'0' + d[2], b'0' + d[3], b'_', ab[0], ab[1], ab[2], b'.', b'm', b'd', b'l'];
    let s = unsafe { core::str::from_utf8_unchecked(&name) };
    let want = d[0] as i32 * 1000 + d[1] as i32 * 100 + d[2] as i32 * 10 + d[3] as i32;
    match deconstruct_equipment_path(s) {
        Some((id, sl)) => { assert!(id == want, "equipment id read back"); assert!(sl == slot, "slot read back"); }
        None => assert!(false, "a built equipment file name deconstructs"),
    }
    kani::cover!(true, "reachable");
}
