//@module src/equipment.rs
use super::*;

//@unit props=C15 label=P tier=quick fn=equipment::{get_slot_from_id,get_slot_abbreviation,get_slot_from_abbreviation}
//@desc the ten slots have pairwise distinct three-letter abbreviations and abbreviation -> slot inverts slot -> abbreviation; slot ids 3,4,5,7..13 map to distinct slots, every other id to None
#[kani::proof]
#[kani::unwind(5)]
fn k_slot_tables() {
    let ids: [i32; 10] = [3, 4, 5, 7, 8, 9, 10, 11, 12, 13];
    let i: usize = kani::any();
    let j: usize = kani::any();
    kani::assume(i < 10 && j < 10);
    let si = get_slot_from_id(ids[i]).unwrap();
    let sj = get_slot_from_id(ids[j]).unwrap();
    let (ai, aj) = (get_slot_abbreviation(si.clone()), get_slot_abbreviation(sj.clone()));
    assert!(ai.len() == 3, "three-letter abbreviation");
    if i != j {
        assert!(si != sj, "distinct ids give distinct slots");
        assert!(ai.as_bytes() != aj.as_bytes(), "distinct slots have distinct abbreviations");
    }
    assert!(get_slot_from_abbreviation(ai) == Some(si), "abbreviation reads back to the slot");
    let other: i32 = kani::any();
    kani::assume(other < 3 || other == 6 || other > 13);
    assert!(get_slot_from_id(other).is_none(), "undefined slot id");
    kani::cover!(i != j, "reachable");
}

//@unit props=C15 label=P tier=thorough fn=equipment::deconstruct_equipment_path
//@desc for every file name of the built form cRRRReDDDD_sss.mdl (any 4 race-code digits, any 4 id digits, any of the ten slot abbreviations) the id and slot read back are the ones the name was built from
#[kani::proof]
#[kani::unwind(6)]
fn k_deconstruct_equipment_path() {
    let ids: [i32; 10] = [3, 4, 5, 7, 8, 9, 10, 11, 12, 13];
    let si: usize = kani::any();
    kani::assume(si < 10);
    let slot = get_slot_from_id(ids[si]).unwrap();
    let ab = get_slot_abbreviation(slot.clone()).as_bytes();
    let d: [u8; 4] = kani::any();
    let r: [u8; 4] = kani::any();
    kani::assume(d[0] < 10 && d[1] < 10 && d[2] < 10 && d[3] < 10 && r[0] < 10 && r[1] < 10 && r[2] < 10 && r[3] < 10);
    let name: [u8; 18] = [b'c', b'0' + r[0], b'0' + r[1], b'0' + r[2], b'0' + r[3], b'e', b'0' + d[0], b'0' + d[1], b'0' + d[2], b'0' + d[3], b'_', ab[0], ab[1], ab[2], b'.', b'm', b'd', b'l'];
    let s = unsafe { core::str::from_utf8_unchecked(&name) };
    let want = d[0] as i32 * 1000 + d[1] as i32 * 100 + d[2] as i32 * 10 + d[3] as i32;
    match deconstruct_equipment_path(s) {
        Some((id, sl)) => { assert!(id == want, "equipment id read back"); assert!(sl == slot, "slot read back"); }
        None => assert!(false, "a built equipment file name deconstructs"),
    }
    kani::cover!(true, "reachable");
}

// ---------------- bounded stand-ins by native execution (format! is outside CBMC's budget) ----------------
fn all_body_types() -> Vec<(Race, Tribe, Gender)> {
    let mut v = Vec::new();
    for r in 1..=8u8 { for t in 1..=16u8 { for g in 0..=1u8 {
        let (race, tribe, gender) = (Race::try_from(r).unwrap(), Tribe::try_from(t).unwrap(), Gender::try_from(g).unwrap());
        if get_race_id(race, tribe, gender.clone()).is_some() { v.push((race, tribe, gender)); }
    } } }
    v
}

//@unit props=C15 label=B tier=quick native=1 fn=equipment::{build_equipment_path,deconstruct_equipment_path},race::build_skeleton_path bound="exhaustive by execution: every valid (race, tribe, gender) x 10 slots x equipment ids {0..999 step 1, 1000..9999 step 9}"
//@desc equipment and skeleton paths are defined for every valid body type, have the documented shape, differ whenever their inputs differ (as far as the race code distinguishes them), and the id and slot read back from the built file name are the ones it was built from
#[test]
fn native_equipment_paths() {
    let bodies = all_body_types();
    assert_eq!(bodies.len(), 32, "8 races x 2 own tribes x 2 genders");
    let slot_ids = [3, 4, 5, 7, 8, 9, 10, 11, 12, 13];
    let mut ids: Vec<i32> = (0..1000).collect();
    ids.extend((1000..10000).step_by(9));
    let mut cases = 0u64;
    let mut seen: std::collections::HashMap<String, (i32, i32, i32)> = std::collections::HashMap::new();
    let mut skel = std::collections::HashMap::new();
    for (race, tribe, gender) in bodies.iter() {
        let code = get_race_id(*race, *tribe, gender.clone()).unwrap();
        let sp = crate::race::build_skeleton_path(*race, *tribe, gender.clone());
        assert_eq!(sp, format!("chara/human/c{code:04}/skeleton/base/b0001/skl_c{code:04}b0001.sklb"));
        if let Some(prev) = skel.insert(sp, code) { assert_eq!(prev, code, "skeleton paths of different race codes differ"); }
        for sid in slot_ids.iter() {
            for id in ids.iter() {
                let slot = get_slot_from_id(*sid).unwrap();
                let p = build_equipment_path(*id, *race, *tribe, gender.clone(), slot.clone());
                let ab = get_slot_abbreviation(slot.clone());
                assert_eq!(p, format!("chara/equipment/e{id:04}/model/c{code:04}e{id:04}_{ab}.mdl"), "documented shape");
                if let Some(prev) = seen.insert(p.clone(), (code, *sid, *id)) { assert_eq!(prev, (code, *sid, *id), "paths built from different inputs differ: {p}"); }
                let file = p.rsplit('/').next().unwrap();
                assert_eq!(deconstruct_equipment_path(file), Some((*id, slot)), "id and slot read back from {file}");
                cases += 1;
            }
        }
    }
    println!("NATIVE native_equipment_paths cases={cases}");
}

//@unit props=C15 label=B tier=quick native=1 fn=equipment::build_character_path bound="exhaustive by execution: every valid body type x 5 categories x body versions 0..9999 step 7"
//@desc character paths are defined for all valid inputs and differ whenever (race code, category, version) differ
#[test]
fn native_character_paths() {
    let cats = [CharacterCategory::Body, CharacterCategory::Hair, CharacterCategory::Face, CharacterCategory::Tail, CharacterCategory::Ear];
    let mut seen: std::collections::HashMap<String, (i32, usize, i32)> = std::collections::HashMap::new();
    let mut cases = 0u64;
    for (race, tribe, gender) in all_body_types().iter() {
        let code = get_race_id(*race, *tribe, gender.clone()).unwrap();
        for (ci, c) in cats.iter().enumerate() {
            for ver in (0..10000).step_by(7) {
                let p = build_character_path(*c, ver, *race, *tribe, gender.clone());
                let (cp, pre, ab) = (get_character_category_path(*c), get_character_category_prefix(*c), get_character_category_abbreviation(*c));
                assert_eq!(p, format!("chara/human/c{code:04}/obj/{cp}/{pre}{ver:04}/model/c{code:04}{pre}{ver:04}_{ab}.mdl"), "documented shape");
                if let Some(prev) = seen.insert(p.clone(), (code, ci, ver)) { assert_eq!(prev, (code, ci, ver), "paths built from different inputs differ: {p}"); }
                cases += 1;
            }
        }
    }
    println!("NATIVE native_character_paths cases={cases}");
}
