//@module src/sha1.rs
use super::*;

static mut REC: [[u8; 64]; 3] = [[0; 64]; 3];
static mut NREC: usize = 0;
fn record_process(_s: &mut Sha1State, block: &[u8; 64]) {
    unsafe {
        if NREC < 3 { REC[NREC] = *block; }
        NREC += 1;
    }
}

//@unit props=C10,C12 label=P tier=quick fn=sha1::Sha1::digest stubs=process
//@desc for every buffered length 0..63 and every total length: the blocks handed to the compression function are message-tail | 0x80 | zeros | 64-bit big-endian bit length - one block if fewer than 56 bytes are buffered, two otherwise (FIPS 180-4 padding); the compression function is replaced by a recorder
#[kani::proof]
#[kani::stub(Sha1State::process, record_process)]
fn k_sha1_padding() {
    let blen: u32 = kani::any();
    kani::assume(blen < 64);
    let total: u64 = kani::any();
    kani::assume(total <= (u64::MAX / 8) - 64);
    let block: [u8; 64] = kani::any();
    let s = Sha1 { state: DEFAULT_STATE, blocks: Blocks { len: blen, block }, len: total };
    let _ = s.digest();
    let bits = (total + blen as u64) * 8;
    let n = unsafe { NREC };
    assert!(n == if blen < 56 { 1 } else { 2 }, "one padding block below 56 buffered bytes, else two");
    let i: usize = kani::any();
    kani::assume(i < 128);
    let got = unsafe { REC[i / 64][i % 64] };
    let lastblk = if blen < 56 { 0 } else { 1 };
    if i / 64 <= lastblk {
        let exp = if i < blen as usize { block[i] }
            else if i == blen as usize { 0x80 }
            else if i / 64 == lastblk && i % 64 >= 56 { (bits >> (8 * (63 - (i % 64)))) as u8 }
            else { 0 };
        assert!(got == exp, "padding byte i");
    }
    kani::cover!(true, "reachable");
}

//@unit props=C10,C12 label=P tier=quick fn=sha1::Digest::bytes
//@desc the 20 digest bytes are the five state words serialised big-endian, for every state
#[kani::proof]
fn k_sha1_digest_bytes() {
    let st: [u32; 5] = kani::any();
    let d = Digest { data: Sha1State { state: st } };
    let b = d.bytes();
    let i: usize = kani::any();
    kani::assume(i < 5);
    assert!(u32::from_be_bytes([b[4 * i], b[4 * i + 1], b[4 * i + 2], b[4 * i + 3]]) == st[i], "word i big-endian at byte 4i");
    kani::cover!(true, "reachable");
}

static mut FED: [[u8; 64]; 3] = [[0; 64]; 3];
static mut NFED: usize = 0;

//@unit props=C10,C12 label=B tier=quick fn=sha1::Blocks::input bound="2 bytes already buffered, input of exactly 130 bytes (all contents)"
//@desc the closure receives exactly the consecutive 64-byte blocks of (buffered | input) and the remainder stays buffered
#[kani::proof]
#[kani::unwind(70)]
fn k_sha1_blocks_input() {
    let pre: [u8; 2] = kani::any();
    let inp: [u8; 130] = kani::any();
    let mut blk = [0u8; 64];
    blk[0] = pre[0]; blk[1] = pre[1];
    let mut b = Blocks { len: 2, block: blk };
    unsafe { NFED = 0; }
    b.input(&inp, |x| unsafe { if NFED < 3 { FED[NFED] = *x; } NFED += 1; });
    assert!(unsafe { NFED } == 2, "132 bytes make two whole blocks");
    assert!(b.len == 4, "4 bytes stay buffered");
    let i: usize = kani::any();
    kani::assume(i < 132);
    let src = if i < 2 { pre[i] } else { inp[i - 2] };
    if i < 128 { assert!(unsafe { FED[i / 64][i % 64] } == src, "block bytes in stream order"); }
    else { assert!(b.block[i - 128] == src, "remainder buffered in order"); }
    kani::cover!(true, "reachable");
}
