//@module src/sha1.rs
use super::*;

static mut REC: [[u8; 64]; 3] = [[0; 64]; 3];
static mut NREC: usize = 0;
fn record_process(_s: &mut Sha1State, block: &[u8; 64]) {
    unsafe {
        if NREC < 3 { REC[NREC] = *block; }
        NREC += 1;
    }
}

//@unit props=C10,C12 label=P tier=quick fn=sha1::Sha1::digest stubs=process
//@desc for every buffered length 0..63 and every total length: the blocks handed to the compression function are message-tail | 0x80 | zeros | 64-bit big-endian bit length - one block if fewer than 56 bytes are buffered, two otherwise (FIPS 180-4 padding); the compression function is replaced by a recorder
#[kani::proof]
#[kani::stub(Sha1State::process, record_process)]
fn k_sha1_padding() {
    let blen: u32 = kani::any();
    kani::assume(blen < 64);
    let total: u64 = kani::any();
    kani::assume(total <= (u64::MAX / 8) - 64);
    let block: [u8; 64] = kani::any();
    let s = Sha1 { state: DEFAULT_STATE, blocks: Blocks { len: blen, block }, len: total };
    let _ = s.digest();
    let bits = (total + blen as u64) * 8;
    let n = unsafe { NREC };
    assert!(n == if blen < 56 { 1 } else { 2 }, "one padding block below 56 buffered bytes, else two");
    let i: usize = kani::any();
    kani::assume(i < 128);
    let got = unsafe { REC[i / 64][i % 64] };
    let lastblk = if blen < 56 { 0 } else { 1 };
    if i / 64 <= lastblk {
        let exp = if i < blen as usize { block[i] }
            else if i == blen as usize { 0x80 }
            else if i / 64 == lastblk && i % 64 >= 56 { (bits >> (8 * (63 - (i % 64)))) as u8 }
            else { 0 };
        assert!(got == exp, "padding byte i");
    }
    kani::cover!(true, "reachable");
}

//@unit props=C10,C12 label=P tier=quick fn=sha1::Digest::bytes
//@desc the 20 digest bytes are the five state words serialised big-endian, for every state
#[kani::proof]
fn k_sha1_digest_bytes() {
    let st: [u32; 5] = kani::any();
    let d = Digest { data: Sha1State { state: st } };
    let b = d.bytes();
    let i: usize = kani::any();
    kani::assume(i < 5);
    assert!(u32::from_be_bytes([b[4 * i], b[4 * i + 1], b[4 * i + 2], b[4 * i + 3]]) == st[i], "word i big-endian at byte 4i");
    kani::cover!(true, "reachable");
}

static mut FED: [[u8; 64]; 3] = [[0; 64]; 3];
static mut NFED: usize = 0;

//@unit props=C10,C12 label=B tier=quick fn=sha1::Blocks::input bound="2 bytes already buffered, input of exactly 130 bytes (all contents)"
//@desc the closure receives exactly the consecutive 64-byte blocks of (buffered | input) and the remainder stays buffered
#[kani::proof]
#[kani::unwind(70)]
fn k_sha1_blocks_input() {
    let pre: [u8; 2] = kani::any();
    let inp: [u8; 130] = kani::any();
    let mut blk = [0u8; 64];
    blk[0] = pre[0]; blk[1] = pre[1];
    let mut b = Blocks { len: 2, block: blk };
    unsafe { NFED = 0; }
    b.input(&inp, |x| unsafe { if NFED < 3 { FED[NFED] = *x; } NFED += 1; });
    assert!(unsafe { NFED } == 2, "132 bytes make two whole blocks");
    assert!(b.len == 4, "4 bytes stay buffered");
    let i: usize = kani::any();
    kani::assume(i < 132);
    let src = if i < 2 { pre[i] } else { inp[i - 2] };
    if i < 128 { assert!(unsafe { FED[i / 64][i % 64] } == src, "block bytes in stream order"); }
    else { assert!(b.block[i - 128] == src, "remainder buffered in order"); }
    kani::cover!(true, "reachable");
}

/// the same contract for any (buffered, input) shape: PRE bytes already buffered (PRE < 64), an input of exactly N bytes
fn blocks_input_shape<const PRE: usize, const N: usize>() {
    let pre: [u8; PRE] = kani::any();
    let inp: [u8; N] = kani::any();
    let mut blk = [0u8; 64];
    let mut k = 0; while k < PRE { blk[k] = pre[k]; k += 1; }
    let mut b = Blocks { len: PRE as u32, block: blk };
    unsafe { NFED = 0; }
    b.input(&inp, |x| unsafe { if NFED < 3 { FED[NFED] = *x; } NFED += 1; });
    let total = PRE + N;
    assert!(unsafe { NFED } == total / 64, "one closure call per whole 64-byte block of (buffered | input)");
    assert!(b.len as usize == total % 64, "the remainder stays buffered");
    if total > 0 {
        let i: usize = kani::any();
        kani::assume(i < total);
        let src = if i < PRE { pre[i] } else { inp[i - PRE] };
        if i < (total / 64) * 64 { assert!(unsafe { FED[i / 64][i % 64] } == src, "block bytes in stream order"); }
        else { assert!(b.block[i - (total / 64) * 64] == src, "remainder buffered in order"); }
    }
    kani::cover!(true, "reachable");
}
macro_rules! blocks_input_harness {
    ($name:ident, $pre:expr, $n:expr) => {
        #[kani::proof]
        #[kani::unwind(70)]
        fn $name() { blocks_input_shape::<$pre, $n>(); }
    };
}
//@unit name=k_sha1_blocks_input_0_0 props=C10,C12 label=S tier=quick fn=sha1::Blocks::input bound="nothing buffered, empty input"
//@desc block feeding contract (closure calls = whole blocks in stream order, remainder buffered) for this shape, all contents
blocks_input_harness!(k_sha1_blocks_input_0_0, 0, 0);
//@unit name=k_sha1_blocks_input_0_63 props=C10,C12 label=S tier=quick fn=sha1::Blocks::input bound="nothing buffered, 63-byte input"
//@desc as above: no block yet, 63 bytes buffered
blocks_input_harness!(k_sha1_blocks_input_0_63, 0, 63);
//@unit name=k_sha1_blocks_input_0_64 props=C10,C12 label=S tier=quick fn=sha1::Blocks::input bound="nothing buffered, 64-byte input"
//@desc as above: exactly one block, nothing buffered
blocks_input_harness!(k_sha1_blocks_input_0_64, 0, 64);
//@unit name=k_sha1_blocks_input_0_65 props=C10,C12 label=S tier=quick fn=sha1::Blocks::input bound="nothing buffered, 65-byte input"
//@desc as above: one block, one byte buffered (the tail, not the head, of the message)
blocks_input_harness!(k_sha1_blocks_input_0_65, 0, 65);
//@unit name=k_sha1_blocks_input_1_63 props=C10,C12 label=S tier=quick fn=sha1::Blocks::input bound="1 byte buffered, 63-byte input"
//@desc as above: the buffered byte and the input complete exactly one block
blocks_input_harness!(k_sha1_blocks_input_1_63, 1, 63);
//@unit name=k_sha1_blocks_input_63_1 props=C10,C12 label=S tier=quick fn=sha1::Blocks::input bound="63 bytes buffered, 1-byte input"
//@desc as above: one input byte completes the buffered block
blocks_input_harness!(k_sha1_blocks_input_63_1, 63, 1);
//@unit name=k_sha1_blocks_input_63_66 props=C10,C12 label=S tier=quick fn=sha1::Blocks::input bound="63 bytes buffered, 66-byte input"
//@desc as above: two blocks, one byte buffered
blocks_input_harness!(k_sha1_blocks_input_63_66, 63, 66);
//@unit name=k_sha1_blocks_input_10_20 props=C10,C12 label=S tier=quick fn=sha1::Blocks::input bound="10 bytes buffered, 20-byte input"
//@desc as above: no block completed, 30 bytes buffered
blocks_input_harness!(k_sha1_blocks_input_10_20, 10, 20);

//@unit name=k_sha1_blocks_input_0_127 props=C10,C12 label=S tier=thorough fn=sha1::Blocks::input bound="0 bytes buffered, 127-byte input"
//@desc as above: one block, 63 bytes buffered
blocks_input_harness!(k_sha1_blocks_input_0_127, 0, 127);
//@unit name=k_sha1_blocks_input_0_128 props=C10,C12 label=S tier=thorough fn=sha1::Blocks::input bound="0 bytes buffered, 128-byte input"
//@desc as above: exactly two blocks
blocks_input_harness!(k_sha1_blocks_input_0_128, 0, 128);
//@unit name=k_sha1_blocks_input_0_129 props=C10,C12 label=S tier=thorough fn=sha1::Blocks::input bound="0 bytes buffered, 129-byte input"
//@desc as above: two blocks, one byte buffered
blocks_input_harness!(k_sha1_blocks_input_0_129, 0, 129);
//@unit name=k_sha1_blocks_input_31_33 props=C10,C12 label=S tier=thorough fn=sha1::Blocks::input bound="31 bytes buffered, 33-byte input"
//@desc as above: 31 + 33 bytes complete exactly one block
blocks_input_harness!(k_sha1_blocks_input_31_33, 31, 33);
//@unit name=k_sha1_blocks_input_62_2 props=C10,C12 label=S tier=thorough fn=sha1::Blocks::input bound="62 bytes buffered, 2-byte input"
//@desc as above: 62 + 2 bytes complete exactly one block
blocks_input_harness!(k_sha1_blocks_input_62_2, 62, 2);
//@unit name=k_sha1_blocks_input_62_3 props=C10,C12 label=S tier=thorough fn=sha1::Blocks::input bound="62 bytes buffered, 3-byte input"
//@desc as above: one block, one byte buffered
blocks_input_harness!(k_sha1_blocks_input_62_3, 62, 3);
//@unit name=k_sha1_blocks_input_5_59 props=C10,C12 label=S tier=thorough fn=sha1::Blocks::input bound="5 bytes buffered, 59-byte input"
//@desc as above: 5 + 59 bytes complete exactly one block
blocks_input_harness!(k_sha1_blocks_input_5_59, 5, 59);

// ---------------- FIPS 180-4 SHA-1 compression function, textbook form (independent of the 4-lane code) ----------------
fn spec_f(t: usize, b: u32, c: u32, d: u32) -> u32 {
    if t < 20 { (b & c) | (!b & d) } else if t < 40 { b ^ c ^ d } else if t < 60 { (b & c) | (b & d) | (c & d) } else { b ^ c ^ d }
}
fn spec_k(t: usize) -> u32 { if t < 20 { 0x5A827999 } else if t < 40 { 0x6ED9EBA1 } else if t < 60 { 0x8F1BBCDC } else { 0xCA62C1D6 } }
/// rounds t0..t0+4 on (a,b,c,d,e) with schedule words w
fn spec_rounds4(s: [u32; 5], w: [u32; 4], t0: usize) -> [u32; 5] {
    let [mut a, mut b, mut c, mut d, mut e] = s;
    let mut i = 0;
    while i < 4 {
        let t = t0 + i;
        let tmp = a.rotate_left(5).wrapping_add(spec_f(t, b, c, d)).wrapping_add(e).wrapping_add(spec_k(t)).wrapping_add(w[i]);
        e = d; d = c; c = b.rotate_left(30); b = a; a = tmp;
        i += 1;
    }
    [a, b, c, d, e]
}
fn spec_compress(h: [u32; 5], block: &[u8; 64]) -> [u32; 5] {
    let mut w = [0u32; 80];
    let mut t = 0;
    while t < 16 { w[t] = u32::from_be_bytes([block[4 * t], block[4 * t + 1], block[4 * t + 2], block[4 * t + 3]]); t += 1; }
    while t < 80 { w[t] = (w[t - 3] ^ w[t - 8] ^ w[t - 14] ^ w[t - 16]).rotate_left(1); t += 1; }
    let mut s = h;
    let mut g = 0;
    while g < 20 { s = spec_rounds4(s, [w[4 * g], w[4 * g + 1], w[4 * g + 2], w[4 * g + 3]], 4 * g); g += 1; }
    [h[0].wrapping_add(s[0]), h[1].wrapping_add(s[1]), h[2].wrapping_add(s[2]), h[3].wrapping_add(s[3]), h[4].wrapping_add(s[4])]
}

//@unit props=C10,C12 label=P tier=quick fn=sha1::{sha1rnds4c,sha1rnds4p,sha1rnds4m,sha1_digest_round_x4,sha1_first_half}
//@desc one 4-round group of the 4-lane code equals four textbook SHA-1 rounds (Ch/Parity/Maj/Parity with K0..K3) on (a,b,c,d,e): with work = schedule words and the previous e folded into lane 0, the result is the new (a,b,c,d) and the new e is rol30 of the old a - for all states, words and all four phases
#[kani::proof]
fn k_sha1_round_group() {
    let s: [u32; 5] = kani::any();
    let w: [u32; 4] = kani::any();
    let phase: i8 = kani::any();
    kani::assume(phase >= 0 && phase <= 3);
    let abcd = u32x4(s[0], s[1], s[2], s[3]);
    // the caller folds e into lane 0 (sha1_first_add) and the round function adds K
    let work = sha1_first_add(s[4], u32x4(w[0], w[1], w[2], w[3]));
    let r = sha1_digest_round_x4(abcd, work, phase);
    let want = spec_rounds4(s, w, 20 * phase as usize);
    assert!(r.0 == want[0] && r.1 == want[1] && r.2 == want[2] && r.3 == want[3], "new a,b,c,d after four textbook rounds");
    assert!(sha1_first(abcd).rotate_left(30) == want[4], "new e is rol30 of the old a (what sha1_first_half feeds into the next group)");
    kani::cover!(true, "reachable");
}

//@unit props=C10,C12 label=P tier=quick fn=sha1::{sha1msg1,sha1msg2}
//@desc the message-schedule pair computes the next four schedule words: W[t] = rol1(W[t-3] ^ W[t-8] ^ W[t-14] ^ W[t-16]) for t = 16..19 given W[0..16], for all words
#[kani::proof]
fn k_sha1_schedule_group() {
    let w: [u32; 16] = kani::any();
    let v0 = u32x4(w[0], w[1], w[2], w[3]);
    let v1 = u32x4(w[4], w[5], w[6], w[7]);
    let v2 = u32x4(w[8], w[9], w[10], w[11]);
    let v3 = u32x4(w[12], w[13], w[14], w[15]);
    let r = sha1msg2(sha1msg1(v0, v1) ^ v2, v3);
    let w16 = (w[13] ^ w[8] ^ w[2] ^ w[0]).rotate_left(1);
    let w17 = (w[14] ^ w[9] ^ w[3] ^ w[1]).rotate_left(1);
    let w18 = (w[15] ^ w[10] ^ w[4] ^ w[2]).rotate_left(1);
    let w19 = (w16 ^ w[11] ^ w[5] ^ w[3]).rotate_left(1);
    assert!(r.0 == w16 && r.1 == w17 && r.2 == w18 && r.3 == w19, "next four schedule words");
    kani::cover!(true, "reachable");
}

//@unit props=C10,C12 label=P tier=parked fn=sha1::Sha1State::process
//@desc the compression function equals the FIPS 180-4 textbook compression (80 rounds, big-endian words, standard schedule) for every state and every 64-byte block
#[kani::proof]
#[kani::unwind(82)]
fn k_sha1_process_equals_fips() {
    let h: [u32; 5] = kani::any();
    let block: [u8; 64] = kani::any();
    let mut st = Sha1State { state: h };
    st.process(&block);
    let want = spec_compress(h, &block);
    assert!(st.state == want, "SHA-1 compression function");
    kani::cover!(true, "reachable");
}

//@unit props=C10,C12 label=P tier=parked fn=sha1::Sha1State::process
//@desc the compression function equals the FIPS 180-4 textbook compression (80 rounds, big-endian words, standard schedule) for every state and every 64-byte block
#[kani::proof]
#[kani::unwind(82)]
#[kani::solver(kissat)]
fn k_sha1_process_equals_fips_kissat() {
    let h: [u32; 5] = kani::any();
    let block: [u8; 64] = kani::any();
    let mut st = Sha1State { state: h };
    st.process(&block);
    let want = spec_compress(h, &block);
    assert!(st.state == want, "SHA-1 compression function");
    kani::cover!(true, "reachable");
}

//@unit props=C10,C12 label=P tier=parked fn=sha1::Sha1State::process
//@desc the compression function equals the FIPS 180-4 textbook compression (80 rounds, big-endian words, standard schedule) for every state and every 64-byte block
#[kani::proof]
#[kani::unwind(82)]
#[kani::solver(z3)]
fn k_sha1_process_equals_fips_z3() {
    let h: [u32; 5] = kani::any();
    let block: [u8; 64] = kani::any();
    let mut st = Sha1State { state: h };
    st.process(&block);
    let want = spec_compress(h, &block);
    assert!(st.state == want, "SHA-1 compression function");
    kani::cover!(true, "reachable");
}

/// SHA-1 straight from FIPS 180-4 (one block at a time, 80 scalar rounds), independent of the 4-lane code under contract
fn nsh_fips_sha1(data: &[u8]) -> [u8; 20] {
    let mut h: [u32; 5] = [0x67452301, 0xEFCDAB89, 0x98BADCFE, 0x10325476, 0xC3D2E1F0];
    let mut msg = data.to_vec();
    msg.push(0x80);
    while msg.len() % 64 != 56 { msg.push(0); }
    msg.extend_from_slice(&((data.len() as u64) * 8).to_be_bytes());
    for block in msg.chunks(64) {
        let mut w = [0u32; 80];
        for t in 0..16 { w[t] = u32::from_be_bytes([block[4 * t], block[4 * t + 1], block[4 * t + 2], block[4 * t + 3]]); }
        for t in 16..80 { w[t] = (w[t - 3] ^ w[t - 8] ^ w[t - 14] ^ w[t - 16]).rotate_left(1); }
        let (mut a, mut b, mut c, mut d, mut e) = (h[0], h[1], h[2], h[3], h[4]);
        for t in 0..80 {
            let (f, k) = match t / 20 { 0 => ((b & c) | (!b & d), 0x5A827999u32), 1 => (b ^ c ^ d, 0x6ED9EBA1), 2 => ((b & c) | (b & d) | (c & d), 0x8F1BBCDC), _ => (b ^ c ^ d, 0xCA62C1D6) };
            let tmp = a.rotate_left(5).wrapping_add(f).wrapping_add(e).wrapping_add(k).wrapping_add(w[t]);
            e = d; d = c; c = b.rotate_left(30); b = a; a = tmp;
        }
        h[0] = h[0].wrapping_add(a); h[1] = h[1].wrapping_add(b); h[2] = h[2].wrapping_add(c); h[3] = h[3].wrapping_add(d); h[4] = h[4].wrapping_add(e);
    }
    let mut out = [0u8; 20];
    for i in 0..5 { out[4 * i..4 * i + 4].copy_from_slice(&h[i].to_be_bytes()); }
    out
}

//@unit props=C10,C12 label=B tier=quick native=1 fn=sha1::Sha1::{from,update,digest},sha1::Sha1State::process bound="by execution: every message length 0..=300 and 18 lengths around 4 KiB, 64 KiB and 1 MiB (every padding boundary 55/56/63/64 mod 64), two content patterns, fed in one piece and in pieces of 1, 7, 63, 64 and 65 bytes; the three FIPS 180 test vectors"
//@desc the digest equals SHA-1 as FIPS 180-4 defines it (this is the bounded stand-in for the composition of the 20 four-round groups inside Sha1State::process, whose building blocks are proved by Kani) and does not depend on how the message is split across update calls
#[test]
fn native_sha1_vs_fips() {
    let mut cases = 0u64;
    let hex = |d: [u8; 20]| d.iter().map(|b| format!("{b:02x}")).collect::<String>();
    assert_eq!(hex(Sha1::from(b"abc").digest().bytes()), "a9993e364706816aba3e25717850c26c9cd0d89d");
    assert_eq!(hex(Sha1::from(b"").digest().bytes()), "da39a3ee5e6b4b0d3255bfef95601890afd80709");
    assert_eq!(hex(Sha1::from(b"abcdbcdecdefdefgefghfghighijhijkijkljklmklmnlmnomnopnopq").digest().bytes()), "84983e441c3bd26ebaae4aa1f95129e5e54670f1");
    assert_eq!(hex(nsh_fips_sha1(b"abc")), "a9993e364706816aba3e25717850c26c9cd0d89d", "the reference implementation itself");
    let mut lens: Vec<usize> = (0..=300).collect();
    for base in [4096usize, 65536, 1 << 20] { for d in [-9i64, -8, -1, 0, 1, 55] { lens.push((base as i64 + d) as usize); } }
    for (li, n) in lens.iter().enumerate() {
        for pat in 0..2u32 {
            let mut x = (li as u32).wrapping_mul(2654435761).wrapping_add(pat);
            let data: Vec<u8> = (0..*n).map(|i| { x = x.wrapping_mul(1664525).wrapping_add(1013904223); if pat == 0 { (x >> 24) as u8 } else { (i % 251) as u8 } }).collect();
            let want = nsh_fips_sha1(&data);
            assert!(Sha1::from(&data).digest().bytes() == want, "digest of a {n}-byte message (pattern {pat})");
            if *n <= 300 || pat == 0 {
                for piece in [1usize, 7, 63, 64, 65] {
                    if *n > 5000 && piece < 63 { continue; }
                    let mut s = Sha1::new();
                    for c in data.chunks(piece) { s.update(c); }
                    assert!(s.digest().bytes() == want, "digest of a {n}-byte message fed in pieces of {piece}");
                    cases += 1;
                }
            }
            cases += 1;
        }
    }
    println!("NATIVE native_sha1_vs_fips cases={cases}");
}
