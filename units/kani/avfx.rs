//@module src/avfx.rs
use super::*;

//@use_common

/// an effect file packed by hand: 8-byte header (tag, size of what follows), then blocks of tag (4) + payload size (4) + payload (flags are stored as 4-byte payloads whose first byte is the value)
fn nav_block(tag: &[u8; 4], payload: &[u8]) -> Vec<u8> { let mut b = tag.to_vec(); b.extend_from_slice(&(payload.len() as u32).to_le_bytes()); b.extend_from_slice(payload); while b.len() % 4 != 0 { b.push(0); } b }
fn nav_file(blocks: &[Vec<u8>]) -> Vec<u8> {
    let body: Vec<u8> = blocks.iter().flatten().cloned().collect();
    let mut f = b"XFVA".to_vec(); f.extend_from_slice(&((body.len() + 8) as u32).to_le_bytes()); f.extend_from_slice(&body); f
}
fn nav_sample() -> Vec<Vec<u8>> {
    vec![nav_block(b"reV\0", &0x20110913u32.to_le_bytes()), nav_block(b"PFDb", &[1, 0, 0, 0]), nav_block(b"GFb\0", &[0, 0, 0, 0]), nav_block(b"luCb", &[1, 0, 0, 0]),
         nav_block(b"xPBC", &1.5f32.to_le_bytes()), nav_block(b"yPBC", &(-2.0f32).to_le_bytes()), nav_block(b"zPBC", &0.25f32.to_le_bytes()),
         nav_block(b"sMBZ", &3.0f32.to_le_bytes()), nav_block(b"SGAb", &[1, 0, 0, 0])]
}

//@unit props=C18 label=B tier=quick native=1 fn=avfx::Avfx::from_existing bound="by execution: one hand-packed effect file (9 scalar blocks: version, flags, clip box, bias, AGS flag); the same file followed by each of the 16 block kinds the reader knows by tag but does not decode (counts nCcS..nCdM, dhcS, nLmT, timE, lctP, tcfE, dniB, xeT, ldoM) with payloads of 0, 4 and 40 bytes; blocks whose size field is smaller than what the reader consumes (0..3 for a 4-byte value); every truncation and 7 single-byte corruptions per byte of the sample"
//@desc a well-formed effect file yields its scalar fields (vacuity guard); block kinds the reader does not decode, size fields that disagree with the payload, truncations and byte damage yield None or a value, never a panic
#[test]
fn native_avfx_damaged_nopanic() {
    let v = nav_file(&nav_sample());
    let a = Avfx::from_existing(&v).expect("a well-formed effect file parses");
    assert_eq!((a.version, a.is_delay_fast_particle, a.is_fit_ground, a.clip_box_enabled, a.clip_box, a.bias_z_max_scale, a.ags_enabled), (0x20110913, true, false, true, [1.5, -2.0, 0.25], 3.0, true), "the stored scalar fields");
    let f = |b: &[u8]| { let _ = Avfx::from_existing(b); };
    let mut s = NativeSites::new();
    for tag in [b"nCcS", b"nClT", b"nCmE", b"nCrP", b"nCfE", b"nCdB", b"nCxT", b"nCdM", b"dhcS", b"nLmT", b"timE", b"lctP", b"tcfE", b"dniB", b"xeT\0", b"ldoM"] {
        for n in [0usize, 4, 40] {
            let mut blocks = nav_sample(); blocks.push(nav_block(tag, &vec![7u8; n])); blocks.push(nav_block(b"STLb", &[1, 0, 0, 0]));
            s.run(&f, &nav_file(&blocks), &format!("a {:?} block with a {n}-byte payload", String::from_utf8_lossy(tag)));
        }
    }
    for claimed in 0u32..4 {
        let mut b = nav_block(b"reV\0", &7u32.to_le_bytes()); b[4..8].copy_from_slice(&claimed.to_le_bytes());
        s.run(&f, &nav_file(&[b, nav_block(b"PFDb", &[1, 0, 0, 0])]), &format!("a version block whose size field says {claimed}"));
    }
    s.sweep(&v, 1 << 20, 1, &f);
    s.finish("native_avfx_damaged_nopanic");
}
