//@module src/bcn/mod.rs
use super::*;
use super::color::{color, rgb565_le};
use super::bc3::decode_bc3_alpha;


// Spec: 5/6/5-bit channel expansion by bit replication (the conventional BC1 endpoint expansion)
fn spec_565(d: u16) -> (u8, u8, u8) {
    let r5 = ((d >> 11) & 31) as u8;
    let g6 = ((d >> 5) & 63) as u8;
    let b5 = (d & 31) as u8;
    ((r5 << 3) | (r5 >> 2), (g6 << 2) | (g6 >> 4), (b5 << 3) | (b5 >> 2))
}
// pixel word layout used by the decoders: bytes (little-endian) = B, G, R, A
fn rgba_of(p: u32) -> (u8, u8, u8, u8) { let v = p.to_le_bytes(); (v[2], v[1], v[0], v[3]) }

//@unit props=C13 label=P tier=quick fn=bcn::color::rgb565_le,bcn::color::color
//@desc rgb565_le expands the 5/6/5 fields (R high) to 8 bits by bit replication for every 16-bit word; color(r,g,b,a) packs B,G,R,A little-endian
#[kani::proof]
fn k_rgb565_color() {
    let d: u16 = kani::any();
    assert!(rgb565_le(d) == spec_565(d), "565 expansion by bit replication");
    let (r, g, b, a): (u8, u8, u8, u8) = (kani::any(), kani::any(), kani::any(), kani::any());
    assert!(rgba_of(color(r, g, b, a)) == (r, g, b, a), "pixel word packs B,G,R,A little-endian");
    kani::cover!(true, "reachable");
}

fn near3(out: u8, num: u16) -> bool { let t = 3 * out as i32 - num as i32; t >= -2 && t <= 2 }
fn near2(out: u8, num: u16) -> bool { let t = 2 * out as i32 - num as i32; t >= -1 && t <= 1 }

/// BC1 specification for pixel `px` of a block (returns true iff `got` is an admissible value)
fn bc1_pixel_ok(data: &[u8], px: usize, got: u32) -> bool {
    let q0 = u16::from_le_bytes([data[0], data[1]]);
    let q1 = u16::from_le_bytes([data[2], data[3]]);
    let bits = u32::from_le_bytes([data[4], data[5], data[6], data[7]]);
    let sel = (bits >> (2 * px)) & 3;
    let (r0, g0, b0) = spec_565(q0);
    let (r1, g1, b1) = spec_565(q1);
    let (r, g, b, a) = rgba_of(got);
    let (r0w, g0w, b0w, r1w, g1w, b1w) = (r0 as u16, g0 as u16, b0 as u16, r1 as u16, g1 as u16, b1 as u16);
    if sel == 0 { return (r, g, b, a) == (r0, g0, b0, 255); }
    if sel == 1 { return (r, g, b, a) == (r1, g1, b1, 255); }
    if q0 > q1 {
        if sel == 2 { a == 255 && near3(r, 2 * r0w + r1w) && near3(g, 2 * g0w + g1w) && near3(b, 2 * b0w + b1w) }
        else { a == 255 && near3(r, r0w + 2 * r1w) && near3(g, g0w + 2 * g1w) && near3(b, b0w + 2 * b1w) }
    } else {
        if sel == 2 { a == 255 && near2(r, r0w + r1w) && near2(g, g0w + g1w) && near2(b, b0w + b1w) }
        else { (r, g, b) == (0, 0, 0) } // black; its alpha is not constrained by the property
    }
}

//@unit props=C13 label=P tier=quick fn=bcn::bc1::decode_bc1_block
//@desc all 2^64 blocks, any pixel: selector p = bits 2p..2p+1 of the LE word at byte 4; entries 0/1 = expanded endpoints; q0>q1: 2/3-1/3 blends (any rounding within 2/3 of exact); else 1/2 blend and black; alpha 255 (black entry's alpha free)
#[kani::proof]
#[kani::unwind(17)]
fn k_bc1_block() {
    let data: [u8; 8] = kani::any();
    let mut out: [u32; 16] = kani::any();
    decode_bc1_block(&data, &mut out);
    let px: usize = kani::any();
    kani::assume(px < 16);
    assert!(bc1_pixel_ok(&data, px, out[px]), "BC1 pixel equals the value the format assigns");
    kani::cover!(true, "reachable");
}

/// BC3/BC4 alpha specification: palette entry selected for pixel px
fn bc3_alpha_spec(data: &[u8], px: usize) -> u16 {
    let bits = u64::from_le_bytes([data[0], data[1], data[2], data[3], data[4], data[5], data[6], data[7]]) >> 16;
    let sel = ((bits >> (3 * px)) & 7) as u16;
    let (a0, a1) = (data[0] as u16, data[1] as u16);
    if sel == 0 { a0 } else if sel == 1 { a1 }
    else if a0 > a1 { ((8 - sel) * a0 + (sel - 1) * a1) / 7 }
    else if sel < 6 { ((6 - sel) * a0 + (sel - 1) * a1) / 5 }
    else if sel == 6 { 0 } else { 255 }
}

//@unit props=C13 label=P tier=quick fn=bcn::bc3::decode_bc3_alpha
//@desc all 2^64 blocks x any pixel x lane 1..3: 8-entry palette (a0>a1: six /7 interpolants; else four /5, then 0 and 255), 3-bit selectors from the 48-bit LE field, written into the given byte lane, other lanes untouched (frame)
#[kani::proof]
#[kani::unwind(17)]
fn k_bc3_alpha() {
    let data: [u8; 8] = kani::any();
    let init: [u32; 16] = kani::any();
    let mut out = init;
    let ch: usize = kani::any();
    kani::assume(ch >= 1 && ch <= 3);
    decode_bc3_alpha(&data, &mut out, ch);
    let px: usize = kani::any();
    kani::assume(px < 16);
    let got = out[px].to_le_bytes();
    let old = init[px].to_le_bytes();
    assert!(got[ch] as u16 == bc3_alpha_spec(&data, px), "interpolated alpha palette entry in the requested lane");
    let mut k = 0;
    while k < 4 { if k != ch { assert!(got[k] == old[k], "other byte lanes untouched"); } k += 1; }
    kani::cover!(true, "reachable");
}

//@unit props=C13 label=P tier=quick fn=bcn::bc3::decode_bc3_block
//@desc BC3 = BC1 colour from bytes 8..16 with the interpolated alpha of bytes 0..8 in the alpha lane, all 2^128 blocks
#[kani::proof]
#[kani::unwind(17)]
fn k_bc3_block() {
    let data: [u8; 16] = kani::any();
    let mut out: [u32; 16] = kani::any();
    decode_bc3_block(&data, &mut out);
    let px: usize = kani::any();
    kani::assume(px < 16);
    let (r, g, b, a) = rgba_of(out[px]);
    // colour part: BC1 rule on bytes 8..16 with alpha forced to 255 for the comparison
    let colour_only = color(r, g, b, 255);
    assert!(bc1_pixel_ok(&data[8..16], px, colour_only), "BC3 colour is the BC1 colour of bytes 8..16");
    assert!(a as u16 == bc3_alpha_spec(&data[0..8], px), "BC3 alpha is the interpolated alpha of bytes 0..8");
    kani::cover!(true, "reachable");
}

//@unit props=C13 label=P tier=quick fn=bcn::bc5::decode_bc5_block
//@desc BC5: red lane from block bytes 0..8, green lane from bytes 8..16, blue and alpha lanes keep the decoder's initial buffer value (blue 0, alpha 255 in the driver)
#[kani::proof]
#[kani::unwind(17)]
fn k_bc5_block() {
    let data: [u8; 16] = kani::any();
    let mut out: [u32; 16] = [color(0, 0, 0, 255); 16];
    decode_bc5_block(&data, &mut out);
    let px: usize = kani::any();
    kani::assume(px < 16);
    let (r, g, b, a) = rgba_of(out[px]);
    assert!(r as u16 == bc3_alpha_spec(&data[0..8], px), "BC5 red from the first 8 bytes");
    assert!(g as u16 == bc3_alpha_spec(&data[8..16], px), "BC5 green from the second 8 bytes");
    assert!(b == 0 && a == 255, "BC5 blue 0 and opaque alpha");
    kani::cover!(true, "reachable");
}

fn image_contract<const W: usize, const H: usize, const NB: usize, const BS: usize, const WH: usize, const NBYTES: usize>(
    dec: fn(&[u8], usize, usize, &mut [u32]) -> Result<(), &'static str>, blk: fn(&[u8], &mut [u32])) {
    let data: [u8; NBYTES] = kani::any();
    let mut img = [0u32; WH];
    assert!(dec(&data, W, H, &mut img).is_ok(), "enough data: decode succeeds");
    let x: usize = kani::any(); let y: usize = kani::any();
    kani::assume(x < W && y < H);
    let nbx = (W + 3) / 4;
    let bi = (y / 4) * nbx + x / 4;
    let mut b = [color(0, 0, 0, 255); 16];
    blk(&data[bi * BS..bi * BS + BS], &mut b);
    assert!(img[y * W + x] == b[(y % 4) * 4 + (x % 4)], "pixel (x,y) = pixel (x mod 4, y mod 4) of block (x/4, y/4), blocks in row-major order");
    // short data is rejected, not read out of bounds
    let mut img2 = [0u32; WH];
    assert!(dec(&data[..NBYTES - 1], W, H, &mut img2).is_err(), "one byte short: Err");
    kani::cover!(true, "reachable");
}

//@unit props=C13,C18 label=B tier=quick fn=bcn::decode_bc1(macro block_decoder) bound="image 5x3 (2 blocks, right and bottom clipping), all contents"
//@desc image-level driver: block order, clipping, Err on short data
#[kani::proof]
#[kani::unwind(17)]
fn k_bc1_image_5x3() { image_contract::<5, 3, 2, 8, 15, 16>(decode_bc1, decode_bc1_block); }

//@unit props=C13,C18 label=B tier=quick fn=bcn::decode_bc1(macro block_decoder) bound="image 2x6 (2 blocks stacked vertically), all contents"
//@desc image-level driver, vertical block order
#[kani::proof]
#[kani::unwind(17)]
fn k_bc1_image_2x6() { image_contract::<2, 6, 2, 8, 12, 16>(decode_bc1, decode_bc1_block); }

//@unit props=C13,C18 label=B tier=thorough fn=bcn::decode_bc3(macro block_decoder) bound="image 6x5 (4 blocks), all contents"
//@desc image-level driver for BC3 (16-byte blocks), 2x2 blocks
#[kani::proof]
#[kani::unwind(17)]
fn k_bc3_image_6x5() { image_contract::<6, 5, 4, 16, 30, 64>(decode_bc3, decode_bc3_block); }

//@unit props=C13,C18 label=B tier=thorough fn=bcn::decode_bc5(macro block_decoder) bound="image 5x2 (2 blocks), all contents"
//@desc image-level driver for BC5
#[kani::proof]
#[kani::unwind(17)]
fn k_bc5_image_5x2() { image_contract::<5, 2, 2, 16, 10, 32>(decode_bc5, decode_bc5_block); }

//@unit props=C13 label=P tier=quick fn=bcn::bc1::decode_bc1_block,bcn::bc3::decode_bc3_block
//@desc discharges the block-decoder contracts assumed by the Verus unit bcn_image: the 16 output words are a function of the first 8 (BC1) / 16 (BC3) data bytes only - trailing data and the previous buffer contents do not matter; no panic for data of at least that length
#[kani::proof]
#[kani::unwind(17)]
fn k_bcn_block_frame_bc1_bc3() {
    let data: [u8; 20] = kani::any();
    let px: usize = kani::any();
    kani::assume(px < 16);
    let mut o1: [u32; 16] = kani::any();
    let mut o2: [u32; 16] = kani::any();
    decode_bc1_block(&data, &mut o1);
    decode_bc1_block(&data[..8], &mut o2);
    assert!(o1[px] == o2[px], "BC1 block: function of the first 8 bytes only");
    let mut o3: [u32; 16] = kani::any();
    let mut o4: [u32; 16] = kani::any();
    decode_bc3_block(&data, &mut o3);
    decode_bc3_block(&data[..16], &mut o4);
    assert!(o3[px] == o4[px], "BC3 block: function of the first 16 bytes only");
    kani::cover!(true, "reachable");
}

//@unit props=C13 label=P tier=quick fn=bcn::bc5::decode_bc5_block
//@desc discharges the BC5 contract assumed by the Verus unit bcn_image: new word = (old word & 0xFF0000FF) | f(first 16 data bytes) with f confined to the red/green lanes; trailing data does not matter
#[kani::proof]
#[kani::unwind(17)]
fn k_bcn_block_frame_bc5() {
    let data: [u8; 20] = kani::any();
    let px: usize = kani::any();
    kani::assume(px < 16);
    let old1: [u32; 16] = kani::any();
    let old2: [u32; 16] = kani::any();
    let (mut o1, mut o2) = (old1, old2);
    decode_bc5_block(&data, &mut o1);
    decode_bc5_block(&data[..16], &mut o2);
    assert!(o1[px] & 0xFF00_00FF == old1[px] & 0xFF00_00FF && o2[px] & 0xFF00_00FF == old2[px] & 0xFF00_00FF, "blue and alpha lanes keep the previous buffer value");
    assert!(o1[px] & 0x00FF_FF00 == o2[px] & 0x00FF_FF00, "red/green lanes: function of the first 16 bytes only");
    kani::cover!(true, "reachable");
}
