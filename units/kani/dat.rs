//@module src/dat.rs
use super::*;
use binrw::BinRead;
use std::io::Cursor;

fn stub_fmt(_a: core::fmt::Arguments<'_>) -> String { String::new() }

//@unit props=C09,C17 label=S tier=quick fn=dat::DatHeader(derive read) bound="17-byte header with the gear-set magic, every other byte symbolic" stubs=fmt::format
//@desc max_size and content_size are the little-endian words at 4 and 8; 4 reserved bytes and the end-of-header byte follow (17 bytes consumed)
#[kani::proof]
#[kani::unwind(6)]
#[kani::stub(alloc::fmt::format, stub_fmt)]
fn k_dat_header_read() {
    let mut b: [u8; 17] = kani::any();
    b[0] = 0x05; b[1] = 0x00; b[2] = 0x6d; b[3] = 0x00;
    let mut c = Cursor::new(&b[..]);
    match DatHeader::read(&mut c) {
        Ok(h) => {
            assert!(h.max_size == u32::from_le_bytes([b[4], b[5], b[6], b[7]]) && h.content_size == u32::from_le_bytes([b[8], b[9], b[10], b[11]]), "sizes little-endian at 4 and 8");
            assert!(c.position() == 17, "17-byte header");
        }
        Err(e) => { core::mem::forget(e); assert!(false, "header parses"); }
    }
    kani::cover!(true, "reachable");
}
