//@module src/gamedata.rs
use super::*;
use crate::repository::RepositoryType;

fn repo(name: &str, t: RepositoryType) -> Repository {
    Repository { name: name.to_string(), platform: Platform::Win32, repo_type: t, version: None }
}
// HashMap::new() asks the OS for random keys (unsupported in Kani); the map is never touched by the function under contract
fn rs_model() -> std::collections::hash_map::RandomState {
    unsafe { core::mem::transmute::<(u64, u64), std::collections::hash_map::RandomState>((0, 0)) }
}
fn mk_gamedata() -> GameData {
    GameData {
        game_directory: String::new(),
        repositories: vec![repo("ffxiv", RepositoryType::Base), repo("ex1", RepositoryType::Expansion { number: 1 }), repo("ex2", RepositoryType::Expansion { number: 2 })],
        index_files: HashMap::new(),
    }
}

fn prc_contract(bytes: &[u8], want: usize) {
    let gd = mk_gamedata();
    let path = unsafe { std::str::from_utf8_unchecked(bytes) };
    match gd.parse_repository_category(path) {
        Some((r, cat)) => {
            assert!(cat == Category::Background, "category from the first segment");
            assert!(core::ptr::eq(r, &gd.repositories[want]), "repository named by the second path segment, else the base repository");
        }
        None => assert!(false, "a path with a known category resolves"),
    }
    kani::cover!(true, "reachable");
    core::mem::forget(gd);
}
fn any_lower() -> u8 { let c: u8 = kani::any(); kani::assume(c >= b'a' && c <= b'z'); c }

//@unit props=C01 label=B tier=quick fn=gamedata::GameData::parse_repository_category bound="paths bg/ex1/<c> with a symbolic lower-case letter c; repositories ffxiv, ex1, ex2" stubs=RandomState::new
//@desc the category is the one named by the first path segment and the repository is the one whose name equals the second path segment
#[kani::proof]
#[kani::unwind(12)]
#[kani::stub(std::collections::hash_map::RandomState::new, rs_model)]
fn k_parse_repository_category_ex1() { prc_contract(&[b'b', b'g', b'/', b'e', b'x', b'1', b'/', any_lower()], 1); }

//@unit props=C01 label=B tier=quick fn=gamedata::GameData::parse_repository_category bound="paths bg/ex2/<c><d> with symbolic lower-case letters" stubs=RandomState::new
//@desc second expansion
#[kani::proof]
#[kani::unwind(12)]
#[kani::stub(std::collections::hash_map::RandomState::new, rs_model)]
fn k_parse_repository_category_ex2() { prc_contract(&[b'b', b'g', b'/', b'e', b'x', b'2', b'/', any_lower(), any_lower()], 2); }

//@unit props=C01 label=B tier=quick fn=gamedata::GameData::parse_repository_category bound="paths bg/ffxiv/<c> and bg/<c><d> with symbolic lower-case letters" stubs=RandomState::new
//@desc a path that names the base repository, or no repository at all, resolves to the base repository
#[kani::proof]
#[kani::unwind(12)]
#[kani::stub(std::collections::hash_map::RandomState::new, rs_model)]
fn k_parse_repository_category_base() {
    if kani::any() { prc_contract(&[b'b', b'g', b'/', b'f', b'f', b'x', b'i', b'v', b'/', any_lower()], 0); }
    else { prc_contract(&[b'b', b'g', b'/', any_lower(), any_lower()], 0); }
}

//@unit props=C01 label=B tier=thorough fn=gamedata::GameData::parse_repository_category bound="paths zz/<c> (unknown category) and a 3-letter path without '/'" stubs=RandomState::new
//@desc unknown categories and paths without a separator resolve to nothing
#[kani::proof]
#[kani::unwind(12)]
#[kani::stub(std::collections::hash_map::RandomState::new, rs_model)]
fn k_parse_repository_category_none() {
    let gd = mk_gamedata();
    let c = any_lower();
    let b1 = [b'z', b'z', b'/', c];
    let b2 = [b'b', b'g', c];
    assert!(gd.parse_repository_category(unsafe { std::str::from_utf8_unchecked(&b1) }).is_none(), "unknown category");
    assert!(gd.parse_repository_category(unsafe { std::str::from_utf8_unchecked(&b2) }).is_none(), "no separator");
    kani::cover!(true, "reachable");
    core::mem::forget(gd);
}
