//@module src/gamedata.rs
use super::*;
use crate::repository::RepositoryType;

fn repo(name: &str, t: RepositoryType) -> Repository {
    Repository { name: name.to_string(), platform: Platform::Win32, repo_type: t, version: None }
}
// HashMap::new() asks the OS for random keys (unsupported in Kani); the map is never touched by the function under contract
fn rs_model() -> std::collections::hash_map::RandomState {
    unsafe { core::mem::transmute::<(u64, u64), std::collections::hash_map::RandomState>((0, 0)) }
}
fn mk_gamedata() -> GameData {
    GameData {
        game_directory: String::new(),
        repositories: vec![repo("ffxiv", RepositoryType::Base), repo("ex1", RepositoryType::Expansion { number: 1 }), repo("ex2", RepositoryType::Expansion { number: 2 })],
        index_files: HashMap::new(),
    }
}

fn prc_contract(bytes: &[u8], want: usize) {
    let gd = mk_gamedata();
    let path = unsafe { std::str::from_utf8_unchecked(bytes) };
    match gd.parse_repository_category(path) {
        Some((r, cat)) => {
            assert!(cat == Category::Background, "category from the first segment");
            assert!(core::ptr::eq(r, &gd.repositories[want]), "repository named by the second path segment, else the base repository");
        }
        None => assert!(false, "a path with a known category resolves"),
    }
    kani::cover!(true, "reachable");
    core::mem::forget(gd);
}
fn any_lower() -> u8 { let c: u8 = kani::any(); kani::assume(c >= b'a' && c <= b'z'); c }

//@unit props=C01 label=B tier=quick fn=gamedata::GameData::parse_repository_category bound="paths bg/ex1/<c> with a symbolic lower-case letter c; repositories ffxiv, ex1, ex2" stubs=RandomState::new
//@desc the category is the one named by the first path segment and the repository is the one whose name equals the second path segment
#[kani::proof]
#[kani::unwind(12)]
#[kani::stub(std::collections::hash_map::RandomState::new, rs_model)]
fn k_parse_repository_category_ex1() { prc_contract(&[b'b', b'g', b'/', b'e', b'x', b'1', b'/', any_lower()], 1); }

//@unit props=C01 label=B tier=quick fn=gamedata::GameData::parse_repository_category bound="paths bg/ex2/<c><d> with symbolic lower-case letters" stubs=RandomState::new
//@desc second expansion
#[kani::proof]
#[kani::unwind(12)]
#[kani::stub(std::collections::hash_map::RandomState::new, rs_model)]
fn k_parse_repository_category_ex2() { prc_contract(&[b'b', b'g', b'/', b'e', b'x', b'2', b'/', any_lower(), any_lower()], 2); }

//@unit props=C01 label=B tier=quick fn=gamedata::GameData::parse_repository_category bound="paths bg/ffxiv/<c> with a symbolic lower-case letter" stubs=RandomState::new
//@desc a path that names the base repository resolves to the base repository
#[kani::proof]
#[kani::unwind(12)]
#[kani::stub(std::collections::hash_map::RandomState::new, rs_model)]
fn k_parse_repository_category_base() { prc_contract(&[b'b', b'g', b'/', b'f', b'f', b'x', b'i', b'v', b'/', any_lower()], 0); }

//@unit props=C01 label=B tier=thorough fn=gamedata::GameData::parse_repository_category bound="paths bg/<c>q with a symbolic lower-case letter" stubs=RandomState::new
//@desc a path that names no repository at all resolves to the base repository
#[kani::proof]
#[kani::unwind(12)]
#[kani::stub(std::collections::hash_map::RandomState::new, rs_model)]
fn k_parse_repository_category_norepo() { prc_contract(&[b'b', b'g', b'/', any_lower(), b'q'], 0); }

//@unit props=C01 label=B tier=thorough fn=gamedata::GameData::parse_repository_category bound="paths zz/<c> (unknown category) and a 3-letter path without '/'" stubs=RandomState::new
//@desc unknown categories and paths without a separator resolve to nothing
#[kani::proof]
#[kani::unwind(12)]
#[kani::stub(std::collections::hash_map::RandomState::new, rs_model)]
fn k_parse_repository_category_none() {
    let gd = mk_gamedata();
    let c = any_lower();
    let b1 = [b'z', b'z', b'/', c];
    let b2 = [b'b', b'g', c];
    assert!(gd.parse_repository_category(unsafe { std::str::from_utf8_unchecked(&b1) }).is_none(), "unknown category");
    assert!(gd.parse_repository_category(unsafe { std::str::from_utf8_unchecked(&b2) }).is_none(), "no separator");
    kani::cover!(true, "reachable");
    core::mem::forget(gd);
}

//@use_common

fn ngd_put(buf: &mut [u8], at: usize, v: u32) { buf[at..at + 4].copy_from_slice(&v.to_le_bytes()); }
fn ngd_jamcrc(bytes: &[u8]) -> u32 {
    // bit-serial JAMCRC, written independently of crc.rs
    let mut c: u32 = 0xFFFF_FFFF;
    for b in bytes { c ^= *b as u32; for _ in 0..8 { c = if c & 1 == 1 { (c >> 1) ^ 0xEDB8_8320 } else { c >> 1 }; } }
    c
}
/// a well-formed index (kind 0: 16-byte entries of file hash, folder hash, locator, 0) or index2 (kind 1: 8-byte entries of full-path hash, locator)
fn ngd_index(kind: u32, entries: &[(String, u8, u64)]) -> Vec<u8> {
    let esz = if kind == 0 { 16 } else { 8 };
    let mut buf = vec![0u8; 2048 + entries.len() * esz];
    buf[0..8].copy_from_slice(b"SqPack\0\0");
    ngd_put(&mut buf, 12, 1024); ngd_put(&mut buf, 16, 1); ngd_put(&mut buf, 20, 2); buf[32] = 0xFF; buf[33] = 0xFF;
    ngd_put(&mut buf, 1024, 1024); ngd_put(&mut buf, 1028, 1); ngd_put(&mut buf, 1032, 2048); ngd_put(&mut buf, 1036, (entries.len() * esz) as u32);
    ngd_put(&mut buf, 1320, kind);
    for (i, (path, dat, offset)) in entries.iter().enumerate() {
        let lower = path.to_ascii_lowercase();
        let loc = (((*offset / 128) as u32) << 4) | ((*dat as u32) << 1);
        let at = 2048 + i * esz;
        if kind == 0 {
            let (folder, file) = lower.rsplit_once('/').unwrap();
            ngd_put(&mut buf, at, ngd_jamcrc(file.as_bytes())); ngd_put(&mut buf, at + 4, ngd_jamcrc(folder.as_bytes())); ngd_put(&mut buf, at + 8, loc);
        } else {
            ngd_put(&mut buf, at, ngd_jamcrc(lower.as_bytes())); ngd_put(&mut buf, at + 4, loc);
        }
    }
    buf
}
fn ngd_mixed_case(p: &str, k: usize) -> String { p.chars().enumerate().map(|(i, c)| if (i + k) % 3 == 0 { c.to_ascii_uppercase() } else { c }).collect() }

//@unit props=C01 label=B tier=quick native=1 fn=gamedata::GameData::{from_existing,exists,find_offset,find_entry,get_index_filenames,parse_repository_category},sqpack::index::SqPackIndex::{from_existing,find_entry,exists,calculate_hash} bound="by execution on temporary installations: base + ex1 + ex2 + ex10 repositories (ex1 and ex10 share their index file names), 5 categories, chunks 0, 1 and 10, every combination of .index only / .index2 only / both with the same entries / both with disjoint halves of the entries, 1..9 entries per index spread over dat0..dat7 with offsets up to 0x7_FFFF_FF80; every stored path queried in lower and two mixed cases, 12 absent paths, three query orders on one handle"
//@desc a path exists and resolves exactly when an index of the repository and category it names (any chunk) holds its hash; the answer ignores letter case, is the data file and offset of the index entry (every entry of an index2 file included), and does not depend on earlier queries on the same handle
#[test]
fn native_gamedata_lookup() {
    let mut cases = 0u64;
    let offs: [u64; 9] = [0x80, 0x100, 0x0370_0B00, 0xFFFF_FF80, 0x1_0000_0000, 0x1_2345_6780, 0x7_FFFF_FF80, 0x2000, 0x4_0000_0080];
    // (category prefix, category id, repository token or "", repository dir, expansion number)
    // "ex10" sits next to "ex1": its directory name yields the same expansion digit, hence the SAME index file names in a different directory
    let places: [(&str, u32, &str, &str, u32); 7] = [("exd", 0x0a, "", "ffxiv", 0), ("chara", 0x04, "", "ffxiv", 0), ("bg", 0x02, "ffxiv", "ffxiv", 0), ("bg", 0x02, "ex1", "ex1", 1), ("music", 0x0c, "ex2", "ex2", 2), ("common", 0x00, "", "ffxiv", 0), ("bg", 0x02, "ex10", "ex10", 1)];
    for layout in 0..4usize { // 0: .index only, 1: .index2 only, 2: both with the same entries, 3: both, each holding a different half of the chunk's entries
        let root = std::env::temp_dir().join(format!("physis-verif-c01-{}-{layout}", std::process::id()));
        let _ = std::fs::remove_dir_all(&root);
        let game = root.join("game");
        for d in ["ffxiv", "ex1", "ex2", "ex10"] { std::fs::create_dir_all(game.join("sqpack").join(d)).unwrap(); }
        std::fs::write(game.join("ffxivgame.ver"), "2023.09.28.0000.0000").unwrap();
        std::fs::write(game.join("sqpack/ex1/ex1.ver"), "2023.09.28.0000.0000").unwrap();
        std::fs::write(game.join("sqpack/ex2/ex2.ver"), "2023.09.28.0000.0000").unwrap();
        std::fs::write(game.join("sqpack/ex10/ex10.ver"), "2023.09.28.0000.0000").unwrap();
        let mut stored: Vec<(String, u8, u64)> = vec![];
        for (pi, (cat, cid, token, dir, exp)) in places.iter().enumerate() {
            for (ci, chunk) in [0u32, 1, 10].iter().enumerate() {
                let n = 1 + (pi * 3 + ci * 2 + layout) % 9;
                let ents: Vec<(String, u8, u64)> = (0..n).map(|i| {
                    let mid = if token.is_empty() { format!("dir{chunk}") } else { format!("{token}/zone{chunk}") };
                    (format!("{cat}/{mid}/sub{}/file_{pi}_{ci}_{i}.dat", i % 3), ((i + pi + ci) % 8) as u8, offs[(i + pi * 2 + ci) % 9])
                }).collect();
                let name = format!("{cid:02x}{exp:02x}{chunk:02x}.win32");
                let (in1, in2): (Vec<(String, u8, u64)>, Vec<(String, u8, u64)>) = if layout == 3 { (ents.iter().step_by(2).cloned().collect(), ents.iter().skip(1).step_by(2).cloned().collect()) } else { (ents.clone(), ents.clone()) };
                if layout != 1 { std::fs::write(game.join("sqpack").join(dir).join(format!("{name}.index")), ngd_index(0, &in1)).unwrap(); }
                if layout != 0 { std::fs::write(game.join("sqpack").join(dir).join(format!("{name}.index2")), ngd_index(1, &in2)).unwrap(); }
                stored.extend(ents);
            }
        }
        let absent: Vec<String> = (0..12).map(|k| format!("{}/dir0/sub0/absent_{k}.dat", ["exd", "chara", "bg/ex1", "music/ex2"][k % 4])).collect();
        for order in 0..3usize {
            let mut gd = GameData::from_existing(Platform::Win32, game.to_str().unwrap()).expect("installation opens");
            assert_eq!(gd.repositories.len(), 4, "base + three expansion directories");
            let idx: Vec<usize> = match order { 0 => (0..stored.len()).collect(), 1 => (0..stored.len()).rev().collect(), _ => (0..stored.len()).map(|i| (i * 7) % stored.len()).collect() };
            if order == 2 { for a in absent.iter() { assert!(!gd.exists(a)); } }
            for i in idx {
                let (p, dat, off) = &stored[i];
                for variant in [p.clone(), ngd_mixed_case(p, 0), ngd_mixed_case(p, 1)] {
                    assert!(gd.exists(&variant), "{variant} is stored (layout {layout}, order {order})");
                    assert_eq!(gd.find_offset(&variant), Some(*off), "offset of {variant} (layout {layout}, order {order})");
                    let (e, _) = gd.find_entry(&variant).expect("entry");
                    assert_eq!((e.data_file_id, e.offset), (*dat, *off), "data file and offset of {variant} (layout {layout})");
                    cases += 1;
                }
            }
            for a in absent.iter() { assert!(!gd.exists(a) && gd.find_offset(a).is_none(), "{a} is not stored"); cases += 1; }
        }
        let _ = std::fs::remove_dir_all(&root);
    }
    println!("NATIVE native_gamedata_lookup cases={cases}");
}

//@unit props=C18 label=B tier=quick native=1 fn=gamedata::GameData::{from_existing,exists,find_offset,extract},repository::Repository::from_existing_expansion,sqpack::index::SqPackIndex::from_existing bound="by execution on temporary installations: stray directories and files under sqpack/ (names of 1, 2 and 3 bytes, non-ASCII, 'exx', a file called ex1), missing version files, missing sqpack directory, missing index and dat files; a 3-entry .index and .index2: every truncation and 7 single-byte corruptions per byte of the SqPack header start, the four segment descriptors' count/offset/size words, the index type and the entry table"
//@desc damaged installations (stray directories, missing files, truncated or corrupted index files, index entries pointing at missing dat files) make opening and every query return a failure or a value, never a panic
#[test]
fn native_gamedata_damaged_nopanic() {
    let root = std::env::temp_dir().join(format!("physis-verif-c18g-{}", std::process::id()));
    let _ = std::fs::remove_dir_all(&root);
    let game = root.join("game");
    std::fs::create_dir_all(game.join("sqpack/ffxiv")).unwrap();
    let ents: Vec<(String, u8, u64)> = vec![("exd/root.exl".to_string(), 0, 0x80), ("exd/dir/a.exh".to_string(), 1, 0x100), ("exd/dir/b.exd".to_string(), 7, 0x1_0000_0000)];
    let gs = game.to_str().unwrap().to_string();
    let mut s = NativeSites::new();
    // stray entries under sqpack/
    for stray in ["a", "ab", "abc", "exx", "é", "日本", "ex", "ex1x", ".hidden"] { std::fs::create_dir_all(game.join("sqpack").join(stray)).unwrap(); }
    std::fs::write(game.join("sqpack/ex3"), b"a file, not a directory").unwrap();
    std::fs::create_dir_all(game.join("sqpack/ex2")).unwrap(); // expansion without a version file
    let query = { let gs = gs.clone(); move |_: &[u8]| {
        if let Some(mut gd) = GameData::from_existing(Platform::Win32, &gs) {
            let _ = gd.exists("exd/root.exl"); let _ = gd.extract("exd/dir/a.exh"); let _ = gd.find_offset("EXD/DIR/B.EXD"); let _ = gd.exists("bg/ex9/zone/a.lgb");
        }
    } };
    let wide = { let gs = gs.clone(); move |_: &[u8]| {
        if let Some(mut gd) = GameData::from_existing(Platform::Win32, &gs) {
            for p in ["exd/root.exl", "exd/dir/a.exh", "EXD/DIR/B.EXD", "bg/ex2/zone/a.lgb", "bg/ex9/zone/a.lgb", "music/a.scd", "nocategory/x/y", "exd/", "/", "exd/dir/"] {
                let _ = gd.exists(p); let _ = gd.find_offset(p); let _ = gd.extract(p);
            }
        }
    } };
    s.run(&wide, b"", "stray directories, no index files at all, ten kinds of path");
    s.run(&query, b"", "stray directories, no index files at all");
    assert!(GameData::from_existing(Platform::Win32, root.join("nowhere").to_str().unwrap()).is_none(), "a missing game directory is an ordinary failure");
    for (kind, name) in [(0u32, "0a0000.win32.index"), (1u32, "0a0000.win32.index2")] {
        let v = ngd_index(kind, &ents);
        let target = game.join("sqpack/ffxiv").join(name);
        let (t2, q2) = (target.clone(), query.clone());
        let f = move |b: &[u8]| { std::fs::write(&t2, b).unwrap(); q2(b); };
        // the dat files the entries point at do not exist: extract must fail gracefully
        s.run(&f, &v, "well-formed index, missing dat files");
        let pick: Vec<usize> = (0..v.len()).filter(|i| *i < 40 || (1024..1048).contains(i) || (1100..1116).contains(i) || (1244..1264).contains(i) || (1316..1328).contains(i) || *i >= 2044).collect();
        for t in pick.iter() { s.run(&f, &v[..*t], &format!("{name} truncated to {t} bytes")); }
        let mut w = v.clone();
        for i in pick.iter() {
            let o = v[*i];
            for c in [0u8, 1, 0x7F, 0x80, 0xFF, o.wrapping_add(1), o.wrapping_sub(1)] { if c != o { w[*i] = c; s.run(&f, &w, &format!("{name} byte {i} changed from {o:#04x} to {c:#04x}")); } }
            w[*i] = o;
        }
        let _ = std::fs::remove_file(&target);
    }
    let _ = std::fs::remove_dir_all(&root);
    s.finish("native_gamedata_damaged_nopanic");
}

/// a standard dat entry whose content is stored in raw blocks of at most 16000 bytes (header padded to 128, each block padded to 128)
fn ngd_standard_entry(content: &[u8]) -> Vec<u8> {
    let mut payload = vec![]; let mut table = vec![];
    let chunks: Vec<&[u8]> = if content.is_empty() { vec![&content[0..0]] } else { content.chunks(16000).collect() };
    for c in chunks.iter() {
        table.extend_from_slice(&(payload.len() as i32).to_le_bytes());
        let mut b = vec![]; b.extend_from_slice(&16u32.to_le_bytes()); b.extend_from_slice(&0u32.to_le_bytes()); b.extend_from_slice(&32000i32.to_le_bytes()); b.extend_from_slice(&(c.len() as i32).to_le_bytes()); b.extend_from_slice(c);
        while b.len() % 128 != 0 { b.push(0); }
        table.extend_from_slice(&(b.len() as u16).to_le_bytes()); table.extend_from_slice(&(c.len() as u16).to_le_bytes());
        payload.extend_from_slice(&b);
    }
    let mut info = vec![];
    info.extend_from_slice(&0u32.to_le_bytes()); info.extend_from_slice(&2i32.to_le_bytes()); info.extend_from_slice(&(content.len() as u32).to_le_bytes()); info.extend_from_slice(&[0u8; 8]); info.extend_from_slice(&(chunks.len() as u32).to_le_bytes());
    info.extend_from_slice(&table);
    while info.len() % 128 != 0 { info.push(0); }
    let n = info.len() as u32; info[0..4].copy_from_slice(&n.to_le_bytes());
    info.extend_from_slice(&payload);
    info
}

//@unit props=C02,C01 label=B tier=quick native=1 fn=gamedata::GameData::{extract,get_dat_file},sqpack::data::SqPackData::read_from_offset bound="by execution on a temporary installation: base and ex1 repositories, 3 categories, chunks 0 and 1, 14 files of 0..40000 bytes stored as standard entries in dat0, dat1, dat3 and dat7 at 128-aligned offsets, found through .index and .index2; absent paths and an entry whose dat file is missing"
//@desc extracting a stored path yields exactly the bytes that were packed, from the data file and offset its index entry designates (file number, chunk, category and repository in the dat file name); absent paths and entries pointing at a missing dat file yield None
#[test]
fn native_gamedata_extract() {
    let mut cases = 0u64;
    let root = std::env::temp_dir().join(format!("physis-verif-c02g-{}", std::process::id()));
    let _ = std::fs::remove_dir_all(&root);
    let game = root.join("game");
    for d in ["ffxiv", "ex1"] { std::fs::create_dir_all(game.join("sqpack").join(d)).unwrap(); }
    std::fs::write(game.join("ffxivgame.ver"), "2023.09.28.0000.0000").unwrap();
    std::fs::write(game.join("sqpack/ex1/ex1.ver"), "2023.09.28.0000.0000").unwrap();
    // (directory, name stem, index kind, files: (path, dat id, content length))
    let lens = [0usize, 1, 127, 128, 5000, 16000, 16001, 40000];
    let groups: Vec<(&str, &str, u32, Vec<(String, u8)>)> = vec![
        ("ffxiv", "0a0000.win32", 0, vec![("exd/root.exl".into(), 0), ("exd/sheet/achievement.exh".into(), 1), ("exd/sheet/achievement_0_en.exd".into(), 3), ("exd/big.exd".into(), 7)]),
        ("ffxiv", "040001.win32", 1, vec![("chara/human/c0101/skeleton/base/b0001/skl_c0101b0001.sklb".into(), 0), ("chara/equipment/e0001/model/c0101e0001_top.mdl".into(), 1), ("chara/xls/charamake/human.cmp".into(), 0)]),
        ("ex1", "020100.win32", 0, vec![("bg/ex1/01_roc_r2/twn/r2t1/level/planmap.lgb".into(), 0), ("bg/ex1/01_roc_r2/common/texture/a.tex".into(), 3), ("bg/ex1/zone/b.tex".into(), 3)]),
        ("ex1", "020101.win32", 1, vec![("bg/ex1/02_dra_d2/fld/d2f1/bgplate/0000.mdl".into(), 1), ("bg/ex1/02_dra_d2/fld/d2f1/bgplate/terrain.tera".into(), 0), ("bg/ex1/02_dra_d2/fld/d2f1/level/bg.lgb".into(), 1), ("bg/ex1/x/y.z".into(), 7)]),
    ];
    let mut stored: Vec<(String, Vec<u8>)> = vec![];
    for (gi, (dir, stem, kind, files)) in groups.iter().enumerate() {
        let mut dats: std::collections::BTreeMap<u8, Vec<u8>> = std::collections::BTreeMap::new();
        let mut ents: Vec<(String, u8, u64)> = vec![];
        for (fi, (path, dat)) in files.iter().enumerate() {
            let n = lens[(gi * 3 + fi) % lens.len()];
            let mut x = (gi as u32 * 97 + fi as u32 * 13).wrapping_mul(2654435761);
            let content: Vec<u8> = (0..n).map(|_| { x = x.wrapping_mul(1664525).wrapping_add(1013904223); (x >> 24) as u8 }).collect();
            let f = dats.entry(*dat).or_insert_with(|| vec![0xEEu8; 0x800]);
            let off = f.len() as u64;
            f.extend_from_slice(&ngd_standard_entry(&content));
            f.extend_from_slice(&[0u8; 256]);
            ents.push((path.clone(), *dat, off));
            stored.push((path.clone(), content));
        }
        for (dat, bytes) in dats.iter() { std::fs::write(game.join("sqpack").join(dir).join(format!("{stem}.dat{dat}")), bytes).unwrap(); }
        std::fs::write(game.join("sqpack").join(dir).join(format!("{stem}.{}", if *kind == 0 { "index" } else { "index2" })), ngd_index(*kind, &ents)).unwrap();
    }
    // an entry whose dat file does not exist
    std::fs::write(game.join("sqpack/ffxiv/0c0000.win32.index"), ngd_index(0, &[("music/ffxiv/bgm_missing.scd".to_string(), 5, 0x80)])).unwrap();
    let mut gd = GameData::from_existing(Platform::Win32, game.to_str().unwrap()).expect("installation opens");
    for round in 0..2 { for (path, content) in stored.iter() {
        let q = if round == 0 { path.clone() } else { ngd_mixed_case(path, 1) };
        let got = gd.extract(&q).unwrap_or_else(|| panic!("{q} is stored and extractable"));
        assert!(got == *content, "{q}: extraction returns exactly the packed bytes ({} vs {} bytes)", got.len(), content.len());
        cases += 1;
    } }
    assert!(gd.extract("exd/not_stored.exd").is_none() && gd.extract("bg/ex1/not/stored.tex").is_none(), "absent paths yield nothing");
    assert!(gd.exists("music/ffxiv/bgm_missing.scd") && gd.extract("music/ffxiv/bgm_missing.scd").is_none(), "an entry pointing at a missing dat file yields nothing");
    cases += 3;
    let _ = std::fs::remove_dir_all(&root);
    println!("NATIVE native_gamedata_extract cases={cases}");
}
