//@module src/patchlist.rs
use super::*;

//@use_common

fn pl_entry(i: usize, nh: usize) -> PatchEntry {
    let sizes: [i64; 6] = [0, 1, 136864, 22221335, 44145529682, (1i64 << 62) / 8 + 12345];
    PatchEntry {
        url: format!("http://patch-dl.ffxiv.com/game/ex{}/4e9a232b/D2023.09.{:02}.0000.0000.patch", i % 5, i + 1),
        version: format!("2023.09.{:02}.0000.{:04}", i + 1, i),
        hash_block_size: if nh == 0 { 0 } else { 50000000 + i as i64 },
        length: sizes[i % 6],
        size_on_disk: sizes[(i + 3) % 6] + i as i64,
        hashes: (0..nh).map(|h| format!("{:040x}", (i as u128 + 1) * 0x1c66becde2a8cf26a99d0fc7c06f15f8u128 + h as u128)).collect(),
        unknown_a: 0,
        unknown_b: 0,
    }
}
fn pl_list(n: usize, game: bool, hk: usize) -> PatchList {
    PatchList { id: "477D80B1_38BC_41d4_8B48_5273ADB89CAC".to_string(), patch_length: 0, content_location: if hk == 3 { String::new() } else { "ffxivpatch/4e9a232b/metainfo/2023.07.26.0000.0000.http".to_string() },
                requested_version: String::new(), patches: (0..n).map(|i| pl_entry(i, if game { 1 + (i + hk) % 4 } else { 0 })).collect() }
}

//@unit props=C10 label=B tier=quick native=1 fn=patchlist::PatchList::{to_string,from_string} bound="by execution: boot and game lists of 0..8 entries, 1..4 hashes per game entry, sizes from {0, 1, 136864, 22221335, 44145529682, 2^59+12345} (totals below 2^63), with and without a content location, each list also parsed, rendered and parsed a second time"
//@desc a list rendered to its wire text and parsed again yields the same patches (length, size on disk, version, hash block size, hashes, URL) and a total patch length equal to the sum of the patch lengths
#[test]
fn native_patchlist_roundtrip() {
    let mut cases = 0u64;
    for game in [false, true] {
        for n in 0..=8usize {
            for hk in 0..4usize {
                let ty = || if game { PatchListType::Game } else { PatchListType::Boot };
                let list = pl_list(n, game, hk);
                let total: i64 = list.patches.iter().map(|p| p.length).sum();
                let text = list.to_string(ty());
                assert!(text.starts_with(&format!("--477D80B1_38BC_41d4_8B48_5273ADB89CAC\r\nContent-Type: application/octet-stream\r\nContent-Location: {}\r\nX-Patch-Length: ", list.content_location)), "multipart-style header: boundary, content type, content location (also when empty), patch length");
                assert!(text.contains(&format!("\r\nX-Patch-Length: {total}\r\n\r\n")), "X-Patch-Length carries the sum of the patch lengths");
                assert!(text.ends_with("--477D80B1_38BC_41d4_8B48_5273ADB89CAC--\r\n"), "closing boundary");
                let back = PatchList::from_string(ty(), &text);
                assert_eq!(back.patches.len(), n, "number of patches (game={game}, n={n})");
                assert_eq!(back.patch_length, total as u64, "total patch length read back (game={game}, n={n})");
                for (a, b) in list.patches.iter().zip(back.patches.iter()) {
                    assert_eq!((a.length, a.size_on_disk, &a.version, &a.url), (b.length, b.size_on_disk, &b.version, &b.url), "entry fields (game={game}, n={n})");
                    if game { assert_eq!((a.hash_block_size, &a.hashes), (b.hash_block_size, &b.hashes), "hash block size and hashes"); }
                }
                // a parsed list (which carries no id or content location) rendered and parsed again is the same list
                let again = PatchList::from_string(ty(), &back.to_string(ty()));
                assert_eq!((again.patches.len(), again.patch_length), (n, total as u64), "parse o render o parse keeps every patch and the total (game={game}, n={n})");
                for (a, b) in list.patches.iter().zip(again.patches.iter()) { assert_eq!((a.length, a.size_on_disk, &a.version, &a.url), (b.length, b.size_on_disk, &b.version, &b.url), "entry fields after the second round trip"); }
                cases += 1;
            }
        }
    }
    println!("NATIVE native_patchlist_roundtrip cases={cases}");
}

//@unit props=C17 label=B tier=quick native=1 fn=patchlist::PatchList::from_string bound="by execution: every truncation and 7 single-byte corruptions per byte (kept only when the result is still UTF-8) of a rendered 3-entry boot list and a rendered 3-entry game list, each parsed as boot and as game; plus the empty string and lists with missing lines"
//@desc damaged patch-list text (truncated anywhere, any single character damaged, wrong list kind, missing header or boundary lines) yields a best-effort value, never a panic
#[test]
fn native_patchlist_damaged_nopanic() {
    let mut cases = 0u64;
    let f = |b: &[u8]| {
        if let Ok(s) = std::str::from_utf8(b) {
            let _ = PatchList::from_string(PatchListType::Boot, s);
            let _ = PatchList::from_string(PatchListType::Game, s);
        }
    };
    for s in ["", "\r\n", "--x--\r\n", "a\r\nb\r\nc\r\nd\r\n\r\n1\t2\r\n--x--\r\n", "X-Patch-Length: \r\n", "X-Patch-Length: 12"] { native_try(&f, s.as_bytes(), "short text"); cases += 1; }
    cases += native_sweep(pl_list(3, false, 0).to_string(PatchListType::Boot).as_bytes(), 4096, 1, &f);
    cases += native_sweep(pl_list(3, true, 1).to_string(PatchListType::Game).as_bytes(), 4096, 1, &f);
    println!("NATIVE native_patchlist_damaged_nopanic cases={cases}");
}
