//@module src/gearsets.rs
use super::*;

fn stub_fmt(_a: core::fmt::Arguments<'_>) -> String { String::new() }

// ---- contracts placed on the real converters (Kani function contracts) ----
//@contract fn=convert_from_gear_id
//@| #[cfg_attr(kani, kani::ensures(|r: &u32| if id >= 1_000_000 { *r == id - 1_000_000 } else { *r == id }))]
//@contract fn=convert_to_gear_id
//@| #[cfg_attr(kani, kani::requires(*id <= u32::MAX - 1_000_000))]
//@| #[cfg_attr(kani, kani::ensures(|r: &u32| *r == *id + 1_000_000))]

//@unit props=C09,C17 label=P tier=quick fn=gearsets::convert_from_gear_id
//@desc contract on the real fn, all 2^32 stored values: the marker is removed from values that carry it, smaller values are kept, no overflow
#[kani::proof_for_contract(convert_from_gear_id)]
fn k_gear_id_strip_contract() { let x: u32 = kani::any(); let r = convert_from_gear_id(x); assert!(r <= x, "never larger than the stored value"); kani::cover!(true, "reachable"); }

//@unit props=C09 label=P tier=quick fn=gearsets::convert_to_gear_id
//@desc contract on the real fn: the stored value is the id plus the marker (ids up to u32::MAX - 1000000)
#[kani::proof_for_contract(convert_to_gear_id)]
fn k_gear_id_mark_contract() { let x: u32 = kani::any(); let r = convert_to_gear_id(&x); assert!(r >= 1_000_000, "marker carried"); kani::cover!(true, "reachable"); }

//@unit props=C09 label=P tier=quick fn=gearsets::{convert_from_gear_id,convert_to_gear_id,convert_id_opt,convert_opt_id}
//@desc strip(add(id)) == id for every item id below the marker 1000000 (so a written gear set reads back to the same item ids); stored values carry the marker additively; glamour/facewear 0 <-> None and every other value round-trips
#[kani::proof]
fn k_gear_id_roundtrip() {
    let id: u32 = kani::any();
    kani::assume(id < 1_000_000);
    let stored = convert_to_gear_id(&id);
    assert!(convert_from_gear_id(stored) == id, "item id survives write then read");
    assert!(stored == id + 1_000_000, "the marker is the decimal offset 1000000");
    let g: u32 = kani::any();
    let o = convert_id_opt(g);
    assert!(o.is_none() == (g == 0), "0 means no glamour / facewear");
    assert!(convert_opt_id(&o) == g, "optional id round-trips");
    kani::cover!(true, "reachable");
}

//@unit props=C09,C17 label=P tier=quick fn=gearsets::convert_from_gear_id
//@desc stripping the marker is total: for every stored 32-bit value it returns without overflow, removes exactly the marker from values that carry it (>= 1000000) and leaves smaller values unchanged
#[kani::proof]
fn k_gear_id_strip_total() {
    let stored: u32 = kani::any();
    let id = convert_from_gear_id(stored);
    if stored >= 1_000_000 { assert!(id == stored - 1_000_000, "marker removed"); } else { assert!(id == stored, "values without the marker are kept"); }
    kani::cover!(stored < 1_000_000 && stored != 0, "reachable");
}

//@unit props=C09 label=S tier=quick fn=gearsets::GearSlot(derive read+write) bound="one 28-byte slot record, all contents with a stored item id >= 1000000" stubs=fmt::format
//@desc item id = LE word 0 minus the marker, glamour id = LE word 1 (0 = none), five opaque words preserved; writing the parsed slot reproduces the 28 bytes
#[kani::proof]
#[kani::unwind(30)]
#[kani::stub(alloc::fmt::format, stub_fmt)]
fn k_gear_slot_record() {
    let b: [u8; 28] = kani::any();
    let w0 = u32::from_le_bytes([b[0], b[1], b[2], b[3]]);
    let w1 = u32::from_le_bytes([b[4], b[5], b[6], b[7]]);
    kani::assume(w0 >= 1_000_000);
    let mut c = Cursor::new(&b[..]);
    match GearSlot::read_le(&mut c) {
        Ok(s) => {
            assert!(s.id == w0 - 1_000_000, "item id is the stored word minus the marker");
            assert!(s.glamour_id == if w1 == 0 { None } else { Some(w1) }, "glamour id, 0 = none");
            assert!(c.position() == 28, "28 bytes");
            let mut o = [0u8; 28];
            let mut w = Cursor::new(&mut o[..]);
            match s.write_le(&mut w) { Ok(()) => {}, Err(e) => { core::mem::forget(e); assert!(false, "write"); } }
            let mut i = 0;
            while i < 28 { assert!(o[i] == b[i], "a parsed slot is written back byte for byte"); i += 1; }
        }
        Err(e) => { core::mem::forget(e); assert!(false, "slot parses"); }
    }
    kani::cover!(true, "reachable");
}

//@unit props=C09 label=P tier=quick fn=gearsets::TryFrom<usize>_for_GearSlotType
//@desc slot index i maps to the i-th of the 14 slot types (discriminant i); indices >= 14 are rejected
#[kani::proof]
fn k_gear_slot_type_index() {
    let i: usize = kani::any();
    match GearSlotType::try_from(i) {
        Ok(t) => assert!(t as usize == i && i < 14, "slot i is the i-th slot type"),
        Err(()) => assert!(i >= 14, "only indices >= 14 are rejected"),
    }
    kani::cover!(true, "reachable");
}

//@unit props=C15 label=P tier=quick fn=gearsets::GearSlotType::to_slot,gearsets::TryFrom<Slot>_for_GearSlotType
//@desc equipment slot <-> gear-slot type is a bijection on the ten equipment slots
#[kani::proof]
fn k_gear_slot_type_slot_bijection() {
    let i: usize = kani::any();
    kani::assume(i < 14);
    let t = GearSlotType::try_from(i).unwrap();
    if let Some(s) = t.to_slot() {
        let back = GearSlotType::try_from(s).unwrap();
        assert!(back as usize == i, "to_slot then try_from gives the same gear-slot type");
    } else {
        assert!(i == 0 || i == 1 || i == 5 || i == 13, "only weapons, waist and soul crystal have no equipment slot");
    }
    kani::cover!(true, "reachable");
}

//@unit props=C17 label=S tier=quick fn=gearsets::GearSets::from_existing bound="17-byte file: gear-set magic, stated content size 0, other header bytes symbolic, no content" stubs=fmt::format
//@desc a gear-set file that holds only its header (any stated content size, including 0) yields None; it never panics
#[kani::proof]
#[kani::unwind(6)]
#[kani::stub(alloc::fmt::format, stub_fmt)]
fn k_gearsets_header_only_nopanic() {
    let mut b: [u8; 17] = kani::any();
    b[0] = 0x05; b[1] = 0x00; b[2] = 0x6d; b[3] = 0x00;
    b[8] = 0; b[9] = 0; b[10] = 0; b[11] = 0; // stated content size 0
    if let Some(g) = GearSets::from_existing(&b) { core::mem::forget(g); }
    kani::cover!(true, "reachable");
}

fn rs_model() -> std::collections::hash_map::RandomState {
    unsafe { core::mem::transmute::<(u64, u64), std::collections::hash_map::RandomState>((0, 0)) }
}
fn named(i: u8) -> GearSet { GearSet { index: i, name: String::from("a"), unknown1: 0, slots: HashMap::new(), facewear: None } }

//@unit props=C09 label=B tier=parked fn=gearsets::convert_to_gearsets bound="table with an empty entry at position 0, a set at 1, an empty entry at 2 and a set at 3 (set indices symbolic)" stubs=RandomState::new
//@desc the written table is the fixed 100-slot table: set k is written at table position k (empty positions stay default), whatever gaps precede it
#[kani::proof]
#[kani::unwind(102)]
#[kani::stub(std::collections::hash_map::RandomState::new, rs_model)]
fn k_convert_to_gearsets_positions() {
    let (a, b): (u8, u8) = (kani::any(), kani::any());
    let v: Vec<Option<GearSet>> = vec![None, Some(named(a)), None, Some(named(b))];
    let out = convert_to_gearsets(&v);
    assert!(out.len() == 100, "fixed 100-slot table");
    assert!(out[0].name.is_empty() && out[2].name.is_empty(), "empty positions stay empty");
    assert!(out[1].index == a && !out[1].name.is_empty(), "set at position 1 is written at position 1");
    assert!(out[3].index == b && !out[3].name.is_empty(), "set at position 3 is written at position 3");
    assert!(out[4].name.is_empty() && out[99].name.is_empty(), "the rest of the table is empty");
    kani::cover!(true, "reachable");
    core::mem::forget(out); core::mem::forget(v);
}

//@unit props=C09 label=B tier=parked fn=gearsets::convert_from_gearsets bound="100-slot table with named sets at positions 1 and 3 only" stubs=RandomState::new
//@desc reading maps table position k to list position k: named sets become Some at their own position, unnamed ones None
#[kani::proof]
#[kani::unwind(102)]
#[kani::stub(std::collections::hash_map::RandomState::new, rs_model)]
fn k_convert_from_gearsets_positions() {
    let (a, b): (u8, u8) = (kani::any(), kani::any());
    let mut t: [GearSet; 100] = core::array::from_fn(|_| GearSet::default());
    t[1] = named(a);
    t[3] = named(b);
    let out = convert_from_gearsets(t);
    assert!(out.len() == 100, "one list entry per table slot");
    assert!(out[0].is_none() && out[2].is_none() && out[99].is_none(), "unnamed slots are empty");
    match (&out[1], &out[3]) { (Some(x), Some(y)) => assert!(x.index == a && y.index == b, "sets keep their positions"), _ => assert!(false, "named slots are present") }
    kani::cover!(true, "reachable");
    core::mem::forget(out);
}

//@use_common

//@unit props=C17 label=B tier=quick native=1 fn=gearsets::GearSets::from_existing bound="by execution: resources/tests/gearsets/simple.dat (45221 bytes): every truncation and 7 single-byte corruptions at each of the first 1200 positions, the last 64 and every 53rd position in between (thorough tier: every 5th)"
//@desc damaged gear-set files (truncated, any header or content byte damaged) yield None or a value, never a panic
#[test]
fn native_gearsets_damaged_nopanic() {
    let f = |b: &[u8]| { let _ = GearSets::from_existing(b); };
    let cases = native_sweep(&native_resource("gearsets/simple.dat"), 1200, if native_thorough() { 5 } else { 53 }, &f);
    println!("NATIVE native_gearsets_damaged_nopanic cases={cases}");
}

fn ngs_set(i: usize, tag: &str) -> GearSet {
    let mut slots = HashMap::new();
    slots.insert(GearSlotType::try_from(i % 14).unwrap(), GearSlot { id: 5269 + i as u32, glamour_id: if i % 2 == 0 { Some(77 + i as u32) } else { None }, unknown1: 0, unknown2: 0, unknown3: 0, unknown4: 0, unknown5: 0 });
    GearSet { index: i as u8, name: format!("{tag}{i}"), unknown1: 0, slots, facewear: if i % 3 == 0 { Some(9000 + i as u32) } else { None } }
}

//@unit props=C09 label=B tier=quick native=1 fn=gearsets::GearSets::{write_to_buffer,from_existing},gearsets::{convert_to_gearsets,convert_from_gearsets,convert_to_slots,convert_from_slots} bound="by execution: a canonical file with non-zero words after the glamour id of every occupied slot, reproduced byte for byte; 100-entry tables with one set at each position 0..99, with two sets at (p, (p+37) mod 100), and the full table"
//@desc a written gear-set file is the 17-byte header followed by 4 + 100 x 452 content bytes XORed with 0x73; the set at table position p is stored in record p (index byte, name at +1, slot s at +56+28s with the item id + 1000000) and every position, name, slot item, glamour and facewear reads back where it was put; empty positions read back empty
#[test]
fn native_gearsets_positions() {
    let mut cases = 0u64;
    let mut tables: Vec<Vec<Option<GearSet>>> = vec![];
    for p in 0..100usize {
        let mut t: Vec<Option<GearSet>> = vec![None; 100];
        t[p] = Some(ngs_set(p, "set"));
        tables.push(t.clone());
        t[(p + 37) % 100] = Some(ngs_set((p + 37) % 100, "other"));
        tables.push(t);
    }
    tables.push((0..100).map(|p| Some(ngs_set(p, "all"))).collect());
    for t in tables.iter() {
        let gs = GearSets { unknown1: 0, current_gearset: 3, unknown3: 0, gearsets: t.clone() };
        let buf = gs.write_to_buffer().expect("write");
        assert_eq!(buf.len(), 17 + 4 + 100 * 452, "file length");
        let dec: Vec<u8> = buf[17..].iter().map(|b| *b ^ 0x73).collect();
        assert_eq!(dec[1], 3, "current gear set");
        for p in 0..100usize {
            let r = &dec[4 + 452 * p..4 + 452 * (p + 1)];
            match &t[p] {
                Some(s) => {
                    assert_eq!(r[0], s.index, "index byte of record {p}");
                    assert_eq!(&r[1..1 + s.name.len()], s.name.as_bytes(), "name of record {p}");
                    assert_eq!(r[1 + s.name.len()], 0, "name terminator of record {p}");
                    for (ty, slot) in s.slots.iter() {
                        let o = 56 + 28 * (ty.clone() as usize);
                        assert_eq!(u32::from_le_bytes(r[o..o + 4].try_into().unwrap()), slot.id + 1_000_000, "item id of slot in record {p}");
                        assert_eq!(u32::from_le_bytes(r[o + 4..o + 8].try_into().unwrap()), slot.glamour_id.unwrap_or(0), "glamour id of slot in record {p}");
                    }
                    assert_eq!(u32::from_le_bytes(r[448..452].try_into().unwrap()), s.facewear.unwrap_or(0), "facewear of record {p}");
                }
                None => assert!(r[1] == 0, "record {p} of an empty position has an empty name"),
            }
        }
        let back = GearSets::from_existing(&buf).expect("a written file parses");
        assert_eq!(back.gearsets.len(), 100);
        assert_eq!(back.current_gearset, 3);
        for p in 0..100usize {
            match (&t[p], &back.gearsets[p]) {
                (None, None) => {}
                (Some(a), Some(b)) => {
                    assert_eq!((a.index, &a.name, a.facewear), (b.index, &b.name, b.facewear), "position {p}");
                    assert_eq!(a.slots.len(), b.slots.len(), "slot count at position {p}");
                    for (ty, sa) in a.slots.iter() {
                        let sb = b.slots.get(ty).expect("slot type read back");
                        assert_eq!((sa.id, sa.glamour_id), (sb.id, sb.glamour_id), "slot at position {p}");
                    }
                }
                _ => panic!("position {p}: occupied/empty state changed by the round trip"),
            }
        }
        cases += 1;
    }
    // a canonical file whose occupied slots carry non-zero values in the five words after the glamour id (dyes etc.) is reproduced byte for byte
    {
        let t: Vec<Option<GearSet>> = (0..100).map(|p| if p % 3 == 0 { Some(ngs_set(p, "dyed")) } else { None }).collect();
        let mut c = GearSets { unknown1: 0, current_gearset: 9, unknown3: 0, gearsets: t.clone() }.write_to_buffer().expect("write");
        for p in (0..100usize).filter(|p| p % 3 == 0) {
            if let Some(set) = &t[p] { for (ty, _) in set.slots.iter() {
                let o = 17 + 4 + 452 * p + 56 + 28 * (ty.clone() as usize);
                for w in 0..5usize { let v = (0x0101_0000u32 + (p as u32) * 64 + (ty.clone() as u32) * 5 + w as u32).to_le_bytes(); for k in 0..4 { c[o + 8 + 4 * w + k] = v[k] ^ 0x73; } }
            } }
        }
        let parsed = GearSets::from_existing(&c).expect("the canonical file parses");
        let again = parsed.write_to_buffer().expect("write");
        assert!(again == c, "a parsed canonical gear-set file is reproduced byte for byte (first difference at {:?})", again.iter().zip(c.iter()).position(|(a, b)| a != b));
        cases += 1;
    }
    println!("NATIVE native_gearsets_positions cases={cases}");
}
