//@module src/gearsets.rs
use super::*;

fn stub_fmt(_a: core::fmt::Arguments<'_>) -> String { String::new() }

//@unit props=C09 label=P tier=quick fn=gearsets::{convert_from_gear_id,convert_to_gear_id,convert_id_opt,convert_opt_id}
//@desc strip(add(id)) == id for every item id below the marker 1000000 (so a written gear set reads back to the same item ids); stored values carry the marker additively; glamour/facewear 0 <-> None and every other value round-trips
#[kani::proof]
fn k_gear_id_roundtrip() {
    let id: u32 = kani::any();
    kani::assume(id < 1_000_000);
    let stored = convert_to_gear_id(&id);
    assert!(convert_from_gear_id(stored) == id, "item id survives write then read");
    assert!(stored == id + 1_000_000, "the marker is the decimal offset 1000000");
    let g: u32 = kani::any();
    let o = convert_id_opt(g);
    assert!(o.is_none() == (g == 0), "0 means no glamour / facewear");
    assert!(convert_opt_id(&o) == g, "optional id round-trips");
    kani::cover!(true, "reachable");
}

//@unit props=C09 label=S tier=quick fn=gearsets::GearSlot(derive read+write) bound="one 28-byte slot record, all contents with a stored item id >= 1000000" stubs=fmt::format
//@desc item id = LE word 0 minus the marker, glamour id = LE word 1 (0 = none), five opaque words preserved; writing the parsed slot reproduces the 28 bytes
#[kani::proof]
#[kani::unwind(30)]
#[kani::stub(alloc::fmt::format, stub_fmt)]
fn k_gear_slot_record() {
    let b: [u8; 28] = kani::any();
    let w0 = u32::from_le_bytes([b[0], b[1], b[2], b[3]]);
    let w1 = u32::from_le_bytes([b[4], b[5], b[6], b[7]]);
    kani::assume(w0 >= 1_000_000);
    let mut c = Cursor::new(&b[..]);
    match GearSlot::read_le(&mut c) {
        Ok(s) => {
            assert!(s.id == w0 - 1_000_000, "item id is the stored word minus the marker");
            assert!(s.glamour_id == if w1 == 0 { None } else { Some(w1) }, "glamour id, 0 = none");
            assert!(c.position() == 28, "28 bytes");
            let mut o = [0u8; 28];
            let mut w = Cursor::new(&mut o[..]);
            match s.write_le(&mut w) { Ok(()) => {}, Err(e) => { core::mem::forget(e); assert!(false, "write"); } }
            let mut i = 0;
            while i < 28 { assert!(o[i] == b[i], "a parsed slot is written back byte for byte"); i += 1; }
        }
        Err(e) => { core::mem::forget(e); assert!(false, "slot parses"); }
    }
    kani::cover!(true, "reachable");
}

//@unit props=C09 label=P tier=quick fn=gearsets::TryFrom<usize>_for_GearSlotType
//@desc slot index i maps to the i-th of the 14 slot types (discriminant i); indices >= 14 are rejected
#[kani::proof]
fn k_gear_slot_type_index() {
    let i: usize = kani::any();
    match GearSlotType::try_from(i) {
        Ok(t) => assert!(t as usize == i && i < 14, "slot i is the i-th slot type"),
        Err(()) => assert!(i >= 14, "only indices >= 14 are rejected"),
    }
    kani::cover!(true, "reachable");
}

//@unit props=C15 label=P tier=quick fn=gearsets::GearSlotType::to_slot,gearsets::TryFrom<Slot>_for_GearSlotType
//@desc equipment slot <-> gear-slot type is a bijection on the ten equipment slots
#[kani::proof]
fn k_gear_slot_type_slot_bijection() {
    let i: usize = kani::any();
    kani::assume(i < 14);
    let t = GearSlotType::try_from(i).unwrap();
    if let Some(s) = t.to_slot() {
        let back = GearSlotType::try_from(s).unwrap();
        assert!(back as usize == i, "to_slot then try_from gives the same gear-slot type");
    } else {
        assert!(i == 0 || i == 1 || i == 5 || i == 13, "only weapons, waist and soul crystal have no equipment slot");
    }
    kani::cover!(true, "reachable");
}

//@unit props=C17 label=S tier=quick fn=gearsets::GearSets::from_existing bound="17-byte file: gear-set magic, stated content size 0, other header bytes symbolic, no content" stubs=fmt::format
//@desc a gear-set file that holds only its header (any stated content size, including 0) yields None; it never panics
#[kani::proof]
#[kani::unwind(6)]
#[kani::stub(alloc::fmt::format, stub_fmt)]
fn k_gearsets_header_only_nopanic() {
    let mut b: [u8; 17] = kani::any();
    b[0] = 0x05; b[1] = 0x00; b[2] = 0x6d; b[3] = 0x00;
    b[8] = 0; b[9] = 0; b[10] = 0; b[11] = 0; // stated content size 0
    if let Some(g) = GearSets::from_existing(&b) { core::mem::forget(g); }
    kani::cover!(true, "reachable");
}
