//@module src/tera.rs
use super::*;

fn stub_fmt(_a: core::fmt::Arguments<'_>) -> String { String::new() }

//@unit props=C16 label=P tier=quick fn=tera::PlatePosition(derive read+write) stubs=fmt::format
//@desc all 4-byte contents: x, y are the little-endian i16 at 0 and 2; writing the parsed position reproduces the bytes
#[kani::proof]
#[kani::unwind(6)]
#[kani::stub(alloc::fmt::format, stub_fmt)]
fn k_plate_position_record() {
    let b: [u8; 4] = kani::any();
    let mut c = Cursor::new(&b[..]);
    match PlatePosition::read(&mut c) {
        Ok(p) => {
            assert!(p.x == i16::from_le_bytes([b[0], b[1]]) && p.y == i16::from_le_bytes([b[2], b[3]]), "x, y little-endian");
            assert!(c.position() == 4, "4 bytes");
            let mut o = [0u8; 4];
            let mut w = Cursor::new(&mut o[..]);
            match p.write(&mut w) { Ok(()) => {}, Err(e) => { core::mem::forget(e); assert!(false, "write"); } }
            assert!(o == b, "written back byte for byte");
        }
        Err(e) => { core::mem::forget(e); assert!(false, "parses"); }
    }
    kani::cover!(true, "reachable");
}

//@unit props=C16 label=P tier=quick fn=tera::Terrain::{from_existing,write_to_buffer}(position arithmetic)
//@desc the arithmetic used by the reader (plate_size*(x+0.5)) and the writer (((p/128)-0.5) as i16) are inverse for every i16 grid coordinate at plate size 128, so a written terrain parses back to the same plate positions
#[kani::proof]
fn k_terrain_grid_roundtrip() {
    let x: i16 = kani::any();
    let plate_size: u32 = 128;
    let p = plate_size as f32 * (x as f32 + 0.5);
    let back = ((p / plate_size as f32) - 0.5) as i16;
    assert!(back == x, "write(read(x)) == x");
    kani::cover!(true, "reachable");
}
