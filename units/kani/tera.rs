//@module src/tera.rs
use super::*;

fn stub_fmt(_a: core::fmt::Arguments<'_>) -> String { String::new() }

//@unit props=C16 label=P tier=quick fn=tera::PlatePosition(derive read+write) stubs=fmt::format
//@desc all 4-byte contents: x, y are the little-endian i16 at 0 and 2; writing the parsed position reproduces the bytes
#[kani::proof]
#[kani::unwind(6)]
#[kani::stub(alloc::fmt::format, stub_fmt)]
fn k_plate_position_record() {
    let b: [u8; 4] = kani::any();
    let mut c = Cursor::new(&b[..]);
    match PlatePosition::read(&mut c) {
        Ok(p) => {
            assert!(p.x == i16::from_le_bytes([b[0], b[1]]) && p.y == i16::from_le_bytes([b[2], b[3]]), "x, y little-endian");
            assert!(c.position() == 4, "4 bytes");
            let mut o = [0u8; 4];
            let mut w = Cursor::new(&mut o[..]);
            match p.write(&mut w) { Ok(()) => {}, Err(e) => { core::mem::forget(e); assert!(false, "write"); } }
            assert!(o == b, "written back byte for byte");
        }
        Err(e) => { core::mem::forget(e); assert!(false, "parses"); }
    }
    kani::cover!(true, "reachable");
}

fn tera_file(x: i16, y: i16) -> [u8; 56] {
    let mut b = [0u8; 56];
    b[0..4].copy_from_slice(&0x1000003u32.to_le_bytes());
    b[4..8].copy_from_slice(&1u32.to_le_bytes());
    b[8..12].copy_from_slice(&128u32.to_le_bytes());
    b[16..20].copy_from_slice(&1.0f32.to_le_bytes());
    b[52..54].copy_from_slice(&x.to_le_bytes());
    b[54..56].copy_from_slice(&y.to_le_bytes());
    b
}

//@unit props=C16 label=S tier=parked fn=tera::Terrain::from_existing bound="one-plate terrain files of plate size 128, every i16 grid x (y fixed to -3)" stubs=fmt::format
//@desc the real reader places plate (x, y) at 128*(x+0.5), 128*(y+0.5)
#[kani::proof]
#[kani::unwind(60)]
#[kani::stub(alloc::fmt::format, stub_fmt)]
fn k_terrain_file_read() {
    let x: i16 = kani::any();
    let b = tera_file(x, -3);
    match Terrain::from_existing(&b) {
        Some(t) => {
            assert!(t.plates.len() == 1, "one plate");
            assert!(t.plates[0].position.0 == 128.0 * (x as f32 + 0.5) && t.plates[0].position.1 == -320.0, "plate centre = plate size x (grid coordinate + 1/2)");
            core::mem::forget(t);
        }
        None => assert!(false, "a well-formed terrain parses"),
    }
    kani::cover!(true, "reachable");
}

//@unit props=C16 label=S tier=quick fn=tera::Terrain::write_to_buffer bound="one-plate terrains whose plate centre is 128*(x+0.5) for every i16 grid x (y fixed to -3)" stubs=fmt::format
//@desc the real writer stores the plate whose centre is 128*(x+0.5) at grid coordinate x again (56-byte file: header, 32 bytes of padding, coordinates)
#[kani::proof]
#[kani::unwind(60)]
#[kani::stub(alloc::fmt::format, stub_fmt)]
fn k_terrain_file_write() {
    let x: i16 = kani::any();
    let t = Terrain { plates: vec![PlateModel { position: (128.0 * (x as f32 + 0.5), -320.0), filename: String::new() }] };
    let b = tera_file(x, -3);
    match t.write_to_buffer() {
        Some(o) => {
            assert!(o.len() == 56, "written length");
            assert!(o[52] == b[52] && o[53] == b[53] && o[54] == b[54] && o[55] == b[55], "grid coordinates survive the float round trip");
            assert!(o[0] == 3 && o[3] == 1 && o[4] == 1 && o[8] == 128, "version, plate count, plate size");
            core::mem::forget(o);
        }
        None => assert!(false, "write succeeds"),
    }
    core::mem::forget(t);
    kani::cover!(true, "reachable");
}

//@unit props=C16 label=B tier=quick native=1 fn=tera::Terrain::{from_existing,write_to_buffer} bound="exhaustive by execution: every i16 x with y = -x-1 and y = x rotated by 7 bits, one- and three-plate files; reader only: 10 plate sizes (1..65535, odd and even) x 5 grid positions in hand-packed files"
//@desc same contract as k_terrain_file_roundtrip, by execution of the real reader and writer
#[test]
fn native_terrain_roundtrip() {
    let mut cases = 0u64;
    for xi in i16::MIN..=i16::MAX {
        for y in [(-(xi as i32) - 1) as i16, xi.rotate_left(7)] {
            let b = tera_file(xi, y);
            let t = Terrain::from_existing(&b).expect("parses");
            assert_eq!(t.plates[0].position, (128.0 * (xi as f32 + 0.5), 128.0 * (y as f32 + 0.5)), "plate centre of ({xi},{y})");
            assert_eq!(t.plates[0].filename, "0000.mdl");
            let o = t.write_to_buffer().expect("writes");
            assert_eq!(&o[..], &b[..], "terrain with plate ({xi},{y}) written back byte for byte");
            cases += 1;
        }
    }
    // plate sizes other than the writer's 128 (hand-packed files): the plate centre is plate_size * (index + 0.5) - half a plate is a fraction for odd sizes
    for size in [1u32, 2, 25, 127, 128, 129, 255, 256, 1000, 65535] {
        for (x, y) in [(0i16, 0i16), (1, -1), (-3, 7), (100, -100), (i16::MAX, i16::MIN)] {
            let mut b = tera_file(x, y); b[8..12].copy_from_slice(&size.to_le_bytes());
            let t = Terrain::from_existing(&b).expect("parses");
            assert_eq!(t.plates[0].position, (size as f32 * (x as f32 + 0.5), size as f32 * (y as f32 + 0.5)), "plate centre of ({x},{y}) for plate size {size}");
            cases += 1;
        }
    }
    println!("NATIVE native_terrain_roundtrip cases={cases}");
}
