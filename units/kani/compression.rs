//@module src/compression.rs
use super::*;

// Models of the three zlib entry points (libz-rs-sys is trusted; its contract here: inflateInit2_ allocates a state
// that only inflateEnd releases).  They record how the wrapper drives them.
static mut INIT_RET: i32 = 0;
static mut INFLATE_RET: i32 = 0;
static mut LIVE_STATES: i32 = 0;
static mut SEEN_AVAIL_IN: u32 = 0;
static mut SEEN_AVAIL_OUT: u32 = 0;
static mut SEEN_WBITS: i32 = 0;
static mut IN_PTR_OK: bool = false;
static mut OUT_PTR_OK: bool = false;
static mut EXP_IN: usize = 0;
static mut EXP_OUT: usize = 0;

unsafe extern "C-unwind" fn model_init(_strm: z_streamp, window_bits: i32, _version: *const core::ffi::c_char, _size: i32) -> i32 {
    unsafe {
        SEEN_WBITS = window_bits;
        if INIT_RET == Z_OK { LIVE_STATES += 1; }
        INIT_RET
    }
}
unsafe extern "C-unwind" fn model_inflate(strm: *mut z_stream, _flush: i32) -> i32 {
    unsafe {
        SEEN_AVAIL_IN = (*strm).avail_in;
        SEEN_AVAIL_OUT = (*strm).avail_out;
        IN_PTR_OK = (*strm).next_in as usize == EXP_IN;
        OUT_PTR_OK = (*strm).next_out as usize == EXP_OUT;
        INFLATE_RET
    }
}
unsafe extern "C-unwind" fn model_end(_strm: *mut z_stream) -> i32 {
    unsafe { LIVE_STATES -= 1; }
    Z_OK
}

//@unit props=C02,C18 label=P tier=quick fn=compression::no_header_decompress stubs=inflateInit2_,inflate,inflateEnd
//@desc the wrapper asks for a raw (headerless, window -15) inflate of exactly the input buffer into exactly the output buffer, reports success iff inflate ends with Z_STREAM_END, and releases the inflate state on every path that created one (no leak on failed decompression); zlib itself is modelled
#[kani::proof]
#[kani::stub(libz_rs_sys::inflateInit2_, model_init)]
#[kani::stub(libz_rs_sys::inflate, model_inflate)]
#[kani::stub(libz_rs_sys::inflateEnd, model_end)]
fn k_decompress_lifecycle() {
    let mut inp = [0u8; 5];
    let mut out = [0u8; 7];
    unsafe {
        INIT_RET = kani::any();
        INFLATE_RET = kani::any();
        LIVE_STATES = 0;
        EXP_IN = inp.as_mut_ptr() as usize;
        EXP_OUT = out.as_mut_ptr() as usize;
    }
    let ok = no_header_decompress(&mut inp, &mut out);
    unsafe {
        if INIT_RET != Z_OK {
            assert!(!ok, "failed init reports failure");
        } else {
            assert!(SEEN_WBITS == -15, "raw deflate stream (no zlib header), 32K window");
            assert!(SEEN_AVAIL_IN == 5 && IN_PTR_OK, "inflate reads exactly the input buffer");
            assert!(SEEN_AVAIL_OUT == 7 && OUT_PTR_OK, "inflate writes into exactly the output buffer");
            assert!(ok == (INFLATE_RET == Z_STREAM_END), "success iff the stream ended");
        }
        assert!(LIVE_STATES == 0, "every inflate state that was created is released (no leak on failure)");
    }
    kani::cover!(true, "reachable");
}
