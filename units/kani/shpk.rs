//@module src/shpk.rs
use super::*;

fn stub_fmt(_a: core::fmt::Arguments<'_>) -> String { String::new() }
fn le32(b: &[u8], o: usize) -> u32 { u32::from_le_bytes([b[o], b[o + 1], b[o + 2], b[o + 3]]) }
fn le16(b: &[u8], o: usize) -> u16 { u16::from_le_bytes([b[o], b[o + 1]]) }

fn mk_node(selector: u32) -> Node {
    Node { selector, pass_count: 0, pass_indices: [0; 16], system_keys: Vec::new(), scene_keys: Vec::new(), material_keys: Vec::new(), subview_keys: Vec::new(), passes: Vec::new() }
}
fn mk_package(nodes: Vec<Node>, node_selectors: Vec<(u32, u32)>) -> ShaderPackage {
    ShaderPackage {
        version: 0, format: String::new(), file_length: 0, shader_data_offset: 0, strings_offset: 0, vertex_shader_count: 0, pixel_shader_count: 0,
        material_parameters_size: 0, material_parameter_count: 0, has_mat_param_defaults: 0, scalar_parameter_count: 0, sampler_count: 0, texture_count: 0, uav_count: 0,
        system_key_count: 0, scene_key_count: 0, material_key_count: 0, node_count: 0, node_alias_count: 0,
        vertex_shaders: Vec::new(), pixel_shaders: Vec::new(), material_parameters: Vec::new(), mat_param_defaults: Vec::new(),
        scalar_parameters: Vec::new(), sampler_parameters: Vec::new(), texture_parameters: Vec::new(), uav_parameters: Vec::new(),
        system_keys: Vec::new(), scene_keys: Vec::new(), material_keys: Vec::new(), sub_view_key1_default: 0, sub_view_key2_default: 0,
        nodes, node_selectors, node_aliases: Vec::new(),
    }
}

//@unit props=C14 label=B tier=quick fn=shpk::ShaderPackage::find_node bound="selector table of exactly 3 entries over 2 nodes; selectors and (in-range) node indices symbolic"
//@desc find_node returns the node at the index paired with the first table entry whose selector matches, None if no entry matches
#[kani::proof]
#[kani::unwind(5)]
fn k_find_node() {
    let ns: [u32; 2] = kani::any();
    let sel: [u32; 3] = kani::any();
    let idx: [u32; 3] = kani::any();
    kani::assume(idx[0] < 2 && idx[1] < 2 && idx[2] < 2);
    let p = mk_package(vec![mk_node(ns[0]), mk_node(ns[1])], vec![(sel[0], idx[0]), (sel[1], idx[1]), (sel[2], idx[2])]);
    let q: u32 = kani::any();
    let r = p.find_node(q);
    let first = if sel[0] == q { Some(idx[0]) } else if sel[1] == q { Some(idx[1]) } else if sel[2] == q { Some(idx[2]) } else { None };
    match (r, first) {
        (Some(n), Some(i)) => assert!(core::ptr::eq(n, &p.nodes[i as usize]), "node of the first matching table entry"),
        (None, None) => {}
        _ => assert!(false, "Some exactly when a table entry carries the selector"),
    }
    kani::cover!(first.is_some(), "reachable");
    core::mem::forget(p);
}

//@unit props=C18 label=B tier=quick fn=shpk::ShaderPackage::find_node bound="selector table of 2 entries with arbitrary (possibly out-of-range) node indices, 1 node"
//@desc an alias that points past the node list must not crash the lookup
#[kani::proof]
#[kani::unwind(4)]
fn k_find_node_bad_alias_nopanic() {
    let sel: [u32; 2] = kani::any();
    let idx: [u32; 2] = kani::any();
    let p = mk_package(vec![mk_node(kani::any())], vec![(sel[0], idx[0]), (sel[1], idx[1])]);
    let q: u32 = kani::any();
    let _ = p.find_node(q);
    kani::cover!(true, "reachable");
    core::mem::forget(p);
}

//@unit props=C14 label=B tier=quick fn=shpk::ShaderPackage::build_selector bound="exactly 3 keys (bounded counterexample finder paired with the unbounded Verus unit build_selector)"
//@desc selector = k0 + 31*k1 + 961*k2 mod 2^32
#[kani::proof]
#[kani::unwind(5)]
fn k_build_selector_3keys() {
    let k: [u32; 3] = kani::any();
    let want = k[0].wrapping_add(k[1].wrapping_mul(31)).wrapping_add(k[2].wrapping_mul(961));
    assert!(ShaderPackage::build_selector(&k) == want, "base-31 polynomial of the keys modulo 2^32");
    kani::cover!(true, "reachable");
}

//@unit props=C14 label=S tier=quick fn=shpk::{MaterialParameter,Key,Pass,NodeAlias}(derive) bound="fixed-size records 8/8/12/8 bytes, all contents" stubs=fmt::format
//@desc little-endian field placement and bytes consumed
#[kani::proof]
#[kani::unwind(4)]
#[kani::stub(alloc::fmt::format, stub_fmt)]
fn k_shpk_plain_records() {
    let b: [u8; 12] = kani::any();
    let mut c = Cursor::new(&b[..]);
    match MaterialParameter::read_le(&mut c) {
        Ok(h) => { assert!(h.id == le32(&b, 0) && h.byte_offset == le16(&b, 4) && h.byte_size == le16(&b, 6), "material parameter"); assert!(c.position() == 8, "8 bytes"); }
        Err(e) => { core::mem::forget(e); assert!(false, "parses"); }
    }
    let mut c = Cursor::new(&b[..]);
    match Key::read_le(&mut c) {
        Ok(h) => { assert!(h.id == le32(&b, 0) && h.default_value == le32(&b, 4), "key"); assert!(c.position() == 8, "8 bytes"); }
        Err(e) => { core::mem::forget(e); assert!(false, "parses"); }
    }
    let mut c = Cursor::new(&b[..]);
    match Pass::read_le(&mut c) {
        Ok(h) => { assert!(h.id == le32(&b, 0) && h.vertex_shader == le32(&b, 4) && h.pixel_shader == le32(&b, 8), "pass"); assert!(c.position() == 12, "12 bytes"); }
        Err(e) => { core::mem::forget(e); assert!(false, "parses"); }
    }
    let mut c = Cursor::new(&b[..]);
    match NodeAlias::read_le(&mut c) {
        Ok(h) => { assert!(h.selector == le32(&b, 0) && h.node == le32(&b, 4), "node alias"); assert!(c.position() == 8, "8 bytes"); }
        Err(e) => { core::mem::forget(e); assert!(false, "parses"); }
    }
    kani::cover!(true, "reachable");
}

//@unit props=C14,C18 label=S tier=quick fn=shpk::ResourceParameter(derive read) bound="16-byte record + name heap; strings offset 16, name length 0, every other header byte symbolic (incl. the 32-bit local name offset)" stubs=fmt::format
//@desc id, slot and size are the little-endian fields at 0, 12, 14; the name is looked up at strings_offset + local offset without arithmetic overflow for ANY 32-bit local offset (a damaged offset must not crash the parser); 16 bytes consumed, position restored after the name
#[kani::proof]
#[kani::unwind(6)]
#[kani::stub(alloc::fmt::format, stub_fmt)]
fn k_resource_parameter_record() {
    let mut b: [u8; 24] = kani::any();
    b[8] = 0; b[9] = 0; // name length 0
    let mut c = Cursor::new(&b[..]);
    match ResourceParameter::read_args(&mut c, ResourceParameterBinReadArgs { strings_offset: 16 }) {
        Ok(p) => {
            assert!(p.id == le32(&b, 0) && p.slot == le16(&b, 12) && p.size == le16(&b, 14), "id, slot, size");
            assert!(p.name.is_empty(), "empty name");
            assert!(c.position() == 16, "16-byte record; position restored after the name lookup");
            core::mem::forget(p);
        }
        Err(e) => { core::mem::forget(e); }
    }
    kani::cover!(true, "reachable");
}

//@unit props=C18 label=S tier=parked fn=shpk::ResourceParameter(derive read) bound="16-byte record + 2-byte name at strings offset 16 (local offset 0), name bytes symbolic" stubs=fmt::format
//@desc a parameter whose name bytes are not valid UTF-8 is rejected or read best-effort; the parser never panics
#[kani::proof]
#[kani::unwind(6)]
#[kani::stub(alloc::fmt::format, stub_fmt)]
fn k_resource_parameter_name_nopanic() {
    let mut b = [0u8; 18];
    b[8] = 2; // name length 2
    let n: [u8; 2] = kani::any();
    b[16] = n[0]; b[17] = n[1];
    let mut c = Cursor::new(&b[..]);
    match ResourceParameter::read_args(&mut c, ResourceParameterBinReadArgs { strings_offset: 16 }) {
        Ok(p) => { core::mem::forget(p); }
        Err(e) => { core::mem::forget(e); }
    }
    kani::cover!(true, "reachable");
}
