//@module src/shpk.rs
use super::*;

fn stub_fmt(_a: core::fmt::Arguments<'_>) -> String { String::new() }
fn le32(b: &[u8], o: usize) -> u32 { u32::from_le_bytes([b[o], b[o + 1], b[o + 2], b[o + 3]]) }
fn le16(b: &[u8], o: usize) -> u16 { u16::from_le_bytes([b[o], b[o + 1]]) }

fn mk_node(selector: u32) -> Node {
    Node { selector, pass_count: 0, pass_indices: [0; 16], system_keys: Vec::new(), scene_keys: Vec::new(), material_keys: Vec::new(), subview_keys: Vec::new(), passes: Vec::new() }
}
fn mk_package(nodes: Vec<Node>, node_selectors: Vec<(u32, u32)>) -> ShaderPackage {
    ShaderPackage {
        version: 0, format: String::new(), file_length: 0, shader_data_offset: 0, strings_offset: 0, vertex_shader_count: 0, pixel_shader_count: 0,
        material_parameters_size: 0, material_parameter_count: 0, has_mat_param_defaults: 0, scalar_parameter_count: 0, sampler_count: 0, texture_count: 0, uav_count: 0,
        system_key_count: 0, scene_key_count: 0, material_key_count: 0, node_count: 0, node_alias_count: 0,
        vertex_shaders: Vec::new(), pixel_shaders: Vec::new(), material_parameters: Vec::new(), mat_param_defaults: Vec::new(),
        scalar_parameters: Vec::new(), sampler_parameters: Vec::new(), texture_parameters: Vec::new(), uav_parameters: Vec::new(),
        system_keys: Vec::new(), scene_keys: Vec::new(), material_keys: Vec::new(), sub_view_key1_default: 0, sub_view_key2_default: 0,
        nodes, node_selectors, node_aliases: Vec::new(),
    }
}

//@unit props=C14 label=B tier=quick fn=shpk::ShaderPackage::find_node bound="selector table of exactly 3 entries over 2 nodes; selectors and (in-range) node indices symbolic"
//@desc find_node returns the node at the index paired with the first table entry whose selector matches, None if no entry matches
#[kani::proof]
#[kani::unwind(5)]
fn k_find_node() {
    let ns: [u32; 2] = kani::any();
    let sel: [u32; 3] = kani::any();
    let idx: [u32; 3] = kani::any();
    kani::assume(idx[0] < 2 && idx[1] < 2 && idx[2] < 2);
    let p = mk_package(vec![mk_node(ns[0]), mk_node(ns[1])], vec![(sel[0], idx[0]), (sel[1], idx[1]), (sel[2], idx[2])]);
    let q: u32 = kani::any();
    let r = p.find_node(q);
    let first = if sel[0] == q { Some(idx[0]) } else if sel[1] == q { Some(idx[1]) } else if sel[2] == q { Some(idx[2]) } else { None };
    match (r, first) {
        (Some(n), Some(i)) => assert!(core::ptr::eq(n, &p.nodes[i as usize]), "node of the first matching table entry"),
        (None, None) => {}
        _ => assert!(false, "Some exactly when a table entry carries the selector"),
    }
    kani::cover!(first.is_some(), "reachable");
    core::mem::forget(p);
}

//@unit props=C18 label=B tier=quick fn=shpk::ShaderPackage::find_node bound="selector table of 2 entries with arbitrary (possibly out-of-range) node indices, 1 node"
//@desc an alias that points past the node list must not crash the lookup
#[kani::proof]
#[kani::unwind(4)]
fn k_find_node_bad_alias_nopanic() {
    let sel: [u32; 2] = kani::any();
    let idx: [u32; 2] = kani::any();
    let p = mk_package(vec![mk_node(kani::any())], vec![(sel[0], idx[0]), (sel[1], idx[1])]);
    let q: u32 = kani::any();
    let _ = p.find_node(q);
    kani::cover!(true, "reachable");
    core::mem::forget(p);
}

//@unit props=C14 label=B tier=quick fn=shpk::ShaderPackage::build_selector bound="exactly 3 keys (bounded counterexample finder paired with the unbounded Verus unit build_selector)"
//@desc selector = k0 + 31*k1 + 961*k2 mod 2^32
#[kani::proof]
#[kani::unwind(5)]
fn k_build_selector_3keys() {
    let k: [u32; 3] = kani::any();
    let want = k[0].wrapping_add(k[1].wrapping_mul(31)).wrapping_add(k[2].wrapping_mul(961));
    assert!(ShaderPackage::build_selector(&k) == want, "base-31 polynomial of the keys modulo 2^32");
    kani::cover!(true, "reachable");
}

//@unit props=C14 label=S tier=quick fn=shpk::{MaterialParameter,Key,Pass,NodeAlias}(derive) bound="fixed-size records 8/8/12/8 bytes, all contents" stubs=fmt::format
//@desc little-endian field placement and bytes consumed
#[kani::proof]
#[kani::unwind(4)]
#[kani::stub(alloc::fmt::format, stub_fmt)]
fn k_shpk_plain_records() {
    let b: [u8; 12] = kani::any();
    let mut c = Cursor::new(&b[..]);
    match MaterialParameter::read_le(&mut c) {
        Ok(h) => { assert!(h.id == le32(&b, 0) && h.byte_offset == le16(&b, 4) && h.byte_size == le16(&b, 6), "material parameter"); assert!(c.position() == 8, "8 bytes"); }
        Err(e) => { core::mem::forget(e); assert!(false, "parses"); }
    }
    let mut c = Cursor::new(&b[..]);
    match Key::read_le(&mut c) {
        Ok(h) => { assert!(h.id == le32(&b, 0) && h.default_value == le32(&b, 4), "key"); assert!(c.position() == 8, "8 bytes"); }
        Err(e) => { core::mem::forget(e); assert!(false, "parses"); }
    }
    let mut c = Cursor::new(&b[..]);
    match Pass::read_le(&mut c) {
        Ok(h) => { assert!(h.id == le32(&b, 0) && h.vertex_shader == le32(&b, 4) && h.pixel_shader == le32(&b, 8), "pass"); assert!(c.position() == 12, "12 bytes"); }
        Err(e) => { core::mem::forget(e); assert!(false, "parses"); }
    }
    let mut c = Cursor::new(&b[..]);
    match NodeAlias::read_le(&mut c) {
        Ok(h) => { assert!(h.selector == le32(&b, 0) && h.node == le32(&b, 4), "node alias"); assert!(c.position() == 8, "8 bytes"); }
        Err(e) => { core::mem::forget(e); assert!(false, "parses"); }
    }
    kani::cover!(true, "reachable");
}

//@unit props=C14,C18 label=S tier=quick fn=shpk::ResourceParameter(derive read) bound="16-byte record + name heap; strings offset 16, name length 0, every other header byte symbolic (incl. the 32-bit local name offset)" stubs=fmt::format
//@desc id, slot and size are the little-endian fields at 0, 12, 14; the name is looked up at strings_offset + local offset without arithmetic overflow for ANY 32-bit local offset (a damaged offset must not crash the parser); 16 bytes consumed, position restored after the name
#[kani::proof]
#[kani::unwind(6)]
#[kani::stub(alloc::fmt::format, stub_fmt)]
fn k_resource_parameter_record() {
    let mut b: [u8; 24] = kani::any();
    b[8] = 0; b[9] = 0; // name length 0
    let mut c = Cursor::new(&b[..]);
    match ResourceParameter::read_args(&mut c, ResourceParameterBinReadArgs { strings_offset: 16 }) {
        Ok(p) => {
            assert!(p.id == le32(&b, 0) && p.slot == le16(&b, 12) && p.size == le16(&b, 14), "id, slot, size");
            assert!(p.name.is_empty(), "empty name");
            assert!(c.position() == 16, "16-byte record; position restored after the name lookup");
            core::mem::forget(p);
        }
        Err(e) => { core::mem::forget(e); }
    }
    kani::cover!(true, "reachable");
}

//@unit props=C18 label=S tier=parked fn=shpk::ResourceParameter(derive read) bound="16-byte record + 2-byte name at strings offset 16 (local offset 0), name bytes symbolic" stubs=fmt::format
//@desc a parameter whose name bytes are not valid UTF-8 is rejected or read best-effort; the parser never panics
#[kani::proof]
#[kani::unwind(6)]
#[kani::stub(alloc::fmt::format, stub_fmt)]
fn k_resource_parameter_name_nopanic() {
    let mut b = [0u8; 18];
    b[8] = 2; // name length 2
    let n: [u8; 2] = kani::any();
    b[16] = n[0]; b[17] = n[1];
    let mut c = Cursor::new(&b[..]);
    match ResourceParameter::read_args(&mut c, ResourceParameterBinReadArgs { strings_offset: 16 }) {
        Ok(p) => { core::mem::forget(p); }
        Err(e) => { core::mem::forget(e); }
    }
    kani::cover!(true, "reachable");
}

//@use_common

struct NshParam { id: u32, name: &'static str, slot: u16, size: u16 }
fn nsh_u16(o: &mut Vec<u8>, v: u16) { o.extend_from_slice(&v.to_le_bytes()); }
fn nsh_u32(o: &mut Vec<u8>, v: u32) { o.extend_from_slice(&v.to_le_bytes()); }
/// a shader package with every table populated, packed by hand in the order the format stores it
fn nsh_package() -> (Vec<u8>, Vec<u8>, Vec<u8>) {
    let mut strings: Vec<u8> = vec![];
    let mut put_param = |o: &mut Vec<u8>, p: &NshParam, strings: &mut Vec<u8>| {
        nsh_u32(o, p.id); nsh_u32(o, strings.len() as u32); nsh_u16(o, p.name.len() as u16); nsh_u16(o, 0); nsh_u16(o, p.slot); nsh_u16(o, p.size);
        strings.extend_from_slice(p.name.as_bytes()); strings.push(0);
    };
    let vs_code: Vec<u8> = (0..24u8).map(|i| i.wrapping_mul(7).wrapping_add(3)).collect();
    let ps_code: Vec<u8> = (0..40u8).map(|i| i.wrapping_mul(13).wrapping_add(1)).collect();
    let mut o: Vec<u8> = vec![];
    o.extend_from_slice(b"ShPk"); nsh_u32(&mut o, 0x0D01); o.extend_from_slice(b"DX11");
    nsh_u32(&mut o, 0); nsh_u32(&mut o, 0); nsh_u32(&mut o, 0); // file length, shader data offset, strings offset: patched below
    nsh_u32(&mut o, 1); nsh_u32(&mut o, 1); // vertex / pixel shader count
    nsh_u32(&mut o, 8); nsh_u16(&mut o, 2); nsh_u16(&mut o, 1); // material parameters: size 8 bytes, 2 parameters, defaults present
    nsh_u16(&mut o, 1); nsh_u16(&mut o, 0); nsh_u16(&mut o, 1); nsh_u16(&mut o, 1); nsh_u16(&mut o, 1); nsh_u16(&mut o, 0); // scalar, unknown, sampler, texture, uav, unknown
    nsh_u32(&mut o, 1); nsh_u32(&mut o, 1); nsh_u32(&mut o, 1); nsh_u32(&mut o, 2); nsh_u32(&mut o, 2); // system / scene / material keys, nodes, aliases
    // vertex shader: data at 0 (8 bytes of extra data precede the bytecode), 1 scalar + 1 texture parameter
    nsh_u32(&mut o, 0); nsh_u32(&mut o, vs_code.len() as u32); nsh_u16(&mut o, 1); nsh_u16(&mut o, 1); nsh_u16(&mut o, 2); nsh_u16(&mut o, 1);
    put_param(&mut o, &NshParam { id: 0x1001, name: "g_WorldViewMatrix", slot: 3, size: 4 }, &mut strings);
    put_param(&mut o, &NshParam { id: 0x1003, name: "g_InstanceData", slot: 9, size: 2 }, &mut strings);
    put_param(&mut o, &NshParam { id: 0x1004, name: "g_OutputBuffer", slot: 7, size: 1 }, &mut strings);
    put_param(&mut o, &NshParam { id: 0x1005, name: "g_OutputBuffer2", slot: 8, size: 1 }, &mut strings);
    put_param(&mut o, &NshParam { id: 0x1002, name: "g_SamplerNormal", slot: 1, size: 1 }, &mut strings);
    // pixel shader: data after the vertex shader's, 1 resource parameter
    nsh_u32(&mut o, 8 + vs_code.len() as u32); nsh_u32(&mut o, ps_code.len() as u32); nsh_u16(&mut o, 0); nsh_u16(&mut o, 1); nsh_u16(&mut o, 0); nsh_u16(&mut o, 0);
    put_param(&mut o, &NshParam { id: 0x2001, name: "g_CommonParameter", slot: 7, size: 2 }, &mut strings);
    // material parameters and their defaults
    nsh_u32(&mut o, 0x3001); nsh_u16(&mut o, 0); nsh_u16(&mut o, 4); nsh_u32(&mut o, 0x3002); nsh_u16(&mut o, 4); nsh_u16(&mut o, 4);
    o.extend_from_slice(&1.5f32.to_le_bytes()); o.extend_from_slice(&(-2.0f32).to_le_bytes());
    put_param(&mut o, &NshParam { id: 0x4001, name: "g_MaterialParameter", slot: 2, size: 1 }, &mut strings);
    put_param(&mut o, &NshParam { id: 0x4002, name: "g_SamplerDiffuse", slot: 0, size: 1 }, &mut strings);
    put_param(&mut o, &NshParam { id: 0x4003, name: "g_TextureMask", slot: 5, size: 1 }, &mut strings);
    put_param(&mut o, &NshParam { id: 0x4004, name: "g_Uav", slot: 6, size: 1 }, &mut strings);
    nsh_u32(&mut o, 0x5001); nsh_u32(&mut o, 11); nsh_u32(&mut o, 0x5002); nsh_u32(&mut o, 22); nsh_u32(&mut o, 0x5003); nsh_u32(&mut o, 33); // keys (id, default)
    nsh_u32(&mut o, 0x6001); nsh_u32(&mut o, 0x6002); // sub-view key defaults
    for n in 0..2u32 {
        nsh_u32(&mut o, 0x7000_0000 + n); nsh_u32(&mut o, 1); o.extend_from_slice(&[0xFFu8; 16]);
        nsh_u32(&mut o, 100 + n); nsh_u32(&mut o, 200 + n); nsh_u32(&mut o, 300 + n); nsh_u32(&mut o, 400 + n); nsh_u32(&mut o, 500 + n); // system, scene, material, 2 sub-view keys
        nsh_u32(&mut o, 0x8000 + n); nsh_u32(&mut o, 0); nsh_u32(&mut o, 0); // pass: id, vertex shader, pixel shader
    }
    nsh_u32(&mut o, 0xAAAA_000A); nsh_u32(&mut o, 1); nsh_u32(&mut o, 0xBBBB_000B); nsh_u32(&mut o, 0);
    let shader_data_offset = o.len() as u32;
    o.extend_from_slice(&[0xE1u8; 8]); o.extend_from_slice(&vs_code); o.extend_from_slice(&ps_code);
    // the vertex shader's extra-data read takes shader_data_offset bytes from its data position: keep that much behind it
    while (o.len() as u32) < shader_data_offset * 2 { o.push(0xCD); }
    let strings_offset = o.len() as u32;
    o.extend_from_slice(&strings);
    let len = o.len() as u32;
    o[12..16].copy_from_slice(&len.to_le_bytes()); o[16..20].copy_from_slice(&shader_data_offset.to_le_bytes()); o[20..24].copy_from_slice(&strings_offset.to_le_bytes());
    (o, vs_code, ps_code)
}

//@unit props=C14 label=B tier=quick native=1 fn=shpk::ShaderPackage::{from_existing,find_node} bound="by execution: one hand-packed package with every table populated (1 vertex shader with scalar, resource, 2 UAV and texture parameters + 1 pixel shader, 2 material parameters with defaults, 4 package parameters, 3 keys, 2 nodes with keys and a pass, 2 aliases)"
//@desc the parsed package returns what was packed: shader bytecode (vertex bytecode after its 8 extra bytes), parameter names resolved through the string table with their slots, keys and defaults, nodes with their key lists and passes; find_node resolves node selectors and aliases and nothing else
#[test]
fn native_shpk_parse() {
    let (bytes, vs_code, ps_code) = nsh_package();
    let p = ShaderPackage::from_existing(&bytes).expect("a well-formed package parses");
    assert_eq!((p.vertex_shaders.len(), p.pixel_shaders.len()), (1, 1));
    assert_eq!(p.vertex_shaders[0].bytecode, vs_code, "vertex bytecode follows its 8 bytes of extra data");
    assert_eq!(p.pixel_shaders[0].bytecode, ps_code, "pixel bytecode");
    assert_eq!((p.vertex_shaders[0].scalar_parameters[0].name.as_str(), p.vertex_shaders[0].scalar_parameters[0].slot), ("g_WorldViewMatrix", 3));
    assert_eq!((p.vertex_shaders[0].texture_parameters[0].name.as_str(), p.vertex_shaders[0].texture_parameters[0].slot), ("g_SamplerNormal", 1));
    assert_eq!((p.vertex_shaders[0].resource_parameters[0].name.as_str(), p.vertex_shaders[0].resource_parameters[0].slot), ("g_InstanceData", 9), "a shader's lists are stored scalar, resource, UAV, texture");
    assert_eq!(p.vertex_shaders[0].uav_parameters.iter().map(|x| (x.name.as_str(), x.slot)).collect::<Vec<_>>(), vec![("g_OutputBuffer", 7), ("g_OutputBuffer2", 8)], "UAV parameters of the vertex shader");
    assert_eq!((p.vertex_shaders[0].scalar_parameters.len(), p.vertex_shaders[0].resource_parameters.len(), p.vertex_shaders[0].uav_parameters.len(), p.vertex_shaders[0].texture_parameters.len()), (1, 1, 2, 1));
    assert_eq!((p.pixel_shaders[0].resource_parameters[0].name.as_str(), p.pixel_shaders[0].resource_parameters[0].slot), ("g_CommonParameter", 7));
    assert_eq!(p.material_parameters_size, 8);
    assert_eq!(p.material_parameters.len(), 2);
    assert_eq!(p.mat_param_defaults, vec![1.5f32, -2.0]);
    assert_eq!((p.scalar_parameters[0].name.as_str(), p.sampler_parameters[0].name.as_str(), p.texture_parameters[0].name.as_str(), p.uav_parameters[0].name.as_str()), ("g_MaterialParameter", "g_SamplerDiffuse", "g_TextureMask", "g_Uav"));
    assert_eq!((p.texture_parameters[0].slot, p.uav_parameters[0].slot), (5, 6));
    assert_eq!((p.system_keys[0].id, p.system_keys[0].default_value, p.scene_keys[0].id, p.scene_keys[0].default_value, p.material_keys[0].id, p.material_keys[0].default_value), (0x5001, 11, 0x5002, 22, 0x5003, 33));
    assert_eq!((p.sub_view_key1_default, p.sub_view_key2_default), (0x6001, 0x6002));
    assert_eq!(p.nodes.len(), 2);
    for n in 0..2u32 {
        let node = &p.nodes[n as usize];
        assert_eq!((node.selector, node.pass_count), (0x7000_0000 + n, 1));
        assert_eq!((&node.system_keys, &node.scene_keys, &node.material_keys, &node.subview_keys), (&vec![100 + n], &vec![200 + n], &vec![300 + n], &vec![400 + n, 500 + n]));
        assert_eq!((node.passes[0].id, node.passes[0].vertex_shader, node.passes[0].pixel_shader), (0x8000 + n, 0, 0));
        assert_eq!(p.find_node(0x7000_0000 + n).map(|x| x.selector), Some(0x7000_0000 + n), "a node is found by its own selector");
    }
    assert_eq!(p.find_node(0xAAAA_000A).map(|x| x.selector), Some(0x7000_0001), "alias resolves to the node it names");
    assert_eq!(p.find_node(0xBBBB_000B).map(|x| x.selector), Some(0x7000_0000));
    assert!(p.find_node(0xDEAD_BEEF).is_none() && p.find_node(0).is_none() && p.find_node(1).is_none(), "unknown selectors resolve to nothing");
    println!("NATIVE native_shpk_parse cases=1");
}

//@unit props=C18 label=B tier=quick native=1 fn=shpk::ShaderPackage::{from_existing,find_node} bound="by execution: the hand-packed package of native_shpk_parse: every truncation and 7 single-byte corruptions per byte, each followed by find_node on the two node selectors, the two aliases and an unknown selector"
//@desc damaged shader packages (truncated anywhere, any count, offset, string length, name byte or alias damaged) yield None or a value and lookups on the value return a node or None, never a panic
#[test]
fn native_shpk_damaged_nopanic() {
    let (bytes, _, _) = nsh_package();
    let f = |b: &[u8]| { if let Some(p) = ShaderPackage::from_existing(b) { for sel in [0x7000_0000u32, 0x7000_0001, 0xAAAA_000A, 0xBBBB_000B, 0xDEAD_BEEF] { let _ = p.find_node(sel); } } };
    let mut s = NativeSites::new();
    s.sweep(&bytes, 1 << 20, 1, &f);
    s.finish("native_shpk_damaged_nopanic");
}
