//@module src/lib.rs
use super::*;

//@use_common

//@unit props=C18 label=B tier=quick native=1 fn=every_buffer_parser::from_existing(avfx,cmp,dic,exd,exh,hwc,iwc,mtrl,pap,pbd,phyb,scd,schd,sgb,shpk,skeleton,skp,stm,tera,tex,tmb,uld,layer,sqpack::db,model) bound="by execution: for each of 25 parsers: buffers of every length 0..96 and of 300 bytes over 5 fill patterns (00, 'A', FF, counting, 80), each also behind each of 14 format magics, and with every single byte among the first 64 set to FF, 80 and 01"
//@desc short and header-only inputs: every asset parser returns None or a value on structured garbage (right magic, wrong rest; invalid UTF-8 in tag fields; zero and all-ones counts and offsets), never a panic
#[test]
fn native_all_parsers_short_inputs_nopanic() {
    let magics: [&[u8]; 15] = [b"", b"ShPk", b"EXHF", b"EXDF", b"XFVA", b"blks", b"pap ", b"LGB1", b"SqPack\0\0", b"SCDB", b"uldh", b"SGB1", b"SEDB", b"PHYB", b"\0\0\x0b\x00"];
    let parsers: Vec<(&str, Box<dyn Fn(&[u8]) + std::panic::RefUnwindSafe + Sync>)> = vec![
        ("avfx", Box::new(|b: &[u8]| { let _ = crate::avfx::Avfx::from_existing(b); })),
        ("cmp", Box::new(|b: &[u8]| { let _ = crate::cmp::CMP::from_existing(b); })),
        ("dic", Box::new(|b: &[u8]| { let _ = crate::dic::Dictionary::from_existing(b); })),
        ("exd", Box::new(|b: &[u8]| { let _ = crate::exd::EXD::from_existing(b); })),
        ("exh", Box::new(|b: &[u8]| { let _ = crate::exh::EXH::from_existing(b); })),
        ("hwc", Box::new(|b: &[u8]| { let _ = crate::hwc::Hwc::from_existing(b); })),
        ("iwc", Box::new(|b: &[u8]| { let _ = crate::iwc::Iwc::from_existing(b); })),
        ("mtrl", Box::new(|b: &[u8]| { let _ = crate::mtrl::Material::from_existing(b); })),
        ("pap", Box::new(|b: &[u8]| { let _ = crate::pap::Pap::from_existing(b); })),
        ("pbd", Box::new(|b: &[u8]| { let _ = crate::pbd::PreBoneDeformer::from_existing(b); })),
        ("phyb", Box::new(|b: &[u8]| { let _ = crate::phyb::Phyb::from_existing(b); })),
        ("scd", Box::new(|b: &[u8]| { let _ = crate::scd::Scd::from_existing(b); })),
        ("schd", Box::new(|b: &[u8]| { let _ = crate::schd::Schd::from_existing(b); })),
        ("sgb", Box::new(|b: &[u8]| { let _ = crate::sgb::Sgb::from_existing(b); })),
        ("shpk", Box::new(|b: &[u8]| { let _ = crate::shpk::ShaderPackage::from_existing(b); })),
        ("skeleton", Box::new(|b: &[u8]| { let _ = crate::skeleton::Skeleton::from_existing(b); })),
        ("skp", Box::new(|b: &[u8]| { let _ = crate::skp::Skp::from_existing(b); })),
        ("stm", Box::new(|b: &[u8]| { let _ = crate::stm::StainingTemplate::from_existing(b); })),
        ("tera", Box::new(|b: &[u8]| { let _ = crate::tera::Terrain::from_existing(b); })),
        ("tex", Box::new(|b: &[u8]| { let _ = crate::tex::Texture::from_existing(b); })),
        ("tmb", Box::new(|b: &[u8]| { let _ = crate::tmb::Tmb::from_existing(b); })),
        ("uld", Box::new(|b: &[u8]| { let _ = crate::uld::Uld::from_existing(b); })),
        ("layer", Box::new(|b: &[u8]| { let _ = crate::layer::LayerGroup::from_existing(b); })),
        ("sqdb", Box::new(|b: &[u8]| { let _ = crate::sqpack::SqPackDatabase::from_existing(b); })),
        ("mdl", Box::new(|b: &[u8]| { let _ = crate::model::MDL::from_existing(b); })),
    ];
    let mut s = NativeSites::new();
    for (name, f) in parsers.iter() {
        for magic in magics.iter() {
            for fill in 0..5usize {
                let body = |n: usize| -> Vec<u8> { let mut v = magic.to_vec(); v.extend((0..n).map(|i| match fill { 0 => 0u8, 1 => b'A', 2 => 0xFF, 3 => i as u8, _ => 0x80 })); v };
                for n in (0..=96usize).chain([300usize]) { s.run(f, &body(n), &format!("{name}: magic {:?} + {n} bytes of fill {fill}", String::from_utf8_lossy(magic))); }
                if fill == 0 || fill == 1 {
                    let base = body(300);
                    let mut w = base.clone();
                    for i in 0..64usize { for c in [0xFFu8, 0x80, 0x01] { if base[i] != c { w[i] = c; s.run(f, &w, &format!("{name}: magic {:?} + fill {fill}, byte {i} set to {c:#04x}", String::from_utf8_lossy(magic))); } } w[i] = base[i]; }
                }
            }
        }
    }
    s.finish("native_all_parsers_short_inputs_nopanic");
}

//@unit props=C18 label=B tier=quick native=1 fn=layer::LayerGroup::from_existing bound="by execution: resources/tests/empty_planlive.lgb (45 bytes) and the same file with its layer count, chunk size and offsets raised: every truncation and 7 single-byte corruptions per byte, every byte also set to each of 00..0F and F0..FF"
//@desc damaged layer groups yield None or a value, never a panic
#[test]
fn native_lgb_damaged_nopanic() {
    let v = native_resource("empty_planlive.lgb");
    let f = |b: &[u8]| { let _ = crate::layer::LayerGroup::from_existing(b); };
    let mut s = NativeSites::new();
    let mut padded = v.clone(); padded.extend(std::iter::repeat(0u8).take(256));
    for base in [v.clone(), padded] {
        s.sweep(&base, 1 << 20, 1, &f);
        let mut w = base.clone();
        for i in 0..v.len() { for c in (0u8..16).chain(0xF0u8..=0xFF) { w[i] = c; s.run(&f, &w, &format!("byte {i} set to {c:#04x}")); } w[i] = base[i]; }
    }
    s.finish("native_lgb_damaged_nopanic");
}

//@unit props=C16 label=B tier=quick native=1 fn=layer::LayerGroup::{write_to_buffer,from_existing} bound="by execution: layer groups without layers: 7 layer group ids (0, 1, 261, -1, i32::MAX, i32::MIN, 65536) x 8 ASCII names of 1..40 bytes x file ids LGB1 and 0x12345678, chunk ids LGP1 and 0"
//@desc an empty layer group written by the library parses back to the same file id, chunk id, layer group id and name, with no layers
#[test]
fn native_lgb_empty_roundtrip() {
    use crate::layer::{LayerChunk, LayerGroup};
    let mut cases = 0u64;
    let names: Vec<String> = vec!["a".into(), "PlanLive".into(), "bg_common".into(), "Plan Event 01".into(), "x".repeat(31), "y".repeat(32), "z".repeat(33), "n".repeat(40)];
    for id in [0i32, 1, 261, -1, i32::MAX, i32::MIN, 65536] { for name in names.iter() { for (file_id, chunk_id) in [(u32::from_le_bytes(*b"LGB1"), u32::from_le_bytes(*b"LGP1")), (0x12345678, 0)] {
        let g = LayerGroup { file_id, chunks: vec![LayerChunk { chunk_id, layer_group_id: id, name: name.clone(), layers: Vec::new() }] };
        let b = g.write_to_buffer().expect("write");
        let p = LayerGroup::from_existing(&b).expect("a written layer group parses");
        assert_eq!((p.file_id, p.chunks.len()), (file_id, 1), "file id and chunk count");
        let c = &p.chunks[0];
        assert_eq!((c.chunk_id, c.layer_group_id, &c.name, c.layers.len()), (chunk_id, id, name, 0), "chunk id, layer group id, name read back");
        cases += 1;
    } } }
    println!("NATIVE native_lgb_empty_roundtrip cases={cases}");
}
