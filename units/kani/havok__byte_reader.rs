//@module src/havok/byte_reader.rs
use super::*;

//@unit props=C16 label=P tier=quick fn=havok::byte_reader::ByteReader::{read,read_u16_le,read_f32_le,read_bytes,align,seek}
//@desc each reader returns the value stored at the cursor (u8, LE u16, LE f32 bits, byte slice) and advances the cursor by its size; align rounds the cursor up to the next multiple (0 = no-op)
#[kani::proof]
#[kani::unwind(10)]
fn k_byte_reader_ops() {
    let b: [u8; 12] = kani::any();
    let mut r = ByteReader::new(&b);
    assert!(r.read() == b[0] && r.cursor == 1, "u8 at cursor");
    assert!(r.read_u16_le() == u16::from_le_bytes([b[1], b[2]]) && r.cursor == 3, "LE u16 at cursor");
    assert!(r.read_f32_le().to_bits() == u32::from_le_bytes([b[3], b[4], b[5], b[6]]) && r.cursor == 7, "LE f32 at cursor");
    let s = r.read_bytes(2);
    assert!(s.len() == 2 && s[0] == b[7] && s[1] == b[8], "byte slice at cursor");
    assert!(r.cursor == 9, "cursor advanced by the slice length");
    let a: usize = kani::any();
    kani::assume(a <= 8);
    r.align(a);
    let c = r.cursor;
    assert!(c >= 9 && (a == 0 || (c % a == 0 && c < 9 + a)) && (a != 0 || c == 9), "round up to the next multiple");
    kani::cover!(true, "reachable");
}
