//@module src/layer/mod.rs
use super::*;

//@use_common

/// a layer group with `n` layers (no instance objects: the library's writer emits layer headers only), layer k referencing k layer sets
fn nly_group(n: usize) -> LayerGroup {
    let layers = (0..n).map(|k| Layer {
        header: LayerHeader {
            layer_id: 0x1000 + k as u32,
            name: HeapString { value: format!("Layer_{k}_{}", "x".repeat(k * 3)) },
            instance_object_offset: 0,
            instance_object_count: 0,
            tool_mode_visible: k % 2 == 0,
            tool_mode_read_only: k % 3 == 0,
            is_bush_layer: k % 2 == 1,
            ps3_visible: true,
            layer_set_referenced_list: LayerSetReferencedList {
                referenced_type: if k % 2 == 0 { LayerSetReferencedType::All } else { LayerSetReferencedType::Include },
                layer_sets: (0..k).map(|j| LayerSetReferenced { layer_set_id: (100 * k + j) as u32 }).collect(),
            },
            festival_id: 7 + k as u16,
            festival_phase_id: 3,
            is_temporary: 0,
            is_housing: (k % 2) as u8,
            version_mask: 0xFFFF,
            ob_set_referenced_list: 0,
            ob_set_referenced_list_count: 0,
            ob_set_enable_referenced_list: 0,
            ob_set_enable_referenced_list_count: 0,
        },
        objects: Vec::new(),
    }).collect();
    LayerGroup { file_id: u32::from_le_bytes(*b"LGB1"), chunks: vec![LayerChunk { chunk_id: u32::from_le_bytes(*b"LGP1"), layer_group_id: 261, name: "PlanLive".to_string(), layers }] }
}

//@unit props=C18 label=B tier=quick native=1 fn=layer::LayerGroup::{from_existing,write_to_buffer} bound="by execution: the files the library writes for layer groups of 1..4 object-less layers (layer headers, names, referenced layer sets; the unchanged parser does not accept them back - the layered writer is not round-trip capable, which no property asks for - so they serve as structured damage seeds that reach the layer-header reader): for each file every truncation and 7 single-byte corruptions per byte, and every byte of the first 112 also set to each of 00..0F and F0..FF"
//@desc files with layer tables (as far as the library's own writer can produce them), truncated or with any byte damaged, yield None or a value, never a panic
#[test]
fn native_lgb_layers_damaged_nopanic() {
    let f = |b: &[u8]| { let _ = LayerGroup::from_existing(b); };
    let mut s = NativeSites::new();
    for n in 1..=4usize {
        let v = nly_group(n).write_to_buffer().expect("write");
        s.sweep(&v, 1 << 20, 1, &f);
        let mut w = v.clone();
        for i in 0..v.len().min(112) { for c in (0u8..16).chain(0xF0u8..=0xFF) { if v[i] != c { w[i] = c; s.run(&f, &w, &format!("{n} layers: byte {i} set to {c:#04x}")); } } w[i] = v[i]; }
    }
    s.finish("native_lgb_layers_damaged_nopanic");
}
