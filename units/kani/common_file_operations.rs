//@module src/common_file_operations.rs
use super::*;
use binrw::BinRead;
use std::io::Cursor;

fn stub_fmt(_a: core::fmt::Arguments<'_>) -> String { String::new() }
fn stub_cpuid(_l: u32, _s: u32) -> std::arch::x86_64::CpuidResult {
    std::arch::x86_64::CpuidResult { eax: 0, ebx: 0, ecx: 0, edx: 0 }
}

//@unit props=C14 label=P tier=quick fn=common_file_operations::{read_half1,read_half2,read_half3}
//@desc component i of the result has the bits of input half i (each component from its own half-word), every 16-bit pattern
#[kani::proof]
fn k_read_half_components() {
    let d: [u16; 3] = kani::any();
    let h1 = read_half1([d[0]]);
    assert!(h1.value.to_bits() == d[0], "Half1.value from half 0");
    let h2 = read_half2([d[0], d[1]]);
    assert!(h2.x.to_bits() == d[0], "Half2.x from half 0");
    assert!(h2.y.to_bits() == d[1], "Half2.y from half 1");
    let h3 = read_half3(d);
    assert!(h3.r.to_bits() == d[0], "Half3.r from half 0");
    assert!(h3.g.to_bits() == d[1], "Half3.g from half 1");
    assert!(h3.b.to_bits() == d[2], "Half3.b from half 2");
    kani::cover!(true, "reachable");
}

//@unit props=C14 label=P tier=quick fn=common_file_operations::{Half1,Half2,Half3}(derive) stubs=fmt::format
//@desc the derive-generated readers consume 2/4/6 bytes and give component i the little-endian half-word i, all byte contents
#[kani::proof]
#[kani::unwind(4)]
#[kani::stub(alloc::fmt::format, stub_fmt)]
fn k_half_records() {
    let b: [u8; 6] = kani::any();
    let w = [u16::from_le_bytes([b[0], b[1]]), u16::from_le_bytes([b[2], b[3]]), u16::from_le_bytes([b[4], b[5]])];
    let mut c = Cursor::new(&b[..]);
    match Half3::read_le(&mut c) {
        Ok(h) => { assert!(h.r.to_bits() == w[0] && h.g.to_bits() == w[1] && h.b.to_bits() == w[2], "Half3 = LE half-words 0,1,2"); assert!(c.position() == 6, "6 bytes"); }
        Err(e) => { core::mem::forget(e); assert!(false, "Half3 parses"); }
    }
    let mut c = Cursor::new(&b[..]);
    match Half2::read_le(&mut c) {
        Ok(h) => { assert!(h.x.to_bits() == w[0] && h.y.to_bits() == w[1], "Half2 = LE half-words 0,1"); assert!(c.position() == 4, "4 bytes"); }
        Err(e) => { core::mem::forget(e); assert!(false, "Half2 parses"); }
    }
    let mut c = Cursor::new(&b[..]);
    match Half1::read_le(&mut c) {
        Ok(h) => { assert!(h.value.to_bits() == w[0], "Half1 = LE half-word 0"); assert!(c.position() == 2, "2 bytes"); }
        Err(e) => { core::mem::forget(e); assert!(false, "Half1 parses"); }
    }
    kani::cover!(true, "reachable");
}

/// Independent IEEE-754 binary16 -> binary32 conversion on bit patterns (integer arithmetic only).
pub(crate) fn spec_half_to_f32_bits(h: u16) -> Option<u32> {
    let sign = ((h >> 15) as u32) << 31;
    let e = ((h >> 10) & 31) as u32;
    let m = (h & 1023) as u32;
    if e == 0 {
        if m == 0 { return Some(sign); }
        // subnormal: value = m * 2^-24; normalise
        let mut mm = m;
        let mut e32: u32 = 127 - 15 + 1;
        let mut k = 0;
        while k < 10 { if mm & 0x400 == 0 { mm <<= 1; e32 -= 1; } k += 1; }
        return Some(sign | (e32 << 23) | ((mm & 0x3FF) << 13));
    }
    if e == 31 {
        if m == 0 { return Some(sign | 0x7F80_0000); }
        return None; // NaN: any NaN is accepted
    }
    Some(sign | ((e + 112) << 23) | (m << 13))
}

//@unit props=C14,C06 label=P tier=quick fn=half::f16::to_f32(dependency,software-path) stubs=__cpuid_count
//@desc f16::to_f32 is the IEEE-754 binary16 value for all 65536 patterns (sign/exponent/mantissa decode incl. subnormals and infinities; NaN maps to NaN) - software conversion path of the half crate
#[kani::proof]
#[kani::unwind(12)]
#[kani::stub(std::arch::x86_64::__cpuid_count, stub_cpuid)]
fn k_half_to_f32_ieee() {
    let h: u16 = kani::any();
    let f = f16::from_bits(h).to_f32();
    match spec_half_to_f32_bits(h) {
        Some(bits) => assert!(f.to_bits() == bits, "binary16 -> binary32 is exact"),
        None => assert!(f.is_nan(), "NaN maps to NaN"),
    }
    kani::cover!(true, "reachable");
}

//@unit props=C17 label=B tier=quick fn=common_file_operations::read_string bound="byte strings of exactly 2 bytes, all contents"
//@desc read_string never panics (used for character comments, patch header names, directory and file-operation chunk names)
#[kani::proof]
#[kani::unwind(6)]
fn k_read_string_nopanic_2() {
    let b: [u8; 2] = kani::any();
    let s = read_string(b.to_vec());
    core::mem::forget(s);
    kani::cover!(true, "reachable");
}

//@unit props=C17 label=B tier=quick native=1 fn=common_file_operations::read_string bound="exhaustive by execution: every byte string of length 0..2, every string of length 3..5 over the alphabet {00, 'a', 7F, 80, A9, C3, E2, F0, FF}, and those strings followed by 0..3 NULs and a tail"
//@desc read_string never panics; valid UTF-8 comes back without its leading/trailing NULs and otherwise unchanged
#[test]
fn native_read_string_bytes() {
    let mut cases = 0u64;
    let check = |v: Vec<u8>| {
        let shown = v.clone();
        let r = std::panic::catch_unwind(move || read_string(v));
        match r {
            Err(_) => panic!("read_string panicked on {shown:02x?}"),
            Ok(s) => {
                if let Ok(t) = std::str::from_utf8(&shown) {
                    assert_eq!(s, t.trim_matches('\0'), "valid UTF-8 {shown:02x?} comes back without its outer NULs");
                }
                assert!(!s.starts_with('\0') && !s.ends_with('\0'), "no NUL left at either end for {shown:02x?}");
            }
        }
    };
    check(vec![]); cases += 1;
    for a in 0..=255u8 { check(vec![a]); cases += 1; for b in 0..=255u8 { check(vec![a, b]); cases += 1; } }
    let al = [0x00u8, b'a', 0x7F, 0x80, 0xA9, 0xC3, 0xE2, 0xF0, 0xFF];
    for n in 3..=5usize {
        let mut idx = vec![0usize; n];
        loop {
            let base: Vec<u8> = idx.iter().map(|i| al[*i]).collect();
            check(base.clone()); cases += 1;
            if n <= 4 {
                for z in 1..=3usize { let mut w = base.clone(); w.extend(std::iter::repeat(0u8).take(z)); w.extend_from_slice(b"tail"); check(w); cases += 1; }
            }
            let mut k = 0;
            while k < n { idx[k] += 1; if idx[k] < al.len() { break; } idx[k] = 0; k += 1; }
            if k == n { break; }
        }
    }
    println!("NATIVE native_read_string_bytes cases={cases}");
}
