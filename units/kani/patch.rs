//@module src/patch.rs
use super::*;

fn stub_fmt(_a: core::fmt::Arguments<'_>) -> String { String::new() }
fn be16(b: &[u8], o: usize) -> u16 { u16::from_be_bytes([b[o], b[o + 1]]) }
fn be32(b: &[u8], o: usize) -> u32 { u32::from_be_bytes([b[o], b[o + 1], b[o + 2], b[o + 3]]) }
fn be64(b: &[u8], o: usize) -> u64 { ((be32(b, o) as u64) << 32) | be32(b, o + 4) as u64 }

//@unit props=C03 label=S tier=quick fn=patch::SqpkAddData(derive read) bound="23-byte command prefix with block count 0 (no payload), every other byte symbolic" stubs=fmt::format
//@desc category/expansion-chunk/file ids are the big-endian words at 3, 5, 7; block offset, block count and delete count are the big-endian words at 11, 15, 19 times 128; payload length = block count x 128; 23 bytes consumed
#[kani::proof]
#[kani::unwind(4)]
#[kani::stub(alloc::fmt::format, stub_fmt)]
fn k_sqpk_add_data_prefix() {
    let mut b: [u8; 23] = kani::any();
    b[15] = 0; b[16] = 0; b[17] = 0; b[18] = 0;
    let mut c = Cursor::new(&b[..]);
    match SqpkAddData::read(&mut c) {
        Ok(a) => {
            assert!(a.main_id == be16(&b, 3) && a.sub_id == be16(&b, 5) && a.file_id == be32(&b, 7), "ids big-endian at 3, 5, 7");
            assert!(a.block_offset == (be32(&b, 11) as u64) * 128, "write position is 128 x the stated block offset");
            assert!(a.block_number == 0 && a.block_data.len() == 0, "payload length is 128 x the block count");
            assert!(a.block_delete_number == (be32(&b, 19) as u64) * 128, "wipe length is 128 x the delete count");
            assert!(c.position() == 23, "23 bytes");
            core::mem::forget(a);
        }
        Err(e) => { core::mem::forget(e); assert!(false, "command parses"); }
    }
    kani::cover!(true, "reachable");
}

//@unit props=C03 label=S tier=parked fn=patch::SqpkAddData(derive read) bound="command with block count 1: 23-byte prefix plus 128 payload bytes, ids/offset/delete count and payload symbolic" stubs=fmt::format
//@desc the payload is the 128 x block-count bytes that follow the prefix, in order
#[kani::proof]
#[kani::unwind(130)]
#[kani::stub(alloc::fmt::format, stub_fmt)]
fn k_sqpk_add_data_payload() {
    let mut b: [u8; 151] = kani::any();
    b[15] = 0; b[16] = 0; b[17] = 0; b[18] = 1;
    let mut c = Cursor::new(&b[..]);
    match SqpkAddData::read(&mut c) {
        Ok(a) => {
            assert!(a.block_number == 128 && a.block_data.len() == 128, "one block = 128 payload bytes");
            let i: usize = kani::any();
            kani::assume(i < 128);
            assert!(a.block_data[i] == b[23 + i], "payload bytes in order");
            assert!(c.position() == 151, "prefix + payload consumed");
            core::mem::forget(a);
        }
        Err(e) => { core::mem::forget(e); assert!(false, "command parses"); }
    }
    kani::cover!(true, "reachable");
}

//@unit props=C03 label=P tier=quick fn=patch::SqpkDeleteData(derive read) stubs=fmt::format
//@desc all 23-byte contents: ids big-endian at 3, 5, 7; block offset = big-endian word at 11 times 128; block count = big-endian word at 15; 4 trailing bytes skipped (23 consumed)
#[kani::proof]
#[kani::unwind(4)]
#[kani::stub(alloc::fmt::format, stub_fmt)]
fn k_sqpk_delete_data() {
    let b: [u8; 23] = kani::any();
    let mut c = Cursor::new(&b[..]);
    match SqpkDeleteData::read(&mut c) {
        Ok(d) => {
            assert!(d.main_id == be16(&b, 3) && d.sub_id == be16(&b, 5) && d.file_id == be32(&b, 7), "ids big-endian at 3, 5, 7");
            assert!(d.block_offset == (be32(&b, 11) as u64) * 128, "position is 128 x the stated block offset");
            assert!(d.block_number == be32(&b, 15), "block count");
            assert!(c.position() == 23, "23 bytes");
        }
        Err(e) => { core::mem::forget(e); assert!(false, "command parses"); }
    }
    kani::cover!(true, "reachable");
}

//@unit props=C03 label=S tier=thorough fn=patch::SqpkTargetInfo(derive read) bound="123-byte command; platform code 0..4 as a 16-bit big-endian word at 3, region word held at 0xFFFF (global), every other byte symbolic" stubs=fmt::format
//@desc the target platform is the 16-bit big-endian code at offset 3; debug flag = word at 7 equals 1; version = word at 9; deleted-data size and seek count little-endian at 11 and 19; 123 bytes consumed (96 reserved bytes at the end)
#[kani::proof]
#[kani::unwind(4)]
#[kani::stub(alloc::fmt::format, stub_fmt)]
fn k_sqpk_target_info() {
    let mut b: [u8; 123] = kani::any();
    let p: u8 = kani::any();
    kani::assume(p <= 4);
    b[3] = 0; b[4] = p;
    b[5] = 0xFF; b[6] = 0xFF;
    let mut c = Cursor::new(&b[..]);
    match SqpkTargetInfo::read(&mut c) {
        Ok(t) => {
            assert!(t.platform as u8 == p, "platform is the 16-bit big-endian code");
            assert!(t.is_debug == (be16(&b, 7) == 1), "debug flag");
            assert!(t.version == be16(&b, 9), "version");
            assert!(t.deleted_data_size == u64::from_le_bytes([b[11], b[12], b[13], b[14], b[15], b[16], b[17], b[18]]), "deleted data size little-endian");
            assert!(t.seek_count == u64::from_le_bytes([b[19], b[20], b[21], b[22], b[23], b[24], b[25], b[26]]), "seek count little-endian");
            assert!(c.position() == 123, "123 bytes");
        }
        Err(e) => { core::mem::forget(e); assert!(false, "command parses"); }
    }
    kani::cover!(true, "reachable");
}

//@unit props=C03 label=S tier=quick fn=patch::PatchChunk(derive read) bound="8-byte end-of-file chunk: symbolic size word, magic EOF_" stubs=fmt::format
//@desc chunk size is big-endian; the EOF_ chunk carries no checksum word (8 bytes consumed)
#[kani::proof]
#[kani::unwind(8)]
#[kani::stub(alloc::fmt::format, stub_fmt)]
fn k_patch_chunk_eof() {
    let mut b: [u8; 12] = kani::any();
    b[4] = b'E'; b[5] = b'O'; b[6] = b'F'; b[7] = b'_';
    let mut c = Cursor::new(&b[..]);
    match PatchChunk::read(&mut c) {
        Ok(ch) => {
            assert!(ch.size == be32(&b, 0), "size big-endian");
            assert!(ch.chunk_type == ChunkType::EndOfFile, "end-of-file chunk");
            assert!(c.position() == 8, "no checksum word after EOF_");
            core::mem::forget(ch);
        }
        Err(e) => { core::mem::forget(e); assert!(false, "chunk parses"); }
    }
    kani::cover!(true, "reachable");
}

//@unit props=C03 label=S tier=parked fn=patch::SqpkChunk(derive read) bound="SQPK chunk body with operation 'D' or 'E' and a symbolic 23-byte command" stubs=fmt::format
//@desc operation byte 'D' selects delete, 'E' selects expand; both carry the same 23-byte command layout
#[kani::proof]
#[kani::unwind(6)]
#[kani::stub(alloc::fmt::format, stub_fmt)]
fn k_sqpk_chunk_delete_expand() {
    let mut b: [u8; 28] = kani::any();
    let e: bool = kani::any();
    b[4] = if e { b'E' } else { b'D' };
    let mut c = Cursor::new(&b[..]);
    match SqpkChunk::read(&mut c) {
        Ok(ch) => {
            assert!(ch.size == be32(&b, 0), "inner size big-endian");
            match &ch.operation {
                SqpkOperation::DeleteData(d) => assert!(!e && d.block_number == be32(&b, 5 + 15) && d.block_offset == (be32(&b, 5 + 11) as u64) * 128, "delete command"),
                SqpkOperation::ExpandData(d) => assert!(e && d.block_number == be32(&b, 5 + 15) && d.block_offset == (be32(&b, 5 + 11) as u64) * 128, "expand command"),
                _ => assert!(false, "operation selected by its letter"),
            }
            assert!(c.position() == 28, "28 bytes");
            core::mem::forget(ch);
        }
        Err(x) => { core::mem::forget(x); assert!(false, "chunk parses"); }
    }
    kani::cover!(true, "reachable");
}

//@unit props=C03,C15 label=B tier=quick native=1 fn=patch::{get_expansion_folder,get_expansion_folder_sub} bound="exhaustive by execution: all 65536 ids"
//@desc the expansion folder is "ffxiv" for expansion 0 and "ex<n>" otherwise; for a sub id the expansion is its high byte
#[test]
fn native_expansion_folders() {
    let mut cases = 0u64;
    for id in 0..=u16::MAX {
        let want = if id == 0 { "ffxiv".to_string() } else { format!("ex{id}") };
        assert_eq!(get_expansion_folder(id), want, "expansion folder of {id}");
        let hi = id >> 8;
        let want_sub = if hi == 0 { "ffxiv".to_string() } else { format!("ex{hi}") };
        assert_eq!(get_expansion_folder_sub(id), want_sub, "expansion folder of sub id {id:#06x}");
        cases += 2;
    }
    println!("NATIVE native_expansion_folders cases={cases}");
}

fn file_operation_contract(letter: u8, want: SqpkFileOperation) {
    let mut b: [u8; 29] = kani::any();
    b[0] = letter;
    b[19] = 0; b[20] = 0; b[21] = 0; b[22] = 2;
    b[27] = b'a'; b[28] = 0;
    let mut c = Cursor::new(&b[..]);
    match SqpkFileOperationData::read(&mut c) {
        Ok(f) => {
            assert!(f.operation == want, "operation selected by its letter");
            assert!(f.offset == be64(&b, 3) && f.file_size == be64(&b, 11), "offset and size big-endian");
            assert!(f.expansion_id == be16(&b, 23), "expansion id");
            assert!(f.path.as_bytes() == b"a", "path without its NUL");
            assert!(c.position() == 29, "29 bytes");
            core::mem::forget(f);
        }
        Err(e) => { core::mem::forget(e); assert!(false, "command parses"); }
    }
    kani::cover!(true, "reachable");
}

//@unit props=C03 label=S tier=parked fn=patch::SqpkFileOperationData(derive read) bound="file-operation command with operation letter A, symbolic offset, size and expansion id, and the 2-byte path 'a' + NUL" stubs=fmt::format
//@desc letter A = add file; offset and file size are the big-endian 64-bit words at 3 and 11; path length the big-endian word at 19; expansion id the big-endian word at 23; the path follows at 27
#[kani::proof]
#[kani::unwind(6)]
#[kani::stub(alloc::fmt::format, stub_fmt)]
fn k_sqpk_file_operation_add() { file_operation_contract(b'A', SqpkFileOperation::AddFile); }

//@unit props=C03 label=S tier=parked fn=patch::SqpkFileOperationData(derive read) bound="same command with operation letter D" stubs=fmt::format
//@desc letter D = delete file
#[kani::proof]
#[kani::unwind(6)]
#[kani::stub(alloc::fmt::format, stub_fmt)]
fn k_sqpk_file_operation_delete() { file_operation_contract(b'D', SqpkFileOperation::DeleteFile); }

//@unit props=C03 label=S tier=quick fn=patch::{SqpkIndex,SqpkPatchInfo}(derive read) bound="index command (27 bytes, letter A) and patch-info command (11 bytes), other bytes symbolic" stubs=fmt::format
//@desc index command: letter selects add/delete, synonym flag = byte 1 equals 1, 64-bit hash big-endian at 3, block offset and count big-endian at 11 and 15; patch info: status, version, install size big-endian at 3
#[kani::proof]
#[kani::unwind(6)]
#[kani::stub(alloc::fmt::format, stub_fmt)]
fn k_sqpk_index_and_info() {
    let mut b: [u8; 27] = kani::any();
    let add = true;
    b[0] = b'A';
    let mut c = Cursor::new(&b[..]);
    match SqpkIndex::read(&mut c) {
        Ok(i) => {
            assert!((i.command == SqpkIndexCommand::Add) == add, "command letter");
            assert!(i.is_synonym == (b[1] == 1), "synonym flag");
            assert!(i.file_hash == be64(&b, 3) && i.block_offset == be32(&b, 11) && i.block_number == be32(&b, 15), "hash, offset, count big-endian");
            assert!(c.position() == 27, "27 bytes");
        }
        Err(e) => { core::mem::forget(e); assert!(false, "command parses"); }
    }
    let mut c = Cursor::new(&b[..]);
    match SqpkPatchInfo::read_be(&mut c) {
        Ok(p) => { assert!(p.status == b[0] && p.version == b[1] && p.install_size == be64(&b, 3), "status, version, install size"); assert!(c.position() == 11, "11 bytes"); }
        Err(e) => { core::mem::forget(e); assert!(false, "command parses"); }
    }
    kani::cover!(true, "reachable");
}

//@unit props=C03 label=S tier=parked fn=patch::SqpkHeaderUpdateData(derive read) bound="header-update command: kind letters D/I and V/I/D, symbolic ids, 1024 symbolic header bytes" stubs=fmt::format
//@desc file kind and header kind are selected by their letters; ids big-endian at 3, 5, 7; the 1024 bytes that follow are the header data, in order
#[kani::proof]
#[kani::unwind(1030)]
#[kani::stub(alloc::fmt::format, stub_fmt)]
fn k_sqpk_header_update() {
    let mut b: [u8; 1035] = kani::any();
    let (fk, hk): (bool, u8) = (kani::any(), kani::any());
    kani::assume(hk < 3);
    b[0] = if fk { b'D' } else { b'I' };
    b[1] = [b'V', b'I', b'D'][hk as usize];
    let mut c = Cursor::new(&b[..]);
    match SqpkHeaderUpdateData::read(&mut c) {
        Ok(h) => {
            assert!((h.file_kind == TargetFileKind::Dat) == fk, "file kind letter");
            let want = match hk { 0 => TargetHeaderKind::Version, 1 => TargetHeaderKind::Index, _ => TargetHeaderKind::Data };
            assert!(h.header_kind == want, "header kind letter");
            assert!(h.main_id == be16(&b, 3) && h.sub_id == be16(&b, 5) && h.file_id == be32(&b, 7), "ids big-endian");
            assert!(h.header_data.len() == 1024, "1 KiB of header data");
            let i: usize = kani::any();
            kani::assume(i < 1024);
            assert!(h.header_data[i] == b[11 + i], "header bytes in order");
            core::mem::forget(h);
        }
        Err(e) => { core::mem::forget(e); assert!(false, "command parses"); }
    }
    kani::cover!(true, "reachable");
}

//@unit props=C03 label=S tier=quick fn=patch::SqpkTargetInfo(derive read) bound="123-byte command, all bytes zero except the 16-bit platform word (platform code 0..4 symbolic) and the region word 0xFFFF" stubs=fmt::format
//@desc quick twin of k_sqpk_target_info: the target platform is the 16-bit big-endian code at offset 3 (its low byte), 123 bytes consumed
#[kani::proof]
#[kani::unwind(4)]
#[kani::stub(alloc::fmt::format, stub_fmt)]
fn k_sqpk_target_info_platform() {
    let mut b = [0u8; 123];
    let p: u8 = kani::any();
    kani::assume(p <= 4);
    b[4] = p;
    b[5] = 0xFF; b[6] = 0xFF;
    let mut c = Cursor::new(&b[..]);
    match SqpkTargetInfo::read(&mut c) {
        Ok(t) => { assert!(t.platform as u8 == p, "platform is the 16-bit big-endian code"); assert!(c.position() == 123, "123 bytes"); }
        Err(e) => { core::mem::forget(e); assert!(false, "command parses"); }
    }
    kani::cover!(true, "reachable");
}

fn nzp_content(seed: usize, len: usize) -> Vec<u8> {
    let mut x = (seed as u32).wrapping_mul(2654435761).wrapping_add(12345);
    (0..len).map(|i| { x = x.wrapping_mul(1664525).wrapping_add(1013904223); if seed % 2 == 0 { (x >> 24) as u8 } else { (i % 7) as u8 } }).collect()
}
fn nzp_write_tree(root: &std::path::Path, files: &[(String, Vec<u8>)]) {
    std::fs::create_dir_all(root).unwrap();
    for (rel, data) in files {
        let p = root.join(rel);
        std::fs::create_dir_all(p.parent().unwrap()).unwrap();
        std::fs::write(&p, data).unwrap();
    }
}
fn nzp_read_tree(root: &std::path::Path) -> std::collections::BTreeMap<String, Vec<u8>> {
    let mut m = std::collections::BTreeMap::new();
    let mut stack = vec![root.to_path_buf()];
    while let Some(d) = stack.pop() {
        if let Ok(rd) = std::fs::read_dir(&d) {
            for e in rd.flatten() {
                let p = e.path();
                if p.is_dir() { stack.push(p); } else { m.insert(p.strip_prefix(root).unwrap().to_str().unwrap().to_string(), std::fs::read(&p).unwrap()); }
            }
        }
    }
    m
}

//@unit props=C04 label=B tier=quick native=1 fn=patch::ZiPatch::{create,apply} bound="by execution on temporary directories: 13 pairs of trees (one of them with files that are empty in A, in B or in both, and files whose content changes while the length stays the same) (nesting depth 0..4) mixing unchanged, changed, added and removed files with sizes from {1, 127, 128, 129, 31999, 32000, 32001, 300000}, incl. identical trees, empty A, empty B, and one pair whose names differ only in letter case"
//@desc applying the patch created from (A, B) to a copy of A yields exactly B's non-empty files with B's contents (files only in B appear, files in both end with B's content, files only in A disappear); creating the patch modifies neither A nor B
#[test]
fn native_zipatch_create_apply() {
    let sizes = [1usize, 127, 128, 129, 31999, 32000, 32001, 300000];
    let paths = ["a.bin", "ffxivboot.exe", "sqpack/ffxiv/000000.win32.dat0", "sqpack/ffxiv/000000.win32.index", "sqpack/ex1/020101.win32.dat1", "movie/ffxiv/00000.bk2", "d1/d2/d3/d4/deep.dat", "d1/d2/other.dat"];
    let base = std::env::temp_dir().join(format!("physis-verif-c04-{}", std::process::id()));
    let _ = std::fs::remove_dir_all(&base);
    let mut cases = 0u64;
    for pair in 0..13usize {
        // state of path k in this pair: 0 absent/absent, 1 same, 2 changed, 3 only in A, 4 only in B,
        // 5 non-empty in A but EMPTY in B (must disappear: the result is B's non-empty files), 6 empty in A and non-empty in B, 7 empty in both, 8 only in B and empty, 9 changed content of the SAME length
        let mut a_files: Vec<(String, Vec<u8>)> = vec![];
        let mut b_files: Vec<(String, Vec<u8>)> = vec![];
        for (k, rel) in paths.iter().enumerate() {
            let st = match pair { 0 => 1, 1 => 4, 2 => 3, 3 => 2, 12 => [5usize, 6, 7, 8, 9, 2, 5, 9][k], _ => (k * 3 + pair) % 5 };
            let la = sizes[(k + pair) % sizes.len()];
            let lb = sizes[(k * 5 + pair + 1) % sizes.len()];
            match st {
                1 => { let c = nzp_content(k + pair, la); a_files.push((rel.to_string(), c.clone())); b_files.push((rel.to_string(), c)); }
                2 => { a_files.push((rel.to_string(), nzp_content(k + pair, la))); b_files.push((rel.to_string(), nzp_content(k + pair + 100, lb))); }
                3 => { a_files.push((rel.to_string(), nzp_content(k + pair, la))); }
                4 => { b_files.push((rel.to_string(), nzp_content(k + pair + 200, lb))); }
                5 => { a_files.push((rel.to_string(), nzp_content(k + pair, la))); b_files.push((rel.to_string(), vec![])); }
                6 => { a_files.push((rel.to_string(), vec![])); b_files.push((rel.to_string(), nzp_content(k + pair + 300, lb))); }
                7 => { a_files.push((rel.to_string(), vec![])); b_files.push((rel.to_string(), vec![])); }
                8 => { b_files.push((rel.to_string(), vec![])); }
                9 => { let ca = nzp_content(k + pair, la); let mut cb = ca.clone(); let last = cb.len() - 1; cb[last] ^= 0xFF; if last > 0 { cb[0] ^= 0x55; } assert!(ca != cb && ca.len() == cb.len()); a_files.push((rel.to_string(), ca)); b_files.push((rel.to_string(), cb)); }
                _ => {}
            }
        }
        let (da, db, dw) = (base.join(format!("{pair}/A")), base.join(format!("{pair}/B")), base.join(format!("{pair}/W")));
        nzp_write_tree(&da, &a_files); nzp_write_tree(&db, &b_files); nzp_write_tree(&dw, &a_files);
        let (ta, tb) = (nzp_read_tree(&da), nzp_read_tree(&db));
        let patch = ZiPatch::create(da.to_str().unwrap(), db.to_str().unwrap()).expect("create");
        assert_eq!(nzp_read_tree(&da), ta, "create leaves A untouched (pair {pair})");
        assert_eq!(nzp_read_tree(&db), tb, "create leaves B untouched (pair {pair})");
        let pf = base.join(format!("{pair}/p.patch"));
        std::fs::write(&pf, &patch).unwrap();
        ZiPatch::apply(dw.to_str().unwrap(), pf.to_str().unwrap()).expect("a created patch applies");
        let got = nzp_read_tree(&dw);
        let want: std::collections::BTreeMap<String, Vec<u8>> = tb.iter().filter(|(_, v)| !v.is_empty()).map(|(k, v)| (k.clone(), v.clone())).collect();
        let gk: Vec<&String> = got.keys().collect(); let wk: Vec<&String> = want.keys().collect();
        assert_eq!(gk, wk, "files after apply are exactly B's files (pair {pair})");
        for (k, v) in want.iter() { assert!(got[k] == *v, "content of {k} after apply is B's content (pair {pair}, {} vs {} bytes)", got[k].len(), v.len()); }
        cases += 1;
    }
    // relative paths that differ only in letter case are different files (on a case-sensitive file system)
    {
        let (da, db, dw) = (base.join("case/A"), base.join("case/B"), base.join("case/W"));
        let a_files = vec![("Readme.txt".to_string(), nzp_content(1, 40)), ("Movie/intro.bin".to_string(), nzp_content(2, 200)), ("common.bin".to_string(), nzp_content(3, 129))];
        let b_files = vec![("readme.txt".to_string(), nzp_content(4, 41)), ("movie/intro.bin".to_string(), nzp_content(2, 200)), ("common.bin".to_string(), nzp_content(3, 129))];
        nzp_write_tree(&da, &a_files); nzp_write_tree(&db, &b_files); nzp_write_tree(&dw, &a_files);
        if nzp_read_tree(&da).len() == 3 && !da.join("readme.txt").exists() { // skipped on a case-insensitive file system
            let patch = ZiPatch::create(da.to_str().unwrap(), db.to_str().unwrap()).expect("create");
            let pf = base.join("case/p.patch"); std::fs::write(&pf, &patch).unwrap();
            ZiPatch::apply(dw.to_str().unwrap(), pf.to_str().unwrap()).expect("a created patch applies");
            let (got, want) = (nzp_read_tree(&dw), nzp_read_tree(&db));
            assert_eq!(got.keys().collect::<Vec<_>>(), want.keys().collect::<Vec<_>>(), "files after apply are exactly B's files (names differing only in case)");
            assert!(got == want, "contents after apply are B's (names differing only in case)");
            cases += 1;
        }
    }
    let _ = std::fs::remove_dir_all(&base);
    println!("NATIVE native_zipatch_create_apply cases={cases}");
}

//@use_common

//@unit props=C17 label=B tier=quick native=1 fn=patch::ZiPatch::apply bound="by execution on temporary directories: a patch created from two small trees (two added files of 5 and 300 bytes, one removed file): every truncation and 7 single-byte corruptions per byte except the 9 bytes 'SQPK'+size+operation letter of each chunk (turning a file operation into an expand/delete-data command would make apply write gigabytes of zeros); plus every multiple of 16 up to 1024 in the size field of each file block header, AddFile chunks claiming 2^40 bytes over a single block with an oversized header-size field, delete-data, expand-data, add-data and header-update commands placed before any target info, and a missing patch file"
//@desc damaged patch files (truncated anywhere, any byte of chunk sizes, names, block headers or checksums damaged, commands before target info, delete/expand commands with block count 0, missing file) make apply return Ok or Err, never panic
#[test]
fn native_zipatch_damaged_nopanic() {
    let base = std::env::temp_dir().join(format!("physis-verif-c17p-{}", std::process::id()));
    let _ = std::fs::remove_dir_all(&base);
    let (da, db, dw) = (base.join("A"), base.join("B"), base.join("W"));
    nzp_write_tree(&da, &[("old/gone.bin".to_string(), nzp_content(1, 40))]);
    nzp_write_tree(&db, &[("ffxivboot.exe".to_string(), nzp_content(2, 5)), ("sqpack/ffxiv/000000.win32.index".to_string(), nzp_content(3, 300))]);
    let patch = ZiPatch::create(da.to_str().unwrap(), db.to_str().unwrap()).expect("create");
    let empty = { let e = base.join("E"); std::fs::create_dir_all(&e).unwrap(); ZiPatch::create(e.to_str().unwrap(), e.to_str().unwrap()).expect("create") };
    assert!(empty.len() == 20 && &empty[1..8] == b"ZIPATCH" && &empty[16..20] == b"EOF_", "12-byte header + end-of-file chunk");
    let pf = base.join("p.patch");
    let (pfs, dws) = (pf.to_str().unwrap().to_string(), dw.to_str().unwrap().to_string());
    let f = { let (pfs, dws) = (pfs.clone(), dws.clone()); move |b: &[u8]| { std::fs::write(&pfs, b).unwrap(); let _ = ZiPatch::apply(&dws, &pfs); } };
    std::fs::create_dir_all(&dw).unwrap();
    assert!(ZiPatch::apply(&dws, base.join("missing.patch").to_str().unwrap()).is_err(), "a missing patch file is an ordinary failure");
    let mut s = NativeSites::new();
    // positions of the chunk magic + inner size + operation letter are left alone (see bound)
    let mut skip = vec![false; patch.len()];
    for i in 0..patch.len().saturating_sub(4) { if &patch[i..i + 4] == b"SQPK" { for k in i..(i + 9).min(patch.len()) { skip[k] = true; } } }
    for t in 0..=patch.len() { s.run(&f, &patch[..t], &format!("truncation to {t} bytes")); }
    let mut w = patch.clone();
    for i in 0..patch.len() {
        if skip[i] { continue; }
        let o = patch[i];
        for c in [0u8, 1, 0x7F, 0x80, 0xFF, o.wrapping_add(1), o.wrapping_sub(1)] { if c != o { w[i] = c; s.run(&f, &w, &format!("byte {i} changed from {o:#04x} to {c:#04x}")); } }
        w[i] = o;
    }
    // the header-size field of every file block set to each multiple of 16 up to 1024 (a size that makes the reader seek backwards must not make apply loop)
    for i in 0..patch.len().saturating_sub(16) {
        if patch[i + 4..i + 12] == [0, 0, 0, 0, 0x00, 0x7D, 0, 0] && patch[i + 2..i + 4] == [0, 0] {
            for k in 0..=64u32 { let mut w2 = patch.clone(); w2[i..i + 4].copy_from_slice(&(k * 16).to_le_bytes()); s.run(&f, &w2, &format!("block header at {i}: size field set to {}", k * 16)); }
            for big in [0x7FFF_FFFFu32, 0x8000_0000, 0xFFFF_FFF0, 0xFFFF_FFFF] { let mut w2 = patch.clone(); w2[i..i + 4].copy_from_slice(&big.to_le_bytes()); s.run(&f, &w2, &format!("block header at {i}: size field set to {big:#x}")); }
        }
    }
    // AddFile chunks that claim a huge file and carry one block whose header-size field exceeds its padded length: the reader must fail
    // (apply reports the error) instead of seeking backwards and reading the same block again and again
    for len in [0usize, 5, 200] { for over in [16u32, 32, 144] {
        let content = nzp_content(7, len);
        let mut block = nap_file_block(&content);
        let padded = ((len + 143) & !127) as u32;
        block[0..4].copy_from_slice(&(padded + over).to_le_bytes());
        let mut p = empty[..12].to_vec();
        p.extend(nap_fileop(b'A', 0, 1u64 << 40, 0, "big/claimed.bin", &block));
        p.extend_from_slice(&empty[12..]);
        let (pfs2, dws2) = (pfs.clone(), dws.clone());
        let g = move |b: &[u8]| { std::fs::write(&pfs2, b).unwrap(); assert!(ZiPatch::apply(&dws2, &pfs2).is_err(), "a patch whose AddFile data cannot be read reports an error, not success"); };
        s.run(&g, &p, &format!("AddFile claiming 2^40 bytes with a {len}-byte block whose header size is {}", padded + over));
    } }
    // data commands before any target info (block number 1 = 128 bytes)
    for letter in [b'D', b'E', b'A', b'H'] {
        let mut cmd = vec![0u8; 23];
        cmd[3..5].copy_from_slice(&0u16.to_be_bytes()); cmd[5..7].copy_from_slice(&0u16.to_be_bytes()); cmd[7..11].copy_from_slice(&0u32.to_be_bytes());
        cmd[11..15].copy_from_slice(&0u32.to_be_bytes()); cmd[15..19].copy_from_slice(&1u32.to_be_bytes());
        let mut body: Vec<u8> = vec![];
        body.extend_from_slice(&((5 + cmd.len()) as u32).to_be_bytes()); body.push(letter); body.extend_from_slice(&cmd);
        if letter == b'A' { body.extend_from_slice(&[0u8; 128]); }
        if letter == b'H' { body.truncate(5); body.extend_from_slice(&[b'D', b'V', 0]); body.extend_from_slice(&[0u8; 8]); body.extend_from_slice(&[0u8; 1024]); }
        let mut p = empty[..12].to_vec();
        p.extend_from_slice(&(body.len() as u32).to_be_bytes()); p.extend_from_slice(b"SQPK"); p.extend_from_slice(&body); p.extend_from_slice(&[0u8; 4]);
        p.extend_from_slice(&empty[12..]);
        s.run(&f, &p, &format!("'{}' command before any target info", letter as char));
    }
    // delete / expand commands after a target info whose block count is 0 (nothing to mark empty) or 1
    for letter in [b'D', b'E'] { for blocks in [0u32, 1] {
        let mut p = empty[..12].to_vec(); p.extend(nap_target(0)); p.extend(nap_del_exp(letter, 0x0a, 0, 0, 2, blocks)); p.extend_from_slice(&empty[12..]);
        s.run(&f, &p, &format!("'{}' command with block count {blocks}", letter as char));
    } }
    let _ = std::fs::remove_dir_all(&base);
    s.finish("native_zipatch_damaged_nopanic");
}

// ---- hand-built patch files for the apply-semantics stand-in (layouts as pinned by the chunk-record units above) ----
fn nap_chunk(magic: &[u8; 4], body: &[u8]) -> Vec<u8> { let mut c = vec![]; c.extend_from_slice(&(body.len() as u32).to_be_bytes()); c.extend_from_slice(magic); c.extend_from_slice(body); if magic != b"EOF_" { c.extend_from_slice(&[0u8; 4]); } c }
fn nap_sqpk(op: u8, cmd: &[u8]) -> Vec<u8> { let mut b = vec![]; b.extend_from_slice(&((5 + cmd.len()) as u32).to_be_bytes()); b.push(op); b.extend_from_slice(cmd); nap_chunk(b"SQPK", &b) }
fn nap_target(platform: u8) -> Vec<u8> { let mut c = vec![0u8; 123]; c[4] = platform; c[5] = 0xFF; c[6] = 0xFF; nap_sqpk(b'T', &c) }
fn nap_ids(main: u16, sub: u16, file: u32) -> Vec<u8> { let mut c = vec![0u8; 3]; c.extend_from_slice(&main.to_be_bytes()); c.extend_from_slice(&sub.to_be_bytes()); c.extend_from_slice(&file.to_be_bytes()); c }
fn nap_add(main: u16, sub: u16, file: u32, off_blocks: u32, data: &[u8], delete_blocks: u32) -> Vec<u8> {
    assert!(data.len() % 128 == 0);
    let mut c = nap_ids(main, sub, file); c.extend_from_slice(&off_blocks.to_be_bytes()); c.extend_from_slice(&((data.len() / 128) as u32).to_be_bytes()); c.extend_from_slice(&delete_blocks.to_be_bytes()); c.extend_from_slice(data); nap_sqpk(b'A', &c)
}
fn nap_del_exp(op: u8, main: u16, sub: u16, file: u32, off_blocks: u32, blocks: u32) -> Vec<u8> { let mut c = nap_ids(main, sub, file); c.extend_from_slice(&off_blocks.to_be_bytes()); c.extend_from_slice(&blocks.to_be_bytes()); c.extend_from_slice(&[0u8; 4]); nap_sqpk(op, &c) }
fn nap_header(kind: u8, which: u8, main: u16, sub: u16, file: u32, data: &[u8; 1024]) -> Vec<u8> { let mut c = vec![kind, which, 0]; c.extend_from_slice(&main.to_be_bytes()); c.extend_from_slice(&sub.to_be_bytes()); c.extend_from_slice(&file.to_be_bytes()); c.extend_from_slice(data); nap_sqpk(b'H', &c) }
fn nap_fileop(op: u8, offset: u64, size: u64, expansion: u16, path: &str, payload: &[u8]) -> Vec<u8> {
    let mut c = vec![op, 0, 0]; c.extend_from_slice(&offset.to_be_bytes()); c.extend_from_slice(&size.to_be_bytes()); c.extend_from_slice(&((path.len() + 1) as u32).to_be_bytes()); c.extend_from_slice(&expansion.to_be_bytes()); c.extend_from_slice(&[0u8; 2]);
    c.extend_from_slice(path.as_bytes()); c.push(0); c.extend_from_slice(payload); nap_sqpk(b'F', &c)
}
/// a file block as the patch stores it: 16-byte header (size 16, 0, 32000 = raw, length), data, zero padding to a multiple of 128
fn nap_file_block(data: &[u8]) -> Vec<u8> { let mut b = vec![]; b.extend_from_slice(&16u32.to_le_bytes()); b.extend_from_slice(&0u32.to_le_bytes()); b.extend_from_slice(&32000i32.to_le_bytes()); b.extend_from_slice(&(data.len() as i32).to_le_bytes()); b.extend_from_slice(data); while b.len() % 128 != 0 { b.push(0); } b }
fn nap_empty_block(blocks: u32) -> Vec<u8> { let mut v = vec![0u8; (blocks as usize) << 7]; v[0..4].copy_from_slice(&128i32.to_le_bytes()); v[12..16].copy_from_slice(&((blocks - 1) as i32).to_le_bytes()); v }

//@unit props=C03 label=B tier=quick native=1 fn=patch::ZiPatch::apply bound="by execution on temporary directories: 3 hand-built patches (16, 7 and 9 chunks, the last one switching the target platform twice: FHDR-less header, T, X, I, A, D, E, H(dat version / dat data / index), F(A at offset 0, at an offset past the end and at an offset inside a longer file, multi-block, D, M, R), APLY, ADIR, DELD, EOF) applied one after another to a tree with 4 pre-existing files, for the win32 and ps4 target platforms"
//@desc after applying, the tree is what the reference semantics give: block writes at 128 x the block offset of the dat file named by category, expansion, chunk, file number and target platform, followed by the wipe; delete/expand write an empty-block header of the given block count over zeroed blocks; header updates overwrite the first (version) or second (index/data) KiB; file operations create, overwrite at an offset, truncate, delete and make directories; untouched files keep their bytes; every apply reports success; applying the patches in sequence accumulates their effects
#[test]
fn native_zipatch_apply_semantics() {
    let mut cases = 0u64;
    for (platform, pname) in [(0u8, "win32"), (2u8, "ps4")] {
        let base = std::env::temp_dir().join(format!("physis-verif-c03-{}-{pname}", std::process::id()));
        let _ = std::fs::remove_dir_all(&base);
        let root = base.join("game");
        let keep = nzp_content(9, 700);
        let pre: Vec<(String, Vec<u8>)> = vec![("ffxivgame.ver".to_string(), b"2023.01.01.0000.0000".to_vec()), (format!("sqpack/ffxiv/0a0000.{pname}.dat0"), nzp_content(3, 4096)),
            ("sqpack/ex1/old.bin".to_string(), nzp_content(4, 300)), ("movie/ffxiv/keep.bk2".to_string(), keep.clone()), ("movie/ffxiv/long.bk2".to_string(), nzp_content(6, 600)), ("sqpack/ex2/020201.win32.index".to_string(), nzp_content(5, 64))];
        nzp_write_tree(&root, &pre);
        std::fs::create_dir_all(root.join("olddir")).unwrap();
        let mut model: std::collections::BTreeMap<String, Vec<u8>> = pre.iter().cloned().collect();
        let header = { let e = base.join("E"); std::fs::create_dir_all(&e).unwrap(); ZiPatch::create(e.to_str().unwrap(), e.to_str().unwrap()).expect("create")[..12].to_vec() };
        let eof = nap_chunk(b"EOF_", &[]);
        let write_at = |f: &mut Vec<u8>, off: usize, d: &[u8]| { if f.len() < off + d.len() { f.resize(off + d.len(), 0); } f[off..off + d.len()].copy_from_slice(d); };
        let (d256, d128) = (nzp_content(21, 256), nzp_content(22, 128));
        let (h1, h2, h3): ([u8; 1024], [u8; 1024], [u8; 1024]) = (nzp_content(31, 1024).try_into().unwrap(), nzp_content(32, 1024).try_into().unwrap(), nzp_content(33, 1024).try_into().unwrap());
        let (f1, f2, f3) = (nzp_content(41, 5), nzp_content(42, 40000), nzp_content(43, 77));
        let dat0 = format!("sqpack/ffxiv/0a0000.{pname}.dat0"); let dat1 = format!("sqpack/ffxiv/0a0000.{pname}.dat1"); let exdat = format!("sqpack/ex1/020101.{pname}.dat3"); let exidx = format!("sqpack/ex1/020101.{pname}.index");
        // ---- patch 1
        let mut p1: Vec<Vec<u8>> = vec![];
        p1.push(nap_chunk(b"APLY", &{ let mut b = vec![]; b.extend_from_slice(&1u32.to_be_bytes()); b.extend_from_slice(&[0u8; 4]); b.extend_from_slice(&0u32.to_be_bytes()); b }));
        p1.push(nap_target(platform));
        p1.push(nap_sqpk(b'X', &{ let mut c = vec![0u8, 0, 0]; c.extend_from_slice(&0u64.to_be_bytes()); c }));
        p1.push(nap_add(0x0a, 0x0000, 0, 2, &d256, 1)); { let f = model.get_mut(&dat0).unwrap(); write_at(f, 256, &d256); write_at(f, 512, &[0u8; 128]); }
        p1.push(nap_del_exp(b'D', 0x0a, 0x0000, 0, 8, 3)); { let f = model.get_mut(&dat0).unwrap(); write_at(f, 1024, &nap_empty_block(3)); }
        // an empty-block range that starts inside the existing file (non-zero bytes there) and runs past its end: every byte of it is zeroed
        p1.push(nap_del_exp(b'D', 0x0a, 0x0000, 0, 30, 4)); { let f = model.get_mut(&dat0).unwrap(); assert!(f.len() == 4096 && f[3900] != 0); write_at(f, 3840, &nap_empty_block(4)); }
        p1.push(nap_del_exp(b'E', 0x0a, 0x0000, 1, 0, 2)); { let f = model.entry(dat1.clone()).or_default(); write_at(f, 0, &nap_empty_block(2)); }
        p1.push(nap_add(0x02, 0x0101, 3, 16, &d128, 0)); { let f = model.entry(exdat.clone()).or_default(); write_at(f, 2048, &d128); }
        p1.push(nap_header(b'D', b'V', 0x02, 0x0101, 3, &h1)); { let f = model.get_mut(&exdat).unwrap(); write_at(f, 0, &h1); }
        p1.push(nap_header(b'D', b'D', 0x02, 0x0101, 3, &h2)); { let f = model.get_mut(&exdat).unwrap(); write_at(f, 1024, &h2); }
        p1.push(nap_header(b'I', b'I', 0x02, 0x0101, 0, &h3)); { let f = model.entry(exidx.clone()).or_default(); write_at(f, 1024, &h3); }
        p1.push(nap_fileop(b'M', 0, 0, 0, "sqpack/ex3/", &[]));
        p1.push(nap_fileop(b'A', 0, f1.len() as u64, 0, "ffxivboot.exe", &nap_file_block(&f1))); model.insert("ffxivboot.exe".to_string(), f1.clone());
        p1.push(nap_fileop(b'A', 0, f2.len() as u64, 0, "movie/ffxiv/00000.bk2", &{ let mut b = nap_file_block(&f2[..16000]); b.extend(nap_file_block(&f2[16000..32000])); b.extend(nap_file_block(&f2[32000..])); b })); model.insert("movie/ffxiv/00000.bk2".to_string(), f2.clone());
        p1.push(nap_chunk(b"ADIR", &{ let mut b = vec![]; b.extend_from_slice(&7u32.to_be_bytes()); b.extend_from_slice(b"newdir\0"); b }));
                // ---- patch 2: overwrite at an offset, shrink by rewriting at 0, delete a file
        let mut p2: Vec<Vec<u8>> = vec![];
        p2.push(nap_target(platform));
        p2.push(nap_fileop(b'A', 3, f3.len() as u64, 0, "ffxivboot.exe", &nap_file_block(&f3))); { let f = model.get_mut("ffxivboot.exe").unwrap(); write_at(f, 3, &f3); }
        // overwrite in the middle of a longer existing file: the bytes before and after the written range stay
        p2.push(nap_fileop(b'A', 200, 28, 0, "movie/ffxiv/long.bk2", &nap_file_block(&f3[..28]))); { let f = model.get_mut("movie/ffxiv/long.bk2").unwrap(); write_at(f, 200, &f3[..28]); }
        p2.push(nap_fileop(b'A', 0, 5, 0, "movie/ffxiv/00000.bk2", &nap_file_block(&f1))); model.insert("movie/ffxiv/00000.bk2".to_string(), f1.clone());
        p2.push(nap_fileop(b'D', 0, 0, 0, "sqpack/ex1/old.bin", &[])); model.remove("sqpack/ex1/old.bin");
        p2.push(nap_sqpk(b'I', &{ let mut c = vec![b'A', 0, 0]; c.extend_from_slice(&0u64.to_be_bytes()); c.extend_from_slice(&0u32.to_be_bytes()); c.extend_from_slice(&0u32.to_be_bytes()); c.extend_from_slice(&[0u8; 8]); c }));
        p2.push(nap_chunk(b"DELD", &{ let mut b = vec![]; b.extend_from_slice(&7u32.to_be_bytes()); b.extend_from_slice(b"olddir\0"); b }));
                // ---- patch 3: remove all of expansion 2
        let mut p3: Vec<Vec<u8>> = vec![];
        p3.push(nap_target(platform));
        p3.push(nap_fileop(b'R', 0, 0, 2, "", &[])); model.remove("sqpack/ex2/020201.win32.index");
        p3.push(nap_add(0x0a, 0x0000, 0, 0, &d128, 0)); { let f = model.get_mut(&dat0).unwrap(); write_at(f, 0, &d128); }
        // a second target info inside the same patch: the commands after it go to the other platform's files
        let (other, oname) = if platform == 0 { (2u8, "ps4") } else { (0u8, "win32") };
        p3.push(nap_target(other));
        p3.push(nap_add(0x0a, 0x0000, 0, 1, &d128, 0)); { let f = model.entry(format!("sqpack/ffxiv/0a0000.{oname}.dat0")).or_default(); write_at(f, 128, &d128); }
        p3.push(nap_header(b'I', b'I', 0x0a, 0x0000, 0, &h1)); { let f = model.entry(format!("sqpack/ffxiv/0a0000.{oname}.index")).or_default(); write_at(f, 1024, &h1); }
        p3.push(nap_target(platform));
        p3.push(nap_del_exp(b'E', 0x0a, 0x0000, 2, 1, 1)); { let f = model.entry(format!("sqpack/ffxiv/0a0000.{pname}.dat2")).or_default(); write_at(f, 128, &nap_empty_block(1)); }
                for (k, chunks) in [p1, p2, p3].iter().enumerate() {
            let assemble = |n: usize| -> Vec<u8> { let mut v = header.clone(); for c in chunks[..n].iter() { v.extend_from_slice(c); } v.extend_from_slice(&eof); v };
            let pf = base.join(format!("p{k}.patch"));
            std::fs::write(&pf, assemble(chunks.len())).unwrap();
            let r = ZiPatch::apply(root.to_str().unwrap(), pf.to_str().unwrap());
            if r.is_err() {
                // name the first chunk the patch stops being accepted at (on a scratch directory)
                let scratch = base.join("S"); let mut first = chunks.len();
                for n in 1..=chunks.len() { let _ = std::fs::remove_dir_all(&scratch); std::fs::create_dir_all(&scratch).unwrap(); let q = base.join("q.patch"); std::fs::write(&q, assemble(n)).unwrap();
                    if ZiPatch::apply(scratch.to_str().unwrap(), q.to_str().unwrap()).is_err() { first = n - 1; break; } }
                panic!("patch {} is rejected ({pname}): {:?}; first chunk not accepted: #{first} {:?}", k + 1, r.err().map(|e| format!("{e:?}")), String::from_utf8_lossy(&chunks[first.min(chunks.len() - 1)][4..13]));
            }
            cases += 1;
        }
        let got = nzp_read_tree(&root);
        let gk: Vec<&String> = got.keys().collect(); let mk: Vec<&String> = model.keys().collect();
        assert_eq!(gk, mk, "files in the tree after the three patches ({pname})");
        for (k, v) in model.iter() { assert!(got[k] == *v, "content of {k} ({pname}): {} bytes, expected {}; first difference at {:?}", got[k].len(), v.len(), got[k].iter().zip(v.iter()).position(|(a, b)| a != b)); }
        assert!(got["movie/ffxiv/keep.bk2"] == keep, "an untouched file keeps its bytes");
        assert!(root.join("sqpack/ex3").is_dir(), "MakeDirTree created the directory");
        assert!(!root.join("sqpack/ex2").exists(), "RemoveAll removed the expansion's directory");
        assert!(root.join("newdir").is_dir(), "ADIR created the directory");
        assert!(!root.join("olddir").exists(), "DELD removed the (empty) directory");
        let _ = std::fs::remove_dir_all(&base);
    }
    println!("NATIVE native_zipatch_apply_semantics cases={cases}");
}
