//@module src/repository.rs
use super::*;

fn any_repo() -> Repository {
    let base: bool = kani::any();
    let n: i32 = kani::any();
    kani::assume(n >= 1 && n <= 99);
    Repository { name: String::new(), platform: Platform::Win32, repo_type: if base { Base } else { Expansion { number: n } }, version: None }
}
fn key(r: &Repository) -> i32 { match r.repo_type { Base => 0, Expansion { number } => number } }

//@unit props=C15 label=P tier=quick fn=repository::Repository::cmp(Ord)
//@desc when at most one of the two is the base repository: cmp orders by (base = 0, expansion number); hence base < every expansion, expansions by number, antisymmetric; partial_cmp agrees
#[kani::proof]
fn k_repo_cmp() {
    let a = any_repo();
    let b = any_repo();
    kani::assume(!(key(&a) == 0 && key(&b) == 0));
    assert!(a.cmp(&b) == key(&a).cmp(&key(&b)), "order by base-then-expansion-number");
    assert!(a.partial_cmp(&b) == Some(a.cmp(&b)), "partial_cmp agrees with cmp");
    assert!(b.cmp(&a) == a.cmp(&b).reverse(), "antisymmetric");
    kani::cover!(true, "reachable");
    core::mem::forget(a); core::mem::forget(b);
}

//@unit props=C15 label=B tier=quick fn=repository::Repository::cmp(Ord)+Vec::sort bound="3 repositories with distinct keys, any discovery order"
//@desc sort yields base first, then expansions by ascending number
#[kani::proof]
#[kani::unwind(6)]
fn k_repo_sort3() {
    let mut v = vec![any_repo(), any_repo(), any_repo()];
    let k = [key(&v[0]), key(&v[1]), key(&v[2])];
    kani::assume(k[0] != k[1] && k[1] != k[2] && k[0] != k[2]);
    v.sort();
    assert!(key(&v[0]) < key(&v[1]) && key(&v[1]) < key(&v[2]), "ffxiv, then ex by number");
    kani::cover!(true, "reachable");
    core::mem::forget(v);
}

//@unit props=C15,C01 label=P tier=quick fn=repository::Repository::expansion,repository::Category
//@desc expansion() is 0 for the base repository and the expansion number otherwise; the category codes are the documented hex ids (0x00..0x0C, 0x12, 0x13), pairwise distinct
#[kani::proof]
fn k_repo_expansion_and_categories() {
    let r = any_repo();
    assert!(r.expansion() == key(&r), "expansion number used in file names");
    use Category::*;
    let cats = [Common, BackgroundCommon, Background, Cutscene, Character, Shader, UI, Sound, VFX, UIScript, EXD, GameScript, Music, SqPackTest, Debug];
    let codes: [i32; 15] = [0, 1, 2, 3, 4, 5, 6, 7, 8, 9, 10, 11, 12, 0x12, 0x13];
    let i: usize = kani::any();
    kani::assume(i < 15);
    assert!(cats[i] as i32 == codes[i], "documented category code");
    kani::cover!(true, "reachable");
    core::mem::forget(r);
}

// ---------------- bounded stand-ins by native execution (format! is outside CBMC's budget) ----------------
//@unit props=C15,C01 label=B tier=quick native=1 fn=repository::Repository::{index_filename,index2_filename,dat_filename} bound="exhaustive by execution: 15 categories x expansions 0..9 x chunks 0..255 x 5 platforms x data files 0..7"
//@desc file names are the two-hex-digit category, two-digit expansion, two-digit chunk (the four hex digits of the patcher's sub id = expansion<<8 | chunk), platform tag, and for dat files the data-file number - exactly the names the patcher writes to ("{main:02x}{sub:04x}.{platform}.dat{n}"); distinct inputs give distinct names
#[test]
fn native_repo_filenames() {
    use Category::*;
    let cats = [Common, BackgroundCommon, Background, Cutscene, Character, Shader, UI, Sound, VFX, UIScript, EXD, GameScript, Music, SqPackTest, Debug];
    let plats = [(Platform::Win32, "win32"), (Platform::PS3, "ps3"), (Platform::PS4, "ps4"), (Platform::PS5, "ps5"), (Platform::Xbox, "lys")];
    let mut cases = 0u64;
    let mut seen = std::collections::HashSet::new();
    for (pf, tag) in plats.iter() {
        for ex in 0..10i32 {
            let r = Repository { name: String::new(), platform: pf.clone(), repo_type: if ex == 0 { Base } else { Expansion { number: ex } }, version: None };
            for cat in cats.iter() {
                for chunk in 0..=255u8 {
                    let sub = ((ex as u16) << 8) | chunk as u16;
                    let stem = format!("{:02x}{:04x}.{}", *cat as u16, sub, tag);
                    let i1 = r.index_filename(chunk, *cat);
                    let i2 = r.index2_filename(chunk, *cat);
                    assert_eq!(i1, format!("{stem}.index"), "index file name for category {:?} expansion {ex} chunk {chunk}", cat);
                    assert_eq!(i2, format!("{stem}.index2"), "index2 file name for category {:?} expansion {ex} chunk {chunk}", cat);
                    assert!(seen.insert(i1) && seen.insert(i2), "file names are unambiguous");
                    for n in 0..8u32 {
                        let d = r.dat_filename(chunk, *cat, n);
                        assert_eq!(d, format!("{stem}.dat{n}"), "dat file name for category {:?} expansion {ex} chunk {chunk} file {n}", cat);
                        assert!(seen.insert(d), "file names are unambiguous");
                        cases += 1;
                    }
                }
            }
        }
    }
    println!("NATIVE native_repo_filenames cases={cases}");
}
