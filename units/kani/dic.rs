//@module src/dic.rs
use super::*;

//@use_common

/// a small well-formed dictionary packed by hand in the layout the parser reads: three 256-entry replacement tables at 0x8124,
/// five block offsets (relative to 0x8950) and lengths, 4 pad bytes, the 256-entry character block table, then the five blocks
/// (begin nodes, inner nodes, characters, words: u16 each; entries: flag, sibling count, child, offset: u32 each)
struct NdcParts { begin: Vec<u16>, inner: Vec<u16>, chara: Vec<u16>, word: Vec<u16>, entries: Vec<[u32; 4]> }
fn ndc_file(p: &NdcParts) -> (Vec<u8>, [usize; 5], [usize; 5]) {
    let mut f = vec![0u8; 0x8124];
    for t in 0..3u16 { for i in 0..256u16 { f.extend_from_slice(&(i + t).to_le_bytes()); } }
    let blocks: [Vec<u8>; 5] = [p.begin.iter().flat_map(|x| x.to_le_bytes()).collect(), p.inner.iter().flat_map(|x| x.to_le_bytes()).collect(), p.chara.iter().flat_map(|x| x.to_le_bytes()).collect(),
                                p.word.iter().flat_map(|x| x.to_le_bytes()).collect(), p.entries.iter().flat_map(|e| e.iter().flat_map(|x| x.to_le_bytes()).collect::<Vec<u8>>()).collect()];
    let header_end = 0x8124 + 1536 + 20 + 20 + 4 + 1024;
    let mut rel = [0usize; 5]; let mut at = header_end - 0x8950;
    for k in 0..5 { rel[k] = at; at += blocks[k].len(); }
    for k in 0..5 { f.extend_from_slice(&(rel[k] as u32).to_le_bytes()); }
    for k in 0..5 { f.extend_from_slice(&(blocks[k].len() as u32).to_le_bytes()); }
    f.extend_from_slice(&[0u8; 4]);
    for i in 0..256u32 { f.extend_from_slice(&i.to_le_bytes()); } // character block table: block h is rune page h
    assert_eq!(f.len(), header_end);
    let mut abs = [0usize; 5]; let mut lens = [0usize; 5];
    for k in 0..5 { abs[k] = f.len(); lens[k] = blocks[k].len(); f.extend_from_slice(&blocks[k]); }
    (f, abs, lens)
}
fn ndc_sample() -> NdcParts {
    // begin node 0x141 ('A' on page 1) -> entry 1: two one-character siblings 'b', 'c', no children            => "Ab", "Ac"
    // begin node 0x142 ('B')           -> entry 2: one sibling 'd' whose child (inner node 3) is entry 4,
    //                                     entry 4: a word entry "ef"                                            => "Bdef"
    let mut begin = vec![0u16; 0x200]; begin[0x141] = 1; begin[0x142] = 2;
    NdcParts { begin, inner: vec![0, 0, 0, 4, 0], chara: vec!['b' as u16, 'c' as u16, 'd' as u16, 0], word: vec![0, 'e' as u16, 'f' as u16, 0],
               entries: vec![[0, 0, 0, 0], [0, 2, 0, 0], [0, 1, 3, 4], [0, 0, 0, 0], [1, 1, 0, 2]] }
}

/// child-process entry of the isolated cases (see NativeSites::run_isolated); a no-op when run as an ordinary test
#[test]
fn native_dic_isolated_worker() {
    if let Ok(p) = std::env::var("VERIF_ISO_INPUT") { if let Ok(b) = std::fs::read(&p) { let _ = Dictionary::from_existing(&b); } }
}

//@unit props=C18 label=B tier=quick native=1 fn=dic::Dictionary::{from_existing,list_words,dump_dict_node,get_string,get_string_characters,index_to_rune} bound="by execution: one hand-packed dictionary (3 words over 5 entries, character and word entries, one child link): every truncation from the table header on (every 64th before it); 7 single-byte corruptions per byte of the block offset/length tables, of the first 16 character-block words and of all five blocks; 7 single-byte corruptions per byte of the inner-node and entry blocks and 17 hand-made reference damages (child cycles, out-of-range entry / child / character / word references, huge sibling counts), each in an isolated worker process under a 4 s / 512 MiB limit"
//@desc a well-formed dictionary lists its words (vacuity guard: the walk really reaches character, word and child entries); damaged dictionaries (truncated, any table offset, length, node, entry field or reference damaged, cyclic child links) yield None or a value - no panic, no stack overflow, no walk that never ends
#[test]
fn native_dic_damaged_nopanic() {
    let (v, abs, lens) = ndc_file(&ndc_sample());
    let d = Dictionary::from_existing(&v).expect("a well-formed dictionary parses");
    assert_eq!(d.words, vec!["Ab".to_string(), "Ac".to_string(), "Bdef".to_string()], "the three stored words, in begin-node order");
    let mut s = NativeSites::new();
    let f = |b: &[u8]| { let _ = Dictionary::from_existing(b); };
    let table = 0x8124 + 1536; // block offsets, block lengths
    for t in (0..v.len()).filter(|t| *t >= table || t % 64 == 0) { s.run(&f, &v[..t], &format!("truncation to {t} bytes")); }
    let mut pick: Vec<usize> = (table..table + 40).chain(table + 44..table + 44 + 64).collect();
    for k in [0usize, 2, 3] { if k == 0 { pick.extend((abs[0] + 2 * 0x13e..abs[0] + 2 * 0x146).chain(abs[0]..abs[0] + 8)); } else { pick.extend(abs[k]..abs[k] + lens[k]); } }
    let mut w = v.clone();
    for i in pick.iter() {
        let o = v[*i];
        for c in [0u8, 1, 0x7F, 0x80, 0xFF, o.wrapping_add(1), o.wrapping_sub(1)] { if c != o { w[*i] = c; s.run(&f, &w, &format!("byte {i} changed from {o:#04x} to {c:#04x}")); } }
        w[*i] = o;
    }
    // the inner-node and entry blocks hold the links and counts that drive the walk: a damaged one can make it run or allocate without end,
    // which no catch_unwind sees - those cases run in an isolated worker process (4 s, 512 MiB); the slug names block, byte and value
    for (k, bname) in [(1usize, "inner"), (4, "entries")] { for i in abs[k]..abs[k] + lens[k] {
        let o = v[i];
        for c in [0u8, 1, 0x7F, 0x80, 0xFF, o.wrapping_add(1), o.wrapping_sub(1)] { if c != o {
            w[i] = c;
            s.run_isolated("native_dic_isolated_worker", &w, &format!("{bname}-byte-{}-set-to-{c:#04x}", i - abs[k]), &format!("byte {} of the {bname} block changed from {o:#04x} to {c:#04x}", i - abs[k]), 4, 512);
        } }
        w[i] = o;
    } }
    // hand-made damage of references (several fields at once where one byte is not enough)
    let variants: Vec<(&str, Box<dyn Fn(&mut NdcParts)>)> = vec![
        ("begin node names an entry past the table", Box::new(|p: &mut NdcParts| p.begin[0x141] = 5)),
        ("begin node names entry 65535", Box::new(|p: &mut NdcParts| p.begin[0x141] = 0xFFFF)),
        ("child link past the inner-node block", Box::new(|p: &mut NdcParts| p.entries[2][2] = 5)),
        ("child link near u32::MAX (child + sibling index overflows)", Box::new(|p: &mut NdcParts| { p.entries[2][2] = 0xFFFF_FFFF; p.entries[2][1] = 2; })),
        ("inner node names an entry past the table", Box::new(|p: &mut NdcParts| p.inner[3] = 9)),
        ("character offset exactly at the end of the character block", Box::new(|p: &mut NdcParts| p.entries[1][3] = 8)),
        ("character offset past the character block", Box::new(|p: &mut NdcParts| p.entries[1][3] = 0x1000)),
        ("character offset near i32::MAX with a large sibling count", Box::new(|p: &mut NdcParts| { p.entries[1][3] = 0xFFFF_FFFE; p.entries[1][1] = 0x7FFF_FFFF; })),
        ("word offset exactly at the end of the word block", Box::new(|p: &mut NdcParts| p.entries[4][3] = 8)),
        ("word offset past the word block", Box::new(|p: &mut NdcParts| p.entries[4][3] = 0x4000)),
        ("word without a terminator up to the end of the block", Box::new(|p: &mut NdcParts| p.word[3] = 'g' as u16)),
        ("huge sibling count on a character entry", Box::new(|p: &mut NdcParts| p.entries[1][1] = 0xFFFF_FFFF)),
        ("child link that leads back to the same entry (self-loop)", Box::new(|p: &mut NdcParts| p.inner[3] = 2)),
        ("two entries whose child links name each other (2-cycle)", Box::new(|p: &mut NdcParts| { p.entries[4] = [0, 1, 4, 4]; p.inner[4] = 2; })),
        ("invalid UTF-16 (lone surrogate) as a character", Box::new(|p: &mut NdcParts| p.chara[0] = 0xD800)),
        ("no entries at all", Box::new(|p: &mut NdcParts| p.entries.clear())),
        ("no blocks at all", Box::new(|p: &mut NdcParts| { p.begin.clear(); p.inner.clear(); p.chara.clear(); p.word.clear(); p.entries.clear(); })),
    ];
    for (vi, (what, edit)) in variants.iter().enumerate() {
        let mut p = ndc_sample(); edit(&mut p);
        let (b, _, _) = ndc_file(&p);
        s.run_isolated("native_dic_isolated_worker", &b, &format!("variant-{vi}-{}", what.split(' ').take(4).collect::<Vec<_>>().join("-").replace(|c: char| !c.is_ascii_alphanumeric() && c != '-', "")), what, 4, 512);
    }
    s.finish("native_dic_damaged_nopanic");
}
