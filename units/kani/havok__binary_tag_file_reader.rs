//@module src/havok/binary_tag_file_reader.rs
use super::*;

fn spec_packed(b: &[u8]) -> (i64, usize) {
    // sign in bit 0, 6 payload bits in the first byte, then 7 payload bits per continuation byte (bit 7 = continue)
    let neg = b[0] & 1 == 1;
    let mut v: i64 = ((b[0] & 0x7f) >> 1) as i64;
    let mut n = 1;
    let mut shift = 6;
    while b[n - 1] & 0x80 != 0 && n < b.len() { v |= ((b[n] & 0x7f) as i64) << shift; shift += 7; n += 1; }
    (if neg { -v } else { v }, n)
}

//@unit props=C16 label=S tier=quick fn=havok::binary_tag_file_reader::HavokBinaryTagFileReader::read_packed_int bound="encodings of 1, 2 or 3 bytes (continuation bit clear in the last), all contents"
//@desc packed integer = sign bit 0, 6 + 7k payload bits little-end first, continuation in bit 7; exactly the encoding's bytes are consumed
#[kani::proof]
#[kani::unwind(5)]
fn k_havok_packed_int() {
    let b: [u8; 4] = kani::any();
    kani::assume(b[0] & 0x80 == 0 || b[1] & 0x80 == 0 || b[2] & 0x80 == 0);
    let mut rd = HavokBinaryTagFileReader::new(ByteReader::new(&b));
    let got = rd.read_packed_int();
    let (want, n) = spec_packed(&b[..3]);
    assert!(got as i64 == want, "packed integer value");
    assert!(rd.reader.raw().len() == 4 - n, "bytes consumed");
    kani::cover!(b[0] & 0x80 != 0 && b[1] & 0x80 != 0, "reachable");
    core::mem::forget(rd);
}

fn bit_field_contract<const N: usize>() {
    let b: [u8; 2] = kani::any();
    let mut rd = HavokBinaryTagFileReader::new(ByteReader::new(&b));
    let bits = rd.read_bit_field(N);
    assert!(bits.len() == N, "n bits");
    let i: usize = kani::any();
    kani::assume(i < N);
    assert!(bits[i] == ((b[i / 8] >> (i % 8)) & 1 == 1), "bit i, LSB first");
    assert!(rd.reader.raw().len() == 2 - (N + 7) / 8, "ceil(n/8) bytes consumed");
    kani::cover!(true, "reachable");
    core::mem::forget(rd); core::mem::forget(bits);
}

//@unit props=C16 label=S tier=quick fn=havok::binary_tag_file_reader::HavokBinaryTagFileReader::read_bit_field bound="bit count 5 over 2 symbolic bytes"
//@desc a bit field of n bits occupies ceil(n/8) bytes and bit i is bit (i mod 8) of byte (i div 8), least significant first
#[kani::proof]
#[kani::unwind(18)]
fn k_havok_bit_field_5() { bit_field_contract::<5>(); }

//@unit props=C16 label=S tier=quick fn=havok::binary_tag_file_reader::HavokBinaryTagFileReader::read_bit_field bound="bit count 12 over 2 symbolic bytes"
//@desc same contract across a byte boundary
#[kani::proof]
#[kani::unwind(18)]
fn k_havok_bit_field_12() { bit_field_contract::<12>(); }

//@unit props=C16 label=S tier=quick fn=havok::binary_tag_file_reader::HavokBinaryTagFileReader::read_bit_field bound="bit count 8 over 2 symbolic bytes (an exact multiple of 8: one byte, not two)"
//@desc same contract at an exact byte multiple
#[kani::proof]
#[kani::unwind(18)]
fn k_havok_bit_field_8() { bit_field_contract::<8>(); }

//@unit props=C16 label=S tier=quick fn=havok::binary_tag_file_reader::HavokBinaryTagFileReader::read_bit_field bound="bit count 16 over 2 symbolic bytes (all of the data)"
//@desc same contract when the field takes every remaining byte
#[kani::proof]
#[kani::unwind(18)]
fn k_havok_bit_field_16() { bit_field_contract::<16>(); }

//@unit props=C18 label=S tier=quick fn=havok::binary_tag_file_reader::HavokBinaryTagFileReader::read_packed_int bound="6 bytes, all contents (up to five continuation bytes)"
//@desc a packed integer with many continuation bytes or one that runs off the end of the data must not crash the reader
#[kani::proof]
#[kani::unwind(8)]
fn k_havok_packed_int_nopanic() {
    let b: [u8; 6] = kani::any();
    let mut rd = HavokBinaryTagFileReader::new(ByteReader::new(&b));
    let _ = rd.read_packed_int();
    kani::cover!(true, "reachable");
    core::mem::forget(rd);
}
