//@module src/exl.rs
use super::*;

//@use_common

//@unit props=C17 label=B tier=quick native=1 fn=exl::EXL::from_existing bound="by execution: resources/tests/test.exl and a 4-line list: every truncation and 7 single-byte corruptions per byte, plus ',' CR LF written over each byte"
//@desc damaged Excel list text (truncated anywhere, any byte damaged, missing comma or id, invalid UTF-8) yields None or a value, never a panic
#[test]
fn native_exl_damaged_nopanic() {
    let f = |b: &[u8]| { let _ = EXL::from_existing(b); };
    let mut cases = 0u64;
    for v in [native_resource("test.exl"), b"EXLT,2\r\nAchievement,209\r\n#comment,-1\r\nopening/OpeningLimsaLominsa,4294967295\r\n".to_vec()] {
        cases += native_sweep(&v, 4096, 1, &f);
        let mut w = v.clone();
        for i in 0..v.len() {
            for c in [b',', b'\r', b'\n', b'-'] { w[i] = c; native_try(&f, &w, &format!("byte {i} overwritten with {c:#04x}")); cases += 1; }
            w[i] = v[i];
        }
    }
    for s in ["", ",", "EXLT", "EXLT,", "EXLT,x", "a,99999999999999999999", "a,-1", "a,", ",1"] { native_try(&f, s.as_bytes(), "short text"); cases += 1; }
    println!("NATIVE native_exl_damaged_nopanic cases={cases}");
}

//@unit props=C08 label=B tier=quick native=1 fn=exl::EXL::{from_existing,write_to_buffer,contains} bound="by execution: lists with versions {0, 2, -1, i32::MAX, i32::MIN} x 0..5 entries (ids over {0, 1, -1, 209, i32::MAX, i32::MIN}, names with '/', spaces and non-ASCII text), with and without interleaved comment rows; resources/tests/test.exl"
//@desc write renders EXLT,version then LF name,id per entry; parsing a written list returns the same version and entries in the same order; comment rows are skipped; writing a parsed canonical list reproduces it byte for byte; contains agrees with the entries
#[test]
fn native_exl_roundtrip() {
    let mut cases = 0u64;
    let names = ["Achievement", "opening/OpeningLimsaLominsa", "Foo Bar", "quest/000/ClsArc000_00021", "名前", "x"];
    let ids = [0i32, 1, -1, 209, i32::MAX, i32::MIN];
    let canon = native_resource("test.exl");
    let pc = EXL::from_existing(&canon).expect("parses");
    assert_eq!(pc.write_to_buffer().unwrap(), canon, "writing the parsed canonical list reproduces it byte for byte");
    for version in [0i32, 2, -1, i32::MAX, i32::MIN] {
        for n in 0..=5usize {
            for shift in 0..3usize {
                let entries: Vec<(String, i32)> = (0..n).map(|i| (names[(i + shift) % names.len()].to_string(), ids[(i * 2 + shift) % ids.len()])).collect();
                let mut text = format!("EXLT,{version}");
                for (k, v) in entries.iter() { text.push_str(&format!("\n{k},{v}")); }
                let built = EXL { version, entries: entries.clone() };
                assert_eq!(built.write_to_buffer().unwrap(), text.as_bytes(), "written text");
                let p = EXL::from_existing(text.as_bytes()).expect("a written list parses");
                assert_eq!((p.version, &p.entries), (version, &entries), "version and entries in the same order");
                assert_eq!(p.write_to_buffer().unwrap(), text.as_bytes(), "write(parse(text)) == text");
                for (k, _) in entries.iter() { assert!(p.contains(k), "contains({k:?})"); }
                assert!(!p.contains("NoSuchSheet") && !p.contains("EXLT") && !p.contains("#comment"));
                // the same list with comment rows and CRLF line ends parses to the same entries
                let mut noisy = format!("EXLT,{version}\r\n#header comment,-1");
                for (k, v) in entries.iter() { noisy.push_str(&format!("\r\n{k},{v}\r\n#{k},{v}")); }
                let q = EXL::from_existing(noisy.as_bytes()).expect("parses");
                assert_eq!((q.version, &q.entries), (version, &entries), "comment rows are skipped");
                cases += 1;
            }
        }
    }
    println!("NATIVE native_exl_roundtrip cases={cases}");
}
