//@module src/exl.rs
use super::*;

//@use_common

//@unit props=C17 label=B tier=quick native=1 fn=exl::EXL::from_existing bound="by execution: resources/tests/test.exl and a 4-line list: every truncation and 7 single-byte corruptions per byte, plus ',' CR LF written over each byte"
//@desc damaged Excel list text (truncated anywhere, any byte damaged, missing comma or id, invalid UTF-8) yields None or a value, never a panic
#[test]
fn native_exl_damaged_nopanic() {
    let f = |b: &[u8]| { let _ = EXL::from_existing(b); };
    let mut cases = 0u64;
    for v in [native_resource("test.exl"), b"EXLT,2\r\nAchievement,209\r\n#comment,-1\r\nopening/OpeningLimsaLominsa,4294967295\r\n".to_vec()] {
        cases += native_sweep(&v, 4096, 1, &f);
        let mut w = v.clone();
        for i in 0..v.len() {
            for c in [b',', b'\r', b'\n', b'-'] { w[i] = c; native_try(&f, &w, &format!("byte {i} overwritten with {c:#04x}")); cases += 1; }
            w[i] = v[i];
        }
    }
    for s in ["", ",", "EXLT", "EXLT,", "EXLT,x", "a,99999999999999999999", "a,-1", "a,", ",1"] { native_try(&f, s.as_bytes(), "short text"); cases += 1; }
    println!("NATIVE native_exl_damaged_nopanic cases={cases}");
}
