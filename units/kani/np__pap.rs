//@module src/pap.rs
//@modname np
use super::*;

fn np_stub_fmt(_a: core::fmt::Arguments<'_>) -> String { String::new() }

//@unit props=C18 label=S tier=thorough fn=pap::Pap::from_existing bound="buffers of exactly 0 bytes, all contents" stubs=fmt::format
//@desc a file this short is rejected (or yields a best-effort value); parsing never panics
#[kani::proof]
#[kani::unwind(10)]
#[kani::stub(alloc::fmt::format, np_stub_fmt)]
fn k_np_pap_0() {
    let b: [u8; 1] = kani::any();
    if let Some(v) = Pap::from_existing(&b[..0]) { core::mem::forget(v); }
    kani::cover!(true, "reachable");
}

//@unit props=C18 label=S tier=thorough fn=pap::Pap::from_existing bound="buffers of exactly 8 bytes, all contents" stubs=fmt::format
//@desc a file this short is rejected (or yields a best-effort value); parsing never panics
#[kani::proof]
#[kani::unwind(10)]
#[kani::stub(alloc::fmt::format, np_stub_fmt)]
fn k_np_pap_8() {
    let b: [u8; 8] = kani::any();
    if let Some(v) = Pap::from_existing(&b[..]) { core::mem::forget(v); }
    kani::cover!(true, "reachable");
}
