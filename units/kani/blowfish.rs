//@module src/blowfish/mod.rs
use super::*;

// Model of the two (private) pair functions used when verifying the *framing* code (pad_buffer / encrypt / decrypt):
// a fixed bijection on (u32, u32) and its inverse.  The pair functions themselves are proved against textbook
// Blowfish in the Verus unit `blowfish` (encrypt_pair/decrypt_pair contracts), so here the callers see a model only.
fn model_enc(_s: &Blowfish, l: u32, r: u32) -> (u32, u32) { (r.rotate_left(5) ^ 0x9E37_79B9, l.wrapping_add(0x1234_5678)) }
fn model_dec(_s: &Blowfish, l: u32, r: u32) -> (u32, u32) { (r.wrapping_sub(0x1234_5678), (l ^ 0x9E37_79B9).rotate_right(5)) }

//@kani_only_begin
fn framing<const N: usize, const P: usize>() {
    let fish = Blowfish { p: [0; 18], s: [[0; 256]; 4] };
    let m: [u8; N] = kani::any();
    let c = fish.encrypt(&m).unwrap();
    assert!(c.len() == P, "ciphertext length is the message length rounded up to a multiple of 8");
    let mut padded = [0u8; P];
    let mut i = 0; while i < N { padded[i] = m[i]; i += 1; }
    let mut k = 0;
    while k < P / 8 {
        let l = u32::from_le_bytes([padded[8 * k], padded[8 * k + 1], padded[8 * k + 2], padded[8 * k + 3]]);
        let r = u32::from_le_bytes([padded[8 * k + 4], padded[8 * k + 5], padded[8 * k + 6], padded[8 * k + 7]]);
        let (el, er) = model_enc(&fish, l, r);
        let eb = [el.to_le_bytes(), er.to_le_bytes()];
        let mut q = 0;
        while q < 4 {
            assert!(c[8 * k + q] == eb[0][q], "block k, left word: pair function of the two little-endian words of the zero-padded block, little-endian");
            assert!(c[8 * k + 4 + q] == eb[1][q], "block k, right word");
            q += 1;
        }
        k += 1;
    }
    let d = fish.decrypt(&c).unwrap();
    assert!(d.len() == P, "decrypted length");
    let mut i = 0; while i < P { assert!(d[i] == padded[i], "decrypt(encrypt(m)) is m zero-padded"); i += 1; }
    kani::cover!(true, "reachable");
}

macro_rules! framing_harness {
    ($name:ident, $n:expr, $p:expr) => {
        #[kani::proof]
        #[kani::unwind(26)]
        #[kani::stub(Blowfish::encrypt_pair, model_enc)]
        #[kani::stub(Blowfish::decrypt_pair, model_dec)]
        fn $name() { framing::<$n, $p>(); }
    };
}

//@unit name=k_bf_framing_0 props=C11,C17 label=S tier=quick fn=blowfish::Blowfish::{pad_buffer,encrypt,decrypt} bound="message length 0" stubs=encrypt_pair,decrypt_pair
//@desc framing for an empty message: empty ciphertext, no panic
framing_harness!(k_bf_framing_0, 0, 0);

//@unit name=k_bf_framing_1 props=C11,C17 label=S tier=quick fn=blowfish::Blowfish::{pad_buffer,encrypt,decrypt} bound="message length 1" stubs=encrypt_pair,decrypt_pair
//@desc output length = 8; block = pair function on the LE words of the zero-padded block, LE-serialised; decrypt(encrypt(m)) = padded m
framing_harness!(k_bf_framing_1, 1, 8);

//@unit name=k_bf_framing_7 props=C11,C17 label=S tier=quick fn=blowfish::Blowfish::{pad_buffer,encrypt,decrypt} bound="message length 7" stubs=encrypt_pair,decrypt_pair
//@desc as above, length 7
framing_harness!(k_bf_framing_7, 7, 8);

//@unit name=k_bf_framing_8 props=C11,C17 label=S tier=quick fn=blowfish::Blowfish::{pad_buffer,encrypt,decrypt} bound="message length 8" stubs=encrypt_pair,decrypt_pair
//@desc as above, length 8 (no padding added)
framing_harness!(k_bf_framing_8, 8, 8);

//@unit name=k_bf_framing_9 props=C11,C17 label=S tier=quick fn=blowfish::Blowfish::{pad_buffer,encrypt,decrypt} bound="message length 9" stubs=encrypt_pair,decrypt_pair
//@desc as above, length 9 (two blocks)
framing_harness!(k_bf_framing_9, 9, 16);

//@unit name=k_bf_framing_13 props=C11,C17 label=S tier=quick fn=blowfish::Blowfish::{pad_buffer,encrypt,decrypt} bound="message length 13" stubs=encrypt_pair,decrypt_pair
//@desc as above, length 13
framing_harness!(k_bf_framing_13, 13, 16);

//@unit name=k_bf_framing_2 props=C11,C17 label=S tier=thorough fn=blowfish::Blowfish::{pad_buffer,encrypt,decrypt} bound="message length 2" stubs=encrypt_pair,decrypt_pair
//@desc as above, length 2
framing_harness!(k_bf_framing_2, 2, 8);

//@unit name=k_bf_framing_3 props=C11,C17 label=S tier=thorough fn=blowfish::Blowfish::{pad_buffer,encrypt,decrypt} bound="message length 3" stubs=encrypt_pair,decrypt_pair
//@desc as above, length 3
framing_harness!(k_bf_framing_3, 3, 8);

//@unit name=k_bf_framing_4 props=C11,C17 label=S tier=thorough fn=blowfish::Blowfish::{pad_buffer,encrypt,decrypt} bound="message length 4" stubs=encrypt_pair,decrypt_pair
//@desc as above, length 4
framing_harness!(k_bf_framing_4, 4, 8);

//@unit name=k_bf_framing_5 props=C11,C17 label=S tier=thorough fn=blowfish::Blowfish::{pad_buffer,encrypt,decrypt} bound="message length 5" stubs=encrypt_pair,decrypt_pair
//@desc as above, length 5
framing_harness!(k_bf_framing_5, 5, 8);

//@unit name=k_bf_framing_6 props=C11,C17 label=S tier=thorough fn=blowfish::Blowfish::{pad_buffer,encrypt,decrypt} bound="message length 6" stubs=encrypt_pair,decrypt_pair
//@desc as above, length 6
framing_harness!(k_bf_framing_6, 6, 8);

//@unit name=k_bf_framing_10 props=C11,C17 label=S tier=thorough fn=blowfish::Blowfish::{pad_buffer,encrypt,decrypt} bound="message length 10" stubs=encrypt_pair,decrypt_pair
//@desc as above, length 10
framing_harness!(k_bf_framing_10, 10, 16);

//@unit name=k_bf_framing_11 props=C11,C17 label=S tier=thorough fn=blowfish::Blowfish::{pad_buffer,encrypt,decrypt} bound="message length 11" stubs=encrypt_pair,decrypt_pair
//@desc as above, length 11
framing_harness!(k_bf_framing_11, 11, 16);

//@unit name=k_bf_framing_12 props=C11,C17 label=S tier=thorough fn=blowfish::Blowfish::{pad_buffer,encrypt,decrypt} bound="message length 12" stubs=encrypt_pair,decrypt_pair
//@desc as above, length 12
framing_harness!(k_bf_framing_12, 12, 16);

//@unit name=k_bf_framing_14 props=C11,C17 label=S tier=thorough fn=blowfish::Blowfish::{pad_buffer,encrypt,decrypt} bound="message length 14" stubs=encrypt_pair,decrypt_pair
//@desc as above, length 14
framing_harness!(k_bf_framing_14, 14, 16);

//@unit name=k_bf_framing_15 props=C11,C17 label=S tier=thorough fn=blowfish::Blowfish::{pad_buffer,encrypt,decrypt} bound="message length 15" stubs=encrypt_pair,decrypt_pair
//@desc as above, length 15
framing_harness!(k_bf_framing_15, 15, 16);

//@unit name=k_bf_framing_16 props=C11,C17 label=S tier=thorough fn=blowfish::Blowfish::{pad_buffer,encrypt,decrypt} bound="message length 16" stubs=encrypt_pair,decrypt_pair
//@desc as above, length 16
framing_harness!(k_bf_framing_16, 16, 16);

//@unit name=k_bf_framing_17 props=C11,C17 label=S tier=thorough fn=blowfish::Blowfish::{pad_buffer,encrypt,decrypt} bound="message length 17" stubs=encrypt_pair,decrypt_pair
//@desc as above, length 17 (three blocks)
framing_harness!(k_bf_framing_17, 17, 24);

//@unit name=k_bf_framing_24 props=C11,C17 label=S tier=thorough fn=blowfish::Blowfish::{pad_buffer,encrypt,decrypt} bound="message length 24" stubs=encrypt_pair,decrypt_pair
//@desc as above, length 24
framing_harness!(k_bf_framing_24, 24, 24);

fn spec_f(s: &[[u32; 256]; 4], x: u32) -> u32 {
    (s[0][(x >> 24) as usize].wrapping_add(s[1][((x >> 16) & 0xFF) as usize]) ^ s[2][((x >> 8) & 0xFF) as usize]).wrapping_add(s[3][(x & 0xFF) as usize])
}
fn spec_encrypt(p: &[u32; 18], s: &[[u32; 256]; 4], mut l: u32, mut r: u32) -> (u32, u32) {
    // textbook Blowfish: 16 rounds of (xL ^= P[i]; xR ^= F(xL); swap), undo last swap, xR ^= P[16], xL ^= P[17]
    let mut i = 0;
    while i < 16 { l ^= p[i]; r ^= spec_f(s, l); let t = l; l = r; r = t; i += 1; }
    let t = l; l = r; r = t;
    r ^= p[16]; l ^= p[17];
    (l, r)
}

//@unit props=C11 label=B tier=parked fn=blowfish::Blowfish::{encrypt_pair,decrypt_pair} bound="cipher state = the initial pi tables (no key schedule), all 2^64 blocks (bounded counterexample finder paired with the unbounded Verus unit blowfish)"
//@desc encrypt_pair equals the textbook 16-round network and decrypt_pair inverts it, on the un-keyed pi tables
#[kani::proof]
#[kani::unwind(18)]
fn k_blowfish_pairs_pi_tables() {
    let fish = Blowfish { p: BLOWFISH_P, s: BLOWFISH_S };
    let (l, r): (u32, u32) = (kani::any(), kani::any());
    let e = fish.encrypt_pair(l, r);
    assert!(e == spec_encrypt(&fish.p, &fish.s, l, r), "encrypt_pair is the textbook network");
    assert!(fish.decrypt_pair(e.0, e.1) == (l, r), "decrypt_pair inverts encrypt_pair");
    kani::cover!(true, "reachable");
}

//@kani_only_end
/// textbook Blowfish (Schneier 1993) over the crate's pi tables (whose 1042 words the Verus unit checks against the digits of pi): key schedule over key[0..8] and the 16-round network, written independently of the code under contract
struct NbfRef { p: [u32; 18], s: [[u32; 256]; 4] }
impl NbfRef {
    fn f(&self, x: u32) -> u32 { ((self.s[0][(x >> 24) as usize].wrapping_add(self.s[1][((x >> 16) & 0xFF) as usize])) ^ self.s[2][((x >> 8) & 0xFF) as usize]).wrapping_add(self.s[3][(x & 0xFF) as usize]) }
    fn enc(&self, mut l: u32, mut r: u32) -> (u32, u32) { for i in 0..16 { l ^= self.p[i]; r ^= self.f(l); std::mem::swap(&mut l, &mut r); } std::mem::swap(&mut l, &mut r); r ^= self.p[16]; l ^= self.p[17]; (l, r) }
    fn dec(&self, mut l: u32, mut r: u32) -> (u32, u32) { for i in (2..18).rev() { l ^= self.p[i]; r ^= self.f(l); std::mem::swap(&mut l, &mut r); } std::mem::swap(&mut l, &mut r); r ^= self.p[1]; l ^= self.p[0]; (l, r) }
    fn new(key: &[u8]) -> Self {
        let mut b = NbfRef { p: constants::BLOWFISH_P, s: constants::BLOWFISH_S };
        let mut j = 0usize;
        for i in 0..18 { let mut d = 0u32; for _ in 0..4 { d = (d << 8) | key[j % 8] as u32; j += 1; } b.p[i] ^= d; }
        let (mut l, mut r) = (0u32, 0u32);
        for i in 0..9 { let (a, c) = b.enc(l, r); b.p[2 * i] = a; b.p[2 * i + 1] = c; l = a; r = c; }
        for k in 0..4 { for i in 0..128 { let (a, c) = b.enc(l, r); b.s[k][2 * i] = a; b.s[k][2 * i + 1] = c; l = a; r = c; } }
        b
    }
}

//@unit props=C11 label=B tier=quick native=1 fn=blowfish::Blowfish::{new,encrypt,decrypt,pad_buffer} bound="by execution: 33 published ECB test vectors (Eric Young's set, 8-byte keys); 6 keys of 8..56 bytes x every message length 0..=200 (ascending) and 64..=0 (descending, interleaved with longer calls, one instance per key) against a textbook implementation"
//@desc encrypt pads with zeros to a multiple of 8, takes each block as two little-endian words, applies standard Blowfish (key schedule over the first 8 key bytes) and emits two little-endian words per block in order; decrypt inverts it; the published vectors hold
#[test]
fn native_blowfish_messages() {
    let mut cases = 0u64;
    let vectors: [(u64, u64, u64); 33] = [(0x0000000000000000, 0x0000000000000000, 0x4EF997456198DD78), (0xFFFFFFFFFFFFFFFF, 0xFFFFFFFFFFFFFFFF, 0x51866FD5B85ECB8A), (0x3000000000000000, 0x1000000000000001, 0x7D856F9A613063F2), (0x1111111111111111, 0x1111111111111111, 0x2466DD878B963C9D),
        (0x0123456789ABCDEF, 0x1111111111111111, 0x61F9C3802281B096), (0x1111111111111111, 0x0123456789ABCDEF, 0x7D0CC630AFDA1EC7), (0xFEDCBA9876543210, 0x0123456789ABCDEF, 0x0ACEAB0FC6A0A28D), (0x7CA110454A1A6E57, 0x01A1D6D039776742, 0x59C68245EB05282B),
        (0x0131D9619DC1376E, 0x5CD54CA83DEF57DA, 0xB1B8CC0B250F09A0), (0x07A1133E4A0B2686, 0x0248D43806F67172, 0x1730E5778BEA1DA4), (0x3849674C2602319E, 0x51454B582DDF440A, 0xA25E7856CF2651EB), (0x04B915BA43FEB5B6, 0x42FD443059577FA2, 0x353882B109CE8F1A),
        (0x0113B970FD34F2CE, 0x059B5E0851CF143A, 0x48F4D0884C379918), (0x0170F175468FB5E6, 0x0756D8E0774761D2, 0x432193B78951FC98), (0x43297FAD38E373FE, 0x762514B829BF486A, 0x13F04154D69D1AE5), (0x07A7137045DA2A16, 0x3BDD119049372802, 0x2EEDDA93FFD39C79),
        (0x04689104C2FD3B2F, 0x26955F6835AF609A, 0xD887E0393C2DA6E3), (0x37D06BB516CB7546, 0x164D5E404F275232, 0x5F99D04F5B163969), (0x1F08260D1AC2465E, 0x6B056E18759F5CCA, 0x4A057A3B24D3977B), (0x584023641ABA6176, 0x004BD6EF09176062, 0x452031C1E4FADA8E),
        (0x025816164629B007, 0x480D39006EE762F2, 0x7555AE39F59B87BD), (0x49793EBC79B3258F, 0x437540C8698F3CFA, 0x53C55F9CB49FC019), (0x4FB05E1515AB73A7, 0x072D43A077075292, 0x7A8E7BFA937E89A3), (0x49E95D6D4CA229BF, 0x02FE55778117F12A, 0xCF9C5D7A4986ADB5),
        (0x018310DC409B26D6, 0x1D9D5C5018F728C2, 0xD1ABB290658BC778), (0x1C587F1C13924FEF, 0x305532286D6F295A, 0x55CB3774D13EF201), (0x0101010101010101, 0x0123456789ABCDEF, 0xFA34EC4847B268B2), (0x1F1F1F1F0E0E0E0E, 0x0123456789ABCDEF, 0xA790795108EA3CAE),
        (0xE0FEE0FEF1FEF1FE, 0x0123456789ABCDEF, 0xC39E072D9FAC631D), (0x0000000000000000, 0xFFFFFFFFFFFFFFFF, 0x014933E0CDAFF6E4), (0xFFFFFFFFFFFFFFFF, 0x0000000000000000, 0xF21E9A77B71C49BC), (0x0123456789ABCDEF, 0x0000000000000000, 0x245946885754369A),
        (0xFEDCBA9876543210, 0xFFFFFFFFFFFFFFFF, 0x6B5C5A9C5D9E0A5A)];
    let le_block = |v: u64| -> [u8; 8] { let mut o = [0u8; 8]; o[..4].copy_from_slice(&((v >> 32) as u32).to_le_bytes()); o[4..].copy_from_slice(&(v as u32).to_le_bytes()); o };
    for (key, plain, cipher) in vectors.iter() {
        let bf = Blowfish::new(&key.to_be_bytes());
        assert_eq!(bf.encrypt(&le_block(*plain)).expect("encrypt"), le_block(*cipher), "published vector: key {key:016X}, plaintext {plain:016X}");
        assert_eq!(bf.decrypt(&le_block(*cipher)).expect("decrypt"), le_block(*plain), "published vector (decrypt): key {key:016X}");
        cases += 1;
    }
    let keys: [&[u8]; 6] = [b"test_cas", b"test_case", &[0x80, 0xFF, 0x00, 0x7F, 0x81, 0xFE, 0x01, 0xC3], b"a much longer key than Blowfish's first eight bytes need", &[0xFF; 8], &[0, 0, 0, 0, 0, 0, 0, 1]];
    for (ki, key) in keys.iter().enumerate() {
        let (bf, rf) = (Blowfish::new(key), NbfRef::new(key));
        for n in 0..=200usize {
            let msg: Vec<u8> = (0..n).map(|i| (i * 31 + ki * 7 + n) as u8).collect();
            let mut padded = msg.clone(); while padded.len() % 8 != 0 { padded.push(0); }
            let mut want = vec![];
            for b in padded.chunks(8) { let (l, r) = rf.enc(u32::from_le_bytes(b[0..4].try_into().unwrap()), u32::from_le_bytes(b[4..8].try_into().unwrap())); want.extend_from_slice(&l.to_le_bytes()); want.extend_from_slice(&r.to_le_bytes()); }
            let got = bf.encrypt(&msg).expect("encrypt");
            assert!(got == want, "key {ki}, {n}-byte message: ciphertext = zero-padded blocks through standard Blowfish, little-endian words, in order");
            assert!(bf.decrypt(&got).expect("decrypt") == padded, "key {ki}, {n}-byte message: decrypt(encrypt(m)) = m zero-padded");
            let mut back = vec![];
            for b in got.chunks(8) { let (l, r) = rf.dec(u32::from_le_bytes(b[0..4].try_into().unwrap()), u32::from_le_bytes(b[4..8].try_into().unwrap())); back.extend_from_slice(&l.to_le_bytes()); back.extend_from_slice(&r.to_le_bytes()); }
            assert!(back == padded, "the reference decrypts it too");
            cases += 1;
        }
        // the result is a function of (key, message) only: one instance used for messages of DEcreasing length, with decryptions in between, gives what a fresh instance gives
        for n in (0..=64usize).rev() {
            let msg: Vec<u8> = (0..n).map(|i| (i * 29 + ki * 11 + n + 1) as u8).collect();
            let fresh = Blowfish::new(key).encrypt(&msg).expect("encrypt");
            assert!(bf.encrypt(&msg).expect("encrypt") == fresh, "key {ki}, {n}-byte message after longer ones on the same instance: same ciphertext as on a fresh instance");
            if n % 3 == 0 { let long = vec![0xA5u8; 72]; let _ = bf.decrypt(&long); let _ = bf.encrypt(&long[..61]); }
            cases += 1;
        }
    }
    println!("NATIVE native_blowfish_messages cases={cases}");
}
