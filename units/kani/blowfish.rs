//@module src/blowfish/mod.rs
use super::*;

// Model of the two (private) pair functions used when verifying the *framing* code (pad_buffer / encrypt / decrypt):
// a fixed bijection on (u32, u32) and its inverse.  The pair functions themselves are proved against textbook
// Blowfish in the Verus unit `blowfish` (encrypt_pair/decrypt_pair contracts), so here the callers see a model only.
fn model_enc(_s: &Blowfish, l: u32, r: u32) -> (u32, u32) { (r.rotate_left(5) ^ 0x9E37_79B9, l.wrapping_add(0x1234_5678)) }
fn model_dec(_s: &Blowfish, l: u32, r: u32) -> (u32, u32) { (r.wrapping_sub(0x1234_5678), (l ^ 0x9E37_79B9).rotate_right(5)) }

fn framing<const N: usize, const P: usize>() {
    let fish = Blowfish { p: [0; 18], s: [[0; 256]; 4] };
    let m: [u8; N] = kani::any();
    let c = fish.encrypt(&m).unwrap();
    assert!(c.len() == P, "ciphertext length is the message length rounded up to a multiple of 8");
    let mut padded = [0u8; P];
    let mut i = 0; while i < N { padded[i] = m[i]; i += 1; }
    let mut k = 0;
    while k < P / 8 {
        let l = u32::from_le_bytes([padded[8 * k], padded[8 * k + 1], padded[8 * k + 2], padded[8 * k + 3]]);
        let r = u32::from_le_bytes([padded[8 * k + 4], padded[8 * k + 5], padded[8 * k + 6], padded[8 * k + 7]]);
        let (el, er) = model_enc(&fish, l, r);
        let eb = [el.to_le_bytes(), er.to_le_bytes()];
        let mut q = 0;
        while q < 4 {
            assert!(c[8 * k + q] == eb[0][q], "block k, left word: pair function of the two little-endian words of the zero-padded block, little-endian");
            assert!(c[8 * k + 4 + q] == eb[1][q], "block k, right word");
            q += 1;
        }
        k += 1;
    }
    let d = fish.decrypt(&c).unwrap();
    assert!(d.len() == P, "decrypted length");
    let mut i = 0; while i < P { assert!(d[i] == padded[i], "decrypt(encrypt(m)) is m zero-padded"); i += 1; }
    kani::cover!(true, "reachable");
}

macro_rules! framing_harness {
    ($name:ident, $n:expr, $p:expr) => {
        #[kani::proof]
        #[kani::unwind(26)]
        #[kani::stub(Blowfish::encrypt_pair, model_enc)]
        #[kani::stub(Blowfish::decrypt_pair, model_dec)]
        fn $name() { framing::<$n, $p>(); }
    };
}

//@unit name=k_bf_framing_0 props=C11,C17 label=S tier=quick fn=blowfish::Blowfish::{pad_buffer,encrypt,decrypt} bound="message length 0" stubs=encrypt_pair,decrypt_pair
//@desc framing for an empty message: empty ciphertext, no panic
framing_harness!(k_bf_framing_0, 0, 0);

//@unit name=k_bf_framing_1 props=C11,C17 label=S tier=quick fn=blowfish::Blowfish::{pad_buffer,encrypt,decrypt} bound="message length 1" stubs=encrypt_pair,decrypt_pair
//@desc output length = 8; block = pair function on the LE words of the zero-padded block, LE-serialised; decrypt(encrypt(m)) = padded m
framing_harness!(k_bf_framing_1, 1, 8);

//@unit name=k_bf_framing_7 props=C11,C17 label=S tier=quick fn=blowfish::Blowfish::{pad_buffer,encrypt,decrypt} bound="message length 7" stubs=encrypt_pair,decrypt_pair
//@desc as above, length 7
framing_harness!(k_bf_framing_7, 7, 8);

//@unit name=k_bf_framing_8 props=C11,C17 label=S tier=quick fn=blowfish::Blowfish::{pad_buffer,encrypt,decrypt} bound="message length 8" stubs=encrypt_pair,decrypt_pair
//@desc as above, length 8 (no padding added)
framing_harness!(k_bf_framing_8, 8, 8);

//@unit name=k_bf_framing_9 props=C11,C17 label=S tier=quick fn=blowfish::Blowfish::{pad_buffer,encrypt,decrypt} bound="message length 9" stubs=encrypt_pair,decrypt_pair
//@desc as above, length 9 (two blocks)
framing_harness!(k_bf_framing_9, 9, 16);

//@unit name=k_bf_framing_13 props=C11,C17 label=S tier=quick fn=blowfish::Blowfish::{pad_buffer,encrypt,decrypt} bound="message length 13" stubs=encrypt_pair,decrypt_pair
//@desc as above, length 13
framing_harness!(k_bf_framing_13, 13, 16);

//@unit name=k_bf_framing_16 props=C11,C17 label=S tier=thorough fn=blowfish::Blowfish::{pad_buffer,encrypt,decrypt} bound="message length 16" stubs=encrypt_pair,decrypt_pair
//@desc as above, length 16
framing_harness!(k_bf_framing_16, 16, 16);

//@unit name=k_bf_framing_17 props=C11,C17 label=S tier=thorough fn=blowfish::Blowfish::{pad_buffer,encrypt,decrypt} bound="message length 17" stubs=encrypt_pair,decrypt_pair
//@desc as above, length 17 (three blocks)
framing_harness!(k_bf_framing_17, 17, 24);

//@unit name=k_bf_framing_24 props=C11,C17 label=S tier=thorough fn=blowfish::Blowfish::{pad_buffer,encrypt,decrypt} bound="message length 24" stubs=encrypt_pair,decrypt_pair
//@desc as above, length 24
framing_harness!(k_bf_framing_24, 24, 24);

fn spec_f(s: &[[u32; 256]; 4], x: u32) -> u32 {
    (s[0][(x >> 24) as usize].wrapping_add(s[1][((x >> 16) & 0xFF) as usize]) ^ s[2][((x >> 8) & 0xFF) as usize]).wrapping_add(s[3][(x & 0xFF) as usize])
}
fn spec_encrypt(p: &[u32; 18], s: &[[u32; 256]; 4], mut l: u32, mut r: u32) -> (u32, u32) {
    // textbook Blowfish: 16 rounds of (xL ^= P[i]; xR ^= F(xL); swap), undo last swap, xR ^= P[16], xL ^= P[17]
    let mut i = 0;
    while i < 16 { l ^= p[i]; r ^= spec_f(s, l); let t = l; l = r; r = t; i += 1; }
    let t = l; l = r; r = t;
    r ^= p[16]; l ^= p[17];
    (l, r)
}

//@unit props=C11 label=B tier=parked fn=blowfish::Blowfish::{encrypt_pair,decrypt_pair} bound="cipher state = the initial pi tables (no key schedule), all 2^64 blocks (bounded counterexample finder paired with the unbounded Verus unit blowfish)"
//@desc encrypt_pair equals the textbook 16-round network and decrypt_pair inverts it, on the un-keyed pi tables
#[kani::proof]
#[kani::unwind(18)]
fn k_blowfish_pairs_pi_tables() {
    let fish = Blowfish { p: BLOWFISH_P, s: BLOWFISH_S };
    let (l, r): (u32, u32) = (kani::any(), kani::any());
    let e = fish.encrypt_pair(l, r);
    assert!(e == spec_encrypt(&fish.p, &fish.s, l, r), "encrypt_pair is the textbook network");
    assert!(fish.decrypt_pair(e.0, e.1) == (l, r), "decrypt_pair inverts encrypt_pair");
    kani::cover!(true, "reachable");
}
