//@module src/sqpack/mod.rs
use super::*;
use std::io::Cursor;

fn stub_fmt(_a: core::fmt::Arguments<'_>) -> String { String::new() }

fn put32(b: &mut [u8], o: usize, v: u32) { b[o..o + 4].copy_from_slice(&v.to_le_bytes()); }

//@unit props=C02,C03 label=P tier=quick fn=sqpack::data::BlockHeader(derive read) stubs=fmt::format
//@desc all contents of a 20-byte window: size = LE word 0; mode word x at 8, length y at 12: x < 32000 means a compressed block (compressed_length x, decompressed_length y), otherwise a raw block of y bytes; the cursor ends right after the 16-byte header
#[kani::proof]
#[kani::unwind(4)]
#[kani::stub(alloc::fmt::format, stub_fmt)]
fn k_block_header_read() {
    let b: [u8; 20] = kani::any();
    let x = i32::from_le_bytes([b[8], b[9], b[10], b[11]]);
    let y = i32::from_le_bytes([b[12], b[13], b[14], b[15]]);
    let mut c = Cursor::new(&b[..]);
    match BlockHeader::read(&mut c) {
        Ok(h) => {
            assert!(h.size == u32::from_le_bytes([b[0], b[1], b[2], b[3]]), "header size word");
            match h.compression {
                CompressionMode::Compressed { compressed_length, decompressed_length } => assert!(x < 32000 && compressed_length == x && decompressed_length == y, "compressed block lengths"),
                CompressionMode::Uncompressed { file_size } => assert!(x >= 32000 && file_size == y, "raw block length"),
            }
            assert!(c.position() == 16, "16-byte header");
        }
        Err(e) => { core::mem::forget(e); assert!(false, "header parses"); }
    }
    kani::cover!(true, "reachable");
}

//@unit props=C03 label=P tier=quick fn=sqpack::data::BlockHeader(derive write) stubs=fmt::format
//@desc the writer emits 16 bytes: size, 4 zero bytes, mode word (32000 for raw, compressed length otherwise), length word
#[kani::proof]
#[kani::unwind(4)]
#[kani::stub(alloc::fmt::format, stub_fmt)]
fn k_block_header_write() {
    let size: u32 = kani::any();
    let (a, b): (i32, i32) = (kani::any(), kani::any());
    let raw: bool = kani::any();
    let h = BlockHeader { size, compression: if raw { CompressionMode::Uncompressed { file_size: b } } else { CompressionMode::Compressed { compressed_length: a, decompressed_length: b } } };
    let mut o = [0xEEu8; 24];
    let mut w = Cursor::new(&mut o[..]);
    match h.write(&mut w) { Ok(()) => {}, Err(e) => { core::mem::forget(e); assert!(false, "write"); } }
    assert!(u32::from_le_bytes([o[0], o[1], o[2], o[3]]) == size, "size word");
    assert!(o[4] == 0 && o[5] == 0 && o[6] == 0 && o[7] == 0, "padding");
    assert!(i32::from_le_bytes([o[8], o[9], o[10], o[11]]) == if raw { 32000 } else { a }, "mode word");
    assert!(i32::from_le_bytes([o[12], o[13], o[14], o[15]]) == b, "length word");
    kani::cover!(true, "reachable");
}

fn raw_block_contract<const START: usize, const LEN: usize, const TOTAL: usize>() {
    let mut img: [u8; TOTAL] = kani::any();
    put32(&mut img, START, 16);
    put32(&mut img, START + 4, 0);
    put32(&mut img, START + 8, 32000);
    put32(&mut img, START + 12, LEN as u32);
    match read_data_block(Cursor::new(&img[..]), START as u64) {
        Some(v) => {
            assert!(v.len() == LEN, "exactly file_size bytes");
            let mut i = 0;
            while i < LEN { assert!(v[i] == img[START + 16 + i], "the bytes that follow the header at starting_position"); i += 1; }
            core::mem::forget(v);
        }
        None => assert!(false, "a complete raw block is returned"),
    }
    kani::cover!(true, "reachable");
}

//@unit props=C02 label=S tier=quick fn=sqpack::read_data_block bound="raw block of 5 bytes at position 0 in a 32-byte image, all contents" stubs=fmt::format
//@desc a raw block yields exactly the file_size bytes that follow its 16-byte header
#[kani::proof]
#[kani::unwind(8)]
#[kani::stub(alloc::fmt::format, stub_fmt)]
fn k_read_data_block_raw_0() { raw_block_contract::<0, 5, 32>(); }

//@unit props=C02 label=S tier=quick fn=sqpack::read_data_block bound="raw block of 3 bytes at position 24 in a 48-byte image, all contents" stubs=fmt::format
//@desc the block is read at starting_position, not at the current position
#[kani::proof]
#[kani::unwind(8)]
#[kani::stub(alloc::fmt::format, stub_fmt)]
fn k_read_data_block_raw_24() { raw_block_contract::<24, 3, 48>(); }

static mut SEEN_IN: [u8; 4] = [0; 4];
static mut SEEN_IN_LEN: usize = 0;
static mut SEEN_OUT_LEN: usize = 0;
static mut MODEL_OK: bool = true;
fn model_decompress(in_data: &mut [u8], out_data: &mut [u8]) -> bool {
    unsafe {
        SEEN_IN_LEN = in_data.len();
        SEEN_OUT_LEN = out_data.len();
        let mut i = 0;
        while i < in_data.len() && i < 4 { SEEN_IN[i] = in_data[i]; i += 1; }
        let mut i = 0;
        while i < out_data.len() { out_data[i] = 0xA0 + i as u8; i += 1; }
        MODEL_OK
    }
}

//@unit props=C02 label=S tier=quick fn=sqpack::read_data_block bound="compressed block: compressed length 4, decompressed length 6, at position 0 in a 32-byte image, all contents; inflate modelled" stubs=no_header_decompress,fmt::format
//@desc the decompressor receives exactly the compressed_length bytes that follow the header and a destination of decompressed_length bytes; its output is returned; a failed decompression yields None
#[kani::proof]
#[kani::unwind(8)]
#[kani::stub(crate::compression::no_header_decompress, model_decompress)]
#[kani::stub(alloc::fmt::format, stub_fmt)]
fn k_read_data_block_compressed() {
    let mut img: [u8; 32] = kani::any();
    put32(&mut img, 0, 16); put32(&mut img, 4, 0); put32(&mut img, 8, 4); put32(&mut img, 12, 6);
    let ok: bool = kani::any();
    unsafe { MODEL_OK = ok; }
    let r = read_data_block(Cursor::new(&img[..]), 0);
    unsafe {
        assert!(SEEN_IN_LEN == 4 && SEEN_OUT_LEN == 6, "compressed_length bytes in, decompressed_length bytes out");
        assert!(SEEN_IN[0] == img[16] && SEEN_IN[1] == img[17] && SEEN_IN[2] == img[18] && SEEN_IN[3] == img[19], "the bytes that follow the header");
    }
    match r {
        Some(v) => { assert!(ok, "success only when inflate succeeded"); assert!(v.len() == 6 && v[0] == 0xA0 && v[5] == 0xA5, "the decompressor's output"); core::mem::forget(v); }
        None => assert!(!ok, "failed decompression yields nothing"),
    }
    kani::cover!(true, "reachable");
}

fn patch_block_roundtrip<const LEN: usize, const PADDED: usize>() {
    let data: [u8; LEN] = kani::any();
    let mut buf = [0u8; PADDED];
    {
        let mut w = Cursor::new(&mut buf[..]);
        write_data_block_patch(&mut w, data.to_vec());
        assert!(w.position() == 16 + LEN as u64, "header plus payload written");
    }
    assert!(u32::from_le_bytes([buf[8], buf[9], buf[10], buf[11]]) == 32000 && u32::from_le_bytes([buf[12], buf[13], buf[14], buf[15]]) == LEN as u32, "raw block header");
    let mut r = Cursor::new(&buf[..]);
    match read_data_block_patch(&mut r) {
        Some(v) => {
            assert!(v.len() == LEN, "payload length");
            let mut i = 0;
            while i < LEN { assert!(v[i] == data[i], "payload bytes"); i += 1; }
            assert!(r.position() == 16 + LEN as u64, "the reader consumes exactly the bytes the writer produced (its header size field makes the padding term zero)");
            core::mem::forget(v);
        }
        None => assert!(false, "block reads back"),
    }
    kani::cover!(true, "reachable");
}

//@unit props=C03 label=S tier=parked fn=sqpack::{write_data_block_patch,read_data_block_patch} bound="payload of 2 bytes, all contents" stubs=fmt::format
//@desc writing a block and reading it back is the identity and consumes exactly what was written
#[kani::proof]
#[kani::unwind(8)]
#[kani::stub(alloc::fmt::format, stub_fmt)]
fn k_patch_block_roundtrip_2() { patch_block_roundtrip::<2, 128>(); }

//@unit props=C03 label=S tier=parked fn=sqpack::{write_data_block_patch,read_data_block_patch} bound="payload of 113 bytes (first length that needs a second 128-byte unit), all contents" stubs=fmt::format
//@desc same contract across the 128-byte boundary: 112 payload bytes fit one unit, 113 need two
#[kani::proof]
#[kani::unwind(116)]
#[kani::stub(alloc::fmt::format, stub_fmt)]
fn k_patch_block_roundtrip_113() { patch_block_roundtrip::<113, 256>(); }

fn patch_block_compressed<const CL: u32, const PADDED: usize>() {
    // a deflated block in a patch: header (size 16), compressed length CL, decompressed length 6, then the stream padded to a 128-byte unit
    let mut img: [u8; 288] = kani::any();
    put32(&mut img, 0, 16); put32(&mut img, 4, 0); put32(&mut img, 8, CL); put32(&mut img, 12, 6);
    let ok: bool = kani::any();
    unsafe { MODEL_OK = ok; }
    let mut r = Cursor::new(&img[..]);
    let res = read_data_block_patch(&mut r);
    unsafe {
        assert!(SEEN_IN_LEN == PADDED - 16, "the stream handed to inflate runs to the end of the block's 128-byte units");
        assert!(SEEN_OUT_LEN == 6, "destination of decompressed_length bytes");
        assert!(SEEN_IN[0] == img[16] && SEEN_IN[3] == img[19], "the bytes that follow the header");
    }
    assert!(r.position() == PADDED as u64, "cursor left at the block boundary ((compressed_length + 143) & !127 from the block start)");
    match res {
        Some(v) => { assert!(ok && v.len() == 6, "the decompressor's output"); core::mem::forget(v); }
        None => assert!(!ok, "failed decompression yields nothing"),
    }
    kani::cover!(true, "reachable");
}

//@unit props=C03 label=S tier=quick fn=sqpack::read_data_block_patch bound="compressed block with compressed length 112 (header + stream end exactly on a 128-byte boundary), all contents; inflate modelled" stubs=no_header_decompress,fmt::format
//@desc a deflated patch block occupies (compressed_length + 143) & !127 bytes from its start: for length 112 that is exactly 128, with no extra padding unit
#[kani::proof]
#[kani::unwind(8)]
#[kani::stub(crate::compression::no_header_decompress, model_decompress)]
#[kani::stub(alloc::fmt::format, stub_fmt)]
fn k_patch_block_compressed_112() { patch_block_compressed::<112, 128>(); }

//@unit props=C03 label=S tier=quick fn=sqpack::read_data_block_patch bound="compressed block with compressed length 113 (needs a second 128-byte unit), all contents; inflate modelled" stubs=no_header_decompress,fmt::format
//@desc one byte more needs a second unit: 256 bytes
#[kani::proof]
#[kani::unwind(8)]
#[kani::stub(crate::compression::no_header_decompress, model_decompress)]
#[kani::stub(alloc::fmt::format, stub_fmt)]
fn k_patch_block_compressed_113() { patch_block_compressed::<113, 256>(); }

fn patch_block_raw<const LEN: usize, const PADDED: usize>() {
    // concrete zero image with symbolic first and last payload bytes (a fully symbolic 288-byte image times CBMC out on this branch)
    let mut img = [0u8; 288];
    let (first, last): (u8, u8) = (kani::any(), kani::any());
    put32(&mut img, 0, 16); put32(&mut img, 4, 0); put32(&mut img, 8, 32000); put32(&mut img, 12, LEN as u32);
    img[16] = first; img[16 + LEN - 1] = last;
    let mut r = Cursor::new(&img[..]);
    match read_data_block_patch(&mut r) {
        Some(v) => {
            assert!(v.len() == LEN, "exactly file_size bytes");
            assert!(v[0] == first && v[LEN - 1] == last, "the bytes that follow the header");
            assert!(r.position() == PADDED as u64, "cursor left at the 128-byte block boundary ((file_size + 143) & !127 from the block start)");
            core::mem::forget(v);
        }
        None => assert!(false, "a complete raw block is returned"),
    }
    kani::cover!(true, "reachable");
}

//@unit props=C03 label=S tier=parked fn=sqpack::read_data_block_patch bound="raw block of 112 bytes (header + payload end exactly on the 128-byte boundary); first and last payload byte symbolic" stubs=fmt::format
//@desc a raw patch block yields its file_size bytes and occupies (file_size + 143) & !127 bytes: 128 for 112 payload bytes
#[kani::proof]
#[kani::unwind(8)]
#[kani::stub(alloc::fmt::format, stub_fmt)]
fn k_patch_block_raw_112() { patch_block_raw::<112, 128>(); }

//@unit props=C03 label=S tier=parked fn=sqpack::read_data_block_patch bound="raw block of 113 bytes (needs a second 128-byte unit); first and last payload byte symbolic" stubs=fmt::format
//@desc one byte more needs a second unit: 256 bytes
#[kani::proof]
#[kani::unwind(8)]
#[kani::stub(alloc::fmt::format, stub_fmt)]
fn k_patch_block_raw_113() { patch_block_raw::<113, 256>(); }
