//@module src/race.rs
use super::*;

// ---- contracts placed on the real functions (Kani function contracts) ----
//@contract fn=get_supported_tribes
//@| #[cfg_attr(kani, kani::ensures(|t: &[Tribe; 2]| verif_units::post_tribes(race, t)))]

/// postcondition of get_supported_tribes, taken from the property statement ("every race has exactly its own two tribes":
/// tribes are numbered so that race r owns 2r-1 and 2r)
pub(super) fn post_tribes(race: Race, t: &[Tribe; 2]) -> bool {
    t[0] as u8 == 2 * (race as u8) - 1 && t[1] as u8 == 2 * (race as u8)
}

// Arbitrary values of the enums (needed so that callers can be verified against get_supported_tribes' *contract* only)
impl kani::Arbitrary for Tribe { fn any() -> Self { any_tribe() } }

fn any_race() -> Race {
    let c: u8 = kani::any();
    kani::assume(c >= 1 && c <= 8);
    Race::try_from(c).unwrap()
}
fn any_tribe() -> Tribe {
    let c: u8 = kani::any();
    kani::assume(c >= 1 && c <= 16);
    Tribe::try_from(c).unwrap()
}
fn any_gender() -> Gender {
    let c: u8 = kani::any();
    kani::assume(c <= 1);
    Gender::try_from(c).unwrap()
}

//@unit props=C15 label=P tier=quick fn=race::get_supported_tribes
//@desc contract on the real fn: race r owns exactly tribes 2r-1 and 2r (hence the tribe sets of different races are disjoint and cover all 16)
#[kani::proof_for_contract(get_supported_tribes)]
fn k_tribes_contract() {
    let r = any_race();
    let t = get_supported_tribes(r);
    assert!(post_tribes(r, &t), "race r owns exactly tribes 2r-1 and 2r"); // same predicate as the contract; this is what fails in a native replay
    kani::cover!(true, "reachable");
}

//@unit props=C15 label=P tier=quick fn=race::get_race_id
//@desc get_race_id is Some iff the tribe belongs to the race (tribe in {2r-1, 2r}); modular: the callee get_supported_tribes is replaced by its verified contract (stub_verified)
#[kani::proof]
#[kani::stub_verified(get_supported_tribes)]
fn k_race_id_defined() {
    let (r, t, g) = (any_race(), any_tribe(), any_gender());
    let (rc, tc) = (r as u8, t as u8);
    let id = get_race_id(r, t, g);
    let belongs = tc == 2 * rc - 1 || tc == 2 * rc;
    assert!(id.is_some() == belongs, "race id defined exactly for the race's own two tribes");
    kani::cover!(true, "reachable");
}

//@unit props=C15 label=P tier=quick fn=race::get_race_id
//@desc distinct body types never share a race code: equal codes imply equal (race, gender) and, for Hyur, equal tribe
#[kani::proof]
fn k_race_id_injective() {
    let (r1, t1, g1) = (any_race(), any_tribe(), any_gender());
    let (r2, t2, g2) = (any_race(), any_tribe(), any_gender());
    let (g1c, g2c) = (g1.clone() as u8, g2.clone() as u8);
    let a = get_race_id(r1, t1, g1);
    let b = get_race_id(r2, t2, g2);
    if a.is_some() && a == b {
        assert!(r1 == r2, "equal race codes imply equal race");
        assert!(g1c == g2c, "equal race codes imply equal gender");
        if r1 == Race::Hyur {
            assert!(t1 == t2, "equal Hyur race codes imply equal tribe");
        }
    }
    kani::cover!(a.is_some() && a == b, "reachable");
}

//@unit props=C15 label=P tier=quick fn=race::get_race_id
//@desc race codes have the documented form: 4 digits max, positive, last two digits 01 (so the {:04} path formatter is unambiguous)
#[kani::proof]
fn k_race_id_range() {
    let (r, t, g) = (any_race(), any_tribe(), any_gender());
    if let Some(id) = get_race_id(r, t, g) {
        assert!(id >= 101 && id <= 9999, "race code fits the 4-digit path field");
        assert!(id % 100 == 1, "race code ends in 01");
    }
    kani::cover!(true, "reachable");
}

//@unit props=C15,C09 label=P tier=quick fn=race::TryFrom<u8>
//@desc TryFrom<u8> for Race/Tribe/Gender accepts exactly codes 1..8 / 1..16 / 0..1 and maps each to the variant with that discriminant
#[kani::proof]
fn k_race_enums_tryfrom() {
    let c: u8 = kani::any();
    match Race::try_from(c) { Ok(v) => assert!(v as u8 == c && c >= 1 && c <= 8, "Race code"), Err(_) => assert!(c < 1 || c > 8, "Race reject") }
    match Tribe::try_from(c) { Ok(v) => assert!(v as u8 == c && c >= 1 && c <= 16, "Tribe code"), Err(_) => assert!(c < 1 || c > 16, "Tribe reject") }
    match Gender::try_from(c) { Ok(v) => assert!(v as u8 == c && c <= 1, "Gender code"), Err(_) => assert!(c > 1, "Gender reject") }
    kani::cover!(true, "reachable");
}
