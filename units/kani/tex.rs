//@module src/tex.rs
use super::*;

fn stub_fmt(_a: core::fmt::Arguments<'_>) -> String { String::new() }

static mut FAKE_PIXELS: [u32; 3] = [0; 3];
fn fake_decode(_src: &[u8], w: usize, h: usize, image: &mut [u32]) -> Result<(), &'static str> {
    let mut i = 0;
    while i < w * h { image[i] = unsafe { FAKE_PIXELS[i] }; i += 1; }
    Ok(())
}

//@unit props=C13 label=S tier=quick fn=tex::Texture::decode bound="3x1 image, all pixel words"
//@desc the RGBA byte stream is (R,G,B,A) of each decoded B,G,R,A pixel word, in pixel order, width*height*4 bytes
#[kani::proof]
#[kani::unwind(14)]
fn k_tex_decode_rgba_order() {
    let px: [u32; 3] = kani::any();
    unsafe { FAKE_PIXELS = px; }
    let out = match Texture::decode(&[0u8; 8], 3, 1, fake_decode) { Some(o) => o, None => { assert!(false, "a block decoder that succeeds yields an image"); return; } };
    assert!(out.len() == 12, "width*height*4 bytes");
    let i: usize = kani::any();
    kani::assume(i < 3);
    let v = px[i].to_le_bytes();
    assert!(out[4 * i] == v[2] && out[4 * i + 1] == v[1] && out[4 * i + 2] == v[0] && out[4 * i + 3] == v[3], "RGBA = bytes 2,1,0,3 of the BGRA word");
    kani::cover!(true, "reachable");
}

fn tex_header(attr: u32, format: u32, w: u16, h: u16, d: u16) -> [u8; 80] {
    let mut b = [0u8; 80];
    b[0..4].copy_from_slice(&attr.to_le_bytes());
    b[4..8].copy_from_slice(&format.to_le_bytes());
    b[8..10].copy_from_slice(&w.to_le_bytes());
    b[10..12].copy_from_slice(&h.to_le_bytes());
    b[12..14].copy_from_slice(&d.to_le_bytes());
    b[14..16].copy_from_slice(&1u16.to_le_bytes());
    b
}

//@unit props=C13 label=S tier=parked fn=tex::Texture::from_existing bound="B8G8R8A8, 2x1x1, 80-byte header with symbolic attribute flags, 8 symbolic payload bytes" stubs=fmt::format
//@desc width/height/depth copied from the header; rgba = (src[4i+2], src[4i+1], src[4i], src[4i+3]); three-dimensional exactly when attribute bit 0x1000000 is set
#[kani::proof]
#[kani::unwind(17)]
#[kani::stub(alloc::fmt::format, stub_fmt)]
fn k_tex_bgra_2x1() {
    let attr: u32 = kani::any();
    let payload: [u8; 8] = kani::any();
    let mut buf = [0u8; 88];
    buf[..80].copy_from_slice(&tex_header(attr, 0x1450, 2, 1, 1));
    buf[80..].copy_from_slice(&payload);
    match Texture::from_existing(&buf) {
        Some(t) => {
            assert!(t.width == 2 && t.height == 1 && t.depth == 1, "dimensions copied from the header");
            assert!(t.rgba.len() == 8, "width*height*depth*4 bytes");
            let i: usize = kani::any();
            kani::assume(i < 2);
            assert!(t.rgba[4 * i] == payload[4 * i + 2] && t.rgba[4 * i + 1] == payload[4 * i + 1] && t.rgba[4 * i + 2] == payload[4 * i] && t.rgba[4 * i + 3] == payload[4 * i + 3], "BGRA reordered to RGBA");
            let is3d = matches!(t.texture_type, TextureType::ThreeDimensional);
            assert!(is3d == (attr & 0x1000000 != 0), "three-dimensional iff attribute flag TEXTURE_TYPE3_D");
            core::mem::forget(t);
        }
        None => assert!(false, "a well-formed B8G8R8A8 texture parses"),
    }
    kani::cover!(true, "reachable");
}

//@unit props=C13 label=S tier=parked fn=tex::Texture::from_existing bound="BC1, 4x4x1, 80-byte header, 8 symbolic payload bytes" stubs=fmt::format
//@desc a BC1 texture decodes through decode_bc1 and the RGBA reorder: pixel (x,y) is the reordered word of the BC1 block decoder
#[kani::proof]
#[kani::unwind(17)]
#[kani::stub(alloc::fmt::format, stub_fmt)]
fn k_tex_bc1_4x4() {
    let payload: [u8; 8] = kani::any();
    let mut buf = [0u8; 88];
    buf[..80].copy_from_slice(&tex_header(0x800000, 0x3420, 4, 4, 1));
    buf[80..].copy_from_slice(&payload);
    match Texture::from_existing(&buf) {
        Some(t) => {
            assert!(t.rgba.len() == 64, "4*4*4 bytes");
            let mut blk = [0u32; 16];
            crate::bcn::decode_bc1_block(&payload, &mut blk);
            let i: usize = kani::any();
            kani::assume(i < 16);
            let v = blk[i].to_le_bytes();
            assert!(t.rgba[4 * i] == v[2] && t.rgba[4 * i + 1] == v[1] && t.rgba[4 * i + 2] == v[0] && t.rgba[4 * i + 3] == v[3], "pixel i is the RGBA reorder of BC1 block pixel i");
            assert!(matches!(t.texture_type, TextureType::TwoDimensional), "2D texture");
            core::mem::forget(t);
        }
        None => assert!(false, "a well-formed BC1 texture parses"),
    }
    kani::cover!(true, "reachable");
}

//@unit props=C18 label=S tier=parked fn=tex::Texture::from_existing bound="B8G8R8A8 header announcing 2x1x1 with only 4 payload bytes (truncated), all payload contents" stubs=fmt::format
//@desc a truncated texture returns None or a value; it never panics
#[kani::proof]
#[kani::unwind(17)]
#[kani::stub(alloc::fmt::format, stub_fmt)]
fn k_tex_truncated_bgra_nopanic() {
    let payload: [u8; 4] = kani::any();
    let mut buf = [0u8; 84];
    buf[..80].copy_from_slice(&tex_header(0, 0x1450, 2, 1, 1));
    buf[80..].copy_from_slice(&payload);
    if let Some(t) = Texture::from_existing(&buf) { core::mem::forget(t); }
    kani::cover!(true, "reachable");
}

//@unit props=C18 label=S tier=parked fn=tex::Texture::from_existing bound="BC1 header announcing 4x4x1 with only 4 payload bytes (truncated)" stubs=fmt::format
//@desc a truncated block-compressed texture returns None or a value; it never panics
#[kani::proof]
#[kani::unwind(17)]
#[kani::stub(alloc::fmt::format, stub_fmt)]
fn k_tex_truncated_bc1_nopanic() {
    let payload: [u8; 4] = kani::any();
    let mut buf = [0u8; 84];
    buf[..80].copy_from_slice(&tex_header(0, 0x3420, 4, 4, 1));
    buf[80..].copy_from_slice(&payload);
    if let Some(t) = Texture::from_existing(&buf) { core::mem::forget(t); }
    kani::cover!(true, "reachable");
}

//@unit props=C13 label=S tier=parked fn=tex::Texture::from_existing bound="B8G8R8A8, 2x1x1, fully concrete 80-byte header (2D), 8 symbolic payload bytes" stubs=fmt::format
//@desc probe: concrete header, symbolic payload
#[kani::proof]
#[kani::unwind(17)]
#[kani::stub(alloc::fmt::format, stub_fmt)]
fn k_tex_bgra_2x1_concrete_header() {
    let payload: [u8; 8] = kani::any();
    let mut buf = [0u8; 88];
    buf[..80].copy_from_slice(&tex_header(0x800000, 0x1450, 2, 1, 1));
    buf[80..].copy_from_slice(&payload);
    match Texture::from_existing(&buf) {
        Some(t) => {
            assert!(t.width == 2 && t.height == 1 && t.depth == 1, "dimensions copied from the header");
            assert!(t.rgba.len() == 8, "width*height*depth*4 bytes");
            let i: usize = kani::any();
            kani::assume(i < 2);
            assert!(t.rgba[4 * i] == payload[4 * i + 2] && t.rgba[4 * i + 1] == payload[4 * i + 1] && t.rgba[4 * i + 2] == payload[4 * i] && t.rgba[4 * i + 3] == payload[4 * i + 3], "BGRA reordered to RGBA");
            core::mem::forget(t);
        }
        None => assert!(false, "a well-formed B8G8R8A8 texture parses"),
    }
    kani::cover!(true, "reachable");
}

//@use_common

fn ntx_file(attr: u32, format: u32, w: u16, h: u16, d: u16, payload: &[u8]) -> Vec<u8> { let mut v = tex_header(attr, format, w, h, d).to_vec(); v.extend_from_slice(payload); v }
fn ntx_payload(n: usize, seed: u32) -> Vec<u8> { let mut x = seed.wrapping_mul(2654435761).wrapping_add(7); (0..n).map(|_| { x = x.wrapping_mul(1664525).wrapping_add(1013904223); (x >> 24) as u8 }).collect() }

//@unit props=C13 label=B tier=quick native=1 fn=tex::Texture::{from_existing,decode} bound="by execution: four tall volumes whose height x depth is 65280, 65536, 66048 and 65536 rows (pixels sampled every 61st row and around row 65536); B8G8R8A8, BC1, BC3 and BC5 textures of 15 sizes (1x1 .. 37x19, non-multiples of 4 included), depth 1, 2 and 4, attribute words {0, 0x1000000, 0x2800000, 0xFFFFFFFF restricted to defined bits}, pseudo-random payloads"
//@desc the decoded image has width x height x depth RGBA pixels; B8G8R8A8 pixels are the stored B,G,R,A bytes reordered; a block-compressed pixel (x, y) is the reordered word that the block decoder assigns to texel (x mod 4, y mod 4) of block (y/4)*ceil(w/4) + x/4; the texture is three-dimensional exactly when attribute bit 0x1000000 is set
#[test]
fn native_tex_decode() {
    let mut cases = 0u64;
    let sizes: [(u16, u16); 15] = [(1, 1), (2, 3), (4, 4), (5, 3), (3, 5), (8, 8), (7, 9), (16, 4), (4, 16), (13, 13), (37, 19), (1, 9), (9, 1), (6, 4), (12, 20)];
    for (si, (w, h)) in sizes.iter().enumerate() {
        for d in [1u16, 2, 4] {
            if d > 1 && h % 4 != 0 { continue; }
            for attr in [0u32, 0x0100_0000, 0x0280_0000, 0x8FF0_0FFF] {
                let (wu, hu) = (*w as usize, *h as usize * d as usize);
                // B8G8R8A8
                let pay = ntx_payload(wu * hu * 4, si as u32);
                let t = Texture::from_existing(&ntx_file(attr, 0x1450, *w, *h, d, &pay)).expect("B8G8R8A8 texture parses");
                assert_eq!((t.width, t.height, t.depth, t.rgba.len()), (*w as u32, *h as u32, d as u32, wu * hu * 4), "dimensions");
                assert_eq!(matches!(t.texture_type, TextureType::ThreeDimensional), attr & 0x0100_0000 != 0, "three-dimensional exactly when the attribute says so");
                for i in 0..wu * hu { assert_eq!(&t.rgba[4 * i..4 * i + 4], &[pay[4 * i + 2], pay[4 * i + 1], pay[4 * i], pay[4 * i + 3]], "BGRA -> RGBA at pixel {i}"); }
                // block formats
                let (nbx, nby) = ((wu + 3) / 4, (hu + 3) / 4);
                for (fmt, bs, blk) in [(0x3420u32, 8usize, crate::bcn::decode_bc1_block as fn(&[u8], &mut [u32])), (0x3431, 16, crate::bcn::decode_bc3_block), (0x6230, 16, crate::bcn::decode_bc5_block)] {
                    let pay = ntx_payload(nbx * nby * bs, (si * 3 + bs) as u32);
                    let t = Texture::from_existing(&ntx_file(attr, fmt, *w, *h, d, &pay)).expect("block-compressed texture parses");
                    assert_eq!((t.width, t.height, t.depth, t.rgba.len()), (*w as u32, *h as u32, d as u32, wu * hu * 4), "dimensions (format {fmt:#x})");
                    for y in 0..hu { for x in 0..wu {
                        let k = (y / 4) * nbx + x / 4;
                        let mut b = [0xFF00_0000u32; 16]; // the driver's initial block buffer: blue 0, alpha 255
                        blk(&pay[k * bs..k * bs + bs], &mut b);
                        let v = b[(y % 4) * 4 + x % 4].to_le_bytes();
                        assert_eq!(&t.rgba[4 * (y * wu + x)..4 * (y * wu + x) + 4], &[v[2], v[1], v[0], v[3]], "format {fmt:#x}, {w}x{h}x{d}: pixel ({x},{y})");
                    } }
                    assert!(Texture::from_existing(&ntx_file(attr, fmt, *w, *h, d, &pay[..pay.len() - 1])).is_none(), "one byte short: no texture");
                }
                cases += 4;
            }
        }
    }
    // tall volumes: height x depth reaches and passes 65536 rows (every block distinct per row group), all four formats
    for (w, h, d) in [(4u16, 256u16, 255u16), (4, 256, 256), (4, 256, 258), (8, 1024, 64)] {
        let (wu, hu) = (w as usize, h as usize * d as usize);
        let pay = ntx_payload(wu * hu * 4, 77);
        let t = Texture::from_existing(&ntx_file(0x0100_0000, 0x1450, w, h, d, &pay)).expect("B8G8R8A8 volume parses");
        assert_eq!((t.width, t.height, t.depth, t.rgba.len()), (w as u32, h as u32, d as u32, wu * hu * 4), "volume dimensions {w}x{h}x{d}");
        for i in (0..wu * hu).step_by(97).chain([wu * hu - 1]) { assert_eq!(&t.rgba[4 * i..4 * i + 4], &[pay[4 * i + 2], pay[4 * i + 1], pay[4 * i], pay[4 * i + 3]], "BGRA -> RGBA at pixel {i} of {w}x{h}x{d}"); }
        let (nbx, nby) = ((wu + 3) / 4, (hu + 3) / 4);
        for (fmt, bs, blk) in [(0x3420u32, 8usize, crate::bcn::decode_bc1_block as fn(&[u8], &mut [u32])), (0x3431, 16, crate::bcn::decode_bc3_block), (0x6230, 16, crate::bcn::decode_bc5_block)] {
            let pay = ntx_payload(nbx * nby * bs, 78 + bs as u32);
            let t = Texture::from_existing(&ntx_file(0x0100_0000, fmt, w, h, d, &pay)).expect("block-compressed volume parses");
            assert_eq!((t.width, t.height, t.depth, t.rgba.len()), (w as u32, h as u32, d as u32, wu * hu * 4), "volume dimensions {w}x{h}x{d} (format {fmt:#x})");
            for y in (0..hu).step_by(61).chain([hu - 1, hu - 4, 65535.min(hu - 1), 65536.min(hu - 1)]) { for x in 0..wu {
                let k = (y / 4) * nbx + x / 4;
                let mut b = [0xFF00_0000u32; 16];
                blk(&pay[k * bs..k * bs + bs], &mut b);
                let v = b[(y % 4) * 4 + x % 4].to_le_bytes();
                assert_eq!(&t.rgba[4 * (y * wu + x)..4 * (y * wu + x) + 4], &[v[2], v[1], v[0], v[3]], "format {fmt:#x}, {w}x{h}x{d}: pixel ({x},{y})");
            } }
        }
        cases += 4;
    }
    println!("NATIVE native_tex_decode cases={cases}");
}

//@unit props=C18 label=B tier=quick native=1 fn=tex::Texture::from_existing bound="by execution: a 6x5 texture of each format (B4G4R4A4, B8G8R8A8, BC1, BC3, BC5): every truncation and 7 single-byte corruptions per byte of the 80-byte header and payload; headers announcing 65535 x 65535 x 65535 with a 64-byte payload"
//@desc damaged textures (truncated payload, any header byte damaged, huge dimensions) yield None or a value, never a panic or an allocation out of proportion
#[test]
fn native_tex_damaged_nopanic() {
    let f = |b: &[u8]| { let _ = Texture::from_existing(b); };
    let mut s = NativeSites::new();
    for (fmt, n) in [(0x1440u32, 60usize), (0x1450, 120), (0x3420, 32), (0x3431, 64), (0x6230, 64)] {
        let v = ntx_file(0, fmt, 6, 5, 1, &ntx_payload(n, fmt));
        assert!(Texture::from_existing(&v).is_some(), "the undamaged texture of format {fmt:#x} parses");
        s.sweep(&v, 1 << 20, 1, &f);
        s.run(&f, &ntx_file(0, fmt, 0xFFFF, 0xFFFF, 0xFFFF, &ntx_payload(64, 1)), &format!("format {fmt:#x}: 65535^3 pixels announced, 64 bytes stored"));
        s.run(&f, &ntx_file(0, fmt, 0xFFFF, 0xFFFF, 1, &ntx_payload(64, 1)), &format!("format {fmt:#x}: 65535^2 pixels announced, 64 bytes stored"));
    }
    s.finish("native_tex_damaged_nopanic");
}
