//@module src/tex.rs
use super::*;

fn stub_fmt(_a: core::fmt::Arguments<'_>) -> String { String::new() }

static mut FAKE_PIXELS: [u32; 3] = [0; 3];
fn fake_decode(_src: &[u8], w: usize, h: usize, image: &mut [u32]) -> Result<(), &'static str> {
    let mut i = 0;
    while i < w * h { image[i] = unsafe { FAKE_PIXELS[i] }; i += 1; }
    Ok(())
}

//@unit props=C13 label=S tier=quick fn=tex::Texture::decode bound="3x1 image, all pixel words"
//@desc the RGBA byte stream is (R,G,B,A) of each decoded B,G,R,A pixel word, in pixel order, width*height*4 bytes
#[kani::proof]
#[kani::unwind(14)]
fn k_tex_decode_rgba_order() {
    let px: [u32; 3] = kani::any();
    unsafe { FAKE_PIXELS = px; }
    let out = Texture::decode(&[], 3, 1, fake_decode);
    assert!(out.len() == 12, "width*height*4 bytes");
    let i: usize = kani::any();
    kani::assume(i < 3);
    let v = px[i].to_le_bytes();
    assert!(out[4 * i] == v[2] && out[4 * i + 1] == v[1] && out[4 * i + 2] == v[0] && out[4 * i + 3] == v[3], "RGBA = bytes 2,1,0,3 of the BGRA word");
    kani::cover!(true, "reachable");
}

fn tex_header(attr: u32, format: u32, w: u16, h: u16, d: u16) -> [u8; 80] {
    let mut b = [0u8; 80];
    b[0..4].copy_from_slice(&attr.to_le_bytes());
    b[4..8].copy_from_slice(&format.to_le_bytes());
    b[8..10].copy_from_slice(&w.to_le_bytes());
    b[10..12].copy_from_slice(&h.to_le_bytes());
    b[12..14].copy_from_slice(&d.to_le_bytes());
    b[14..16].copy_from_slice(&1u16.to_le_bytes());
    b
}

//@unit props=C13 label=S tier=parked fn=tex::Texture::from_existing bound="B8G8R8A8, 2x1x1, 80-byte header with symbolic attribute flags, 8 symbolic payload bytes" stubs=fmt::format
//@desc width/height/depth copied from the header; rgba = (src[4i+2], src[4i+1], src[4i], src[4i+3]); three-dimensional exactly when attribute bit 0x1000000 is set
#[kani::proof]
#[kani::unwind(17)]
#[kani::stub(alloc::fmt::format, stub_fmt)]
fn k_tex_bgra_2x1() {
    let attr: u32 = kani::any();
    let payload: [u8; 8] = kani::any();
    let mut buf = [0u8; 88];
    buf[..80].copy_from_slice(&tex_header(attr, 0x1450, 2, 1, 1));
    buf[80..].copy_from_slice(&payload);
    match Texture::from_existing(&buf) {
        Some(t) => {
            assert!(t.width == 2 && t.height == 1 && t.depth == 1, "dimensions copied from the header");
            assert!(t.rgba.len() == 8, "width*height*depth*4 bytes");
            let i: usize = kani::any();
            kani::assume(i < 2);
            assert!(t.rgba[4 * i] == payload[4 * i + 2] && t.rgba[4 * i + 1] == payload[4 * i + 1] && t.rgba[4 * i + 2] == payload[4 * i] && t.rgba[4 * i + 3] == payload[4 * i + 3], "BGRA reordered to RGBA");
            let is3d = matches!(t.texture_type, TextureType::ThreeDimensional);
            assert!(is3d == (attr & 0x1000000 != 0), "three-dimensional iff attribute flag TEXTURE_TYPE3_D");
            core::mem::forget(t);
        }
        None => assert!(false, "a well-formed B8G8R8A8 texture parses"),
    }
    kani::cover!(true, "reachable");
}

//@unit props=C13 label=S tier=parked fn=tex::Texture::from_existing bound="BC1, 4x4x1, 80-byte header, 8 symbolic payload bytes" stubs=fmt::format
//@desc a BC1 texture decodes through decode_bc1 and the RGBA reorder: pixel (x,y) is the reordered word of the BC1 block decoder
#[kani::proof]
#[kani::unwind(17)]
#[kani::stub(alloc::fmt::format, stub_fmt)]
fn k_tex_bc1_4x4() {
    let payload: [u8; 8] = kani::any();
    let mut buf = [0u8; 88];
    buf[..80].copy_from_slice(&tex_header(0x800000, 0x3420, 4, 4, 1));
    buf[80..].copy_from_slice(&payload);
    match Texture::from_existing(&buf) {
        Some(t) => {
            assert!(t.rgba.len() == 64, "4*4*4 bytes");
            let mut blk = [0u32; 16];
            crate::bcn::decode_bc1_block(&payload, &mut blk);
            let i: usize = kani::any();
            kani::assume(i < 16);
            let v = blk[i].to_le_bytes();
            assert!(t.rgba[4 * i] == v[2] && t.rgba[4 * i + 1] == v[1] && t.rgba[4 * i + 2] == v[0] && t.rgba[4 * i + 3] == v[3], "pixel i is the RGBA reorder of BC1 block pixel i");
            assert!(matches!(t.texture_type, TextureType::TwoDimensional), "2D texture");
            core::mem::forget(t);
        }
        None => assert!(false, "a well-formed BC1 texture parses"),
    }
    kani::cover!(true, "reachable");
}

//@unit props=C18 label=S tier=parked fn=tex::Texture::from_existing bound="B8G8R8A8 header announcing 2x1x1 with only 4 payload bytes (truncated), all payload contents" stubs=fmt::format
//@desc a truncated texture returns None or a value; it never panics
#[kani::proof]
#[kani::unwind(17)]
#[kani::stub(alloc::fmt::format, stub_fmt)]
fn k_tex_truncated_bgra_nopanic() {
    let payload: [u8; 4] = kani::any();
    let mut buf = [0u8; 84];
    buf[..80].copy_from_slice(&tex_header(0, 0x1450, 2, 1, 1));
    buf[80..].copy_from_slice(&payload);
    if let Some(t) = Texture::from_existing(&buf) { core::mem::forget(t); }
    kani::cover!(true, "reachable");
}

//@unit props=C18 label=S tier=parked fn=tex::Texture::from_existing bound="BC1 header announcing 4x4x1 with only 4 payload bytes (truncated)" stubs=fmt::format
//@desc a truncated block-compressed texture returns None or a value; it never panics
#[kani::proof]
#[kani::unwind(17)]
#[kani::stub(alloc::fmt::format, stub_fmt)]
fn k_tex_truncated_bc1_nopanic() {
    let payload: [u8; 4] = kani::any();
    let mut buf = [0u8; 84];
    buf[..80].copy_from_slice(&tex_header(0, 0x3420, 4, 4, 1));
    buf[80..].copy_from_slice(&payload);
    if let Some(t) = Texture::from_existing(&buf) { core::mem::forget(t); }
    kani::cover!(true, "reachable");
}

//@unit props=C13 label=S tier=parked fn=tex::Texture::from_existing bound="B8G8R8A8, 2x1x1, fully concrete 80-byte header (2D), 8 symbolic payload bytes" stubs=fmt::format
//@desc probe: concrete header, symbolic payload
#[kani::proof]
#[kani::unwind(17)]
#[kani::stub(alloc::fmt::format, stub_fmt)]
fn k_tex_bgra_2x1_concrete_header() {
    let payload: [u8; 8] = kani::any();
    let mut buf = [0u8; 88];
    buf[..80].copy_from_slice(&tex_header(0x800000, 0x1450, 2, 1, 1));
    buf[80..].copy_from_slice(&payload);
    match Texture::from_existing(&buf) {
        Some(t) => {
            assert!(t.width == 2 && t.height == 1 && t.depth == 1, "dimensions copied from the header");
            assert!(t.rgba.len() == 8, "width*height*depth*4 bytes");
            let i: usize = kani::any();
            kani::assume(i < 2);
            assert!(t.rgba[4 * i] == payload[4 * i + 2] && t.rgba[4 * i + 1] == payload[4 * i + 1] && t.rgba[4 * i + 2] == payload[4 * i] && t.rgba[4 * i + 3] == payload[4 * i + 3], "BGRA reordered to RGBA");
            core::mem::forget(t);
        }
        None => assert!(false, "a well-formed B8G8R8A8 texture parses"),
    }
    kani::cover!(true, "reachable");
}
