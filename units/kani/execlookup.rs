//@module src/execlookup.rs
use super::*;

//@use_common

fn nel_utf16be(s: &str) -> Vec<u8> { s.encode_utf16().flat_map(|w| w.to_be_bytes()).collect() }

//@unit props=C17 label=B tier=quick native=1 fn=execlookup::extract_frontier_url bound="by execution on temporary files: a launcher image holding the new-style and one holding the old-style URL (NUL-terminated, surrounded by other bytes): the intact image, every truncation, 7 single-byte corruptions per byte of the URL region; a missing path, an empty file, a directory"
//@desc the frontier URL stored in a launcher image is returned up to its terminator; damaged or truncated images and missing or unreadable paths yield None or a best-effort string, never a panic
#[test]
fn native_frontier_url() {
    let dir = std::env::temp_dir().join(format!("physis-verif-c17e-{}", std::process::id()));
    let _ = std::fs::remove_dir_all(&dir);
    std::fs::create_dir_all(&dir).unwrap();
    let path = dir.join("ffxivlauncher.exe");
    let ps = path.to_str().unwrap().to_string();
    let mut s = NativeSites::new();
    for url in ["https://launcher.finalfantasyxiv.com/v700/index.html?rc_lang={0}&time={1}", "https://frontier.ffxiv.com/version_5_0_win/frontier.html?rc_lang={0}"] {
        let mut img: Vec<u8> = (0..300u32).map(|i| (i * 7 % 251) as u8 | 1).collect();
        let at = img.len();
        img.extend_from_slice(&nel_utf16be(url)); img.extend_from_slice(&[0, 0]);
        img.extend((0..200u32).map(|i| (i * 13 % 250) as u8 | 1));
        std::fs::write(&path, &img).unwrap();
        assert_eq!(extract_frontier_url(&ps), Some(url.to_string()), "the stored URL is returned up to its terminator");
        let f = { let ps = ps.clone(); move |b: &[u8]| { std::fs::write(&ps, b).unwrap(); let _ = extract_frontier_url(&ps); } };
        for t in 0..=img.len() { s.run(&f, &img[..t], &format!("truncation to {t} bytes")); }
        let mut w = img.clone();
        for i in at.saturating_sub(4)..(at + url.len() * 2 + 6).min(img.len()) { let o = img[i]; for c in [0u8, 1, 0x7F, 0x80, 0xFF, 0xD8, 0xDC, o.wrapping_add(1)] { if c != o { w[i] = c; s.run(&f, &w, &format!("byte {i} changed from {o:#04x} to {c:#04x}")); } } w[i] = o; }
    }
    let missing = dir.join("nowhere.exe").to_str().unwrap().to_string();
    s.run(&move |_: &[u8]| { let _ = extract_frontier_url(&missing); }, b"", "a missing launcher path");
    let d2 = dir.to_str().unwrap().to_string();
    s.run(&move |_: &[u8]| { let _ = extract_frontier_url(&d2); }, b"", "a directory instead of a file");
    let _ = std::fs::remove_dir_all(&dir);
    s.finish("native_frontier_url");
}

//@unit props=C17 label=B tier=quick native=1 fn=bootdata::BootData::from_existing bound="by execution on temporary directories: a boot directory with a version file, one without, a missing directory, a file instead of a directory, a version file that is not UTF-8"
//@desc opening boot data yields the version for a valid directory and None otherwise, never a panic
#[test]
fn native_bootdata_open() {
    use crate::bootdata::BootData;
    let dir = std::env::temp_dir().join(format!("physis-verif-c17b-{}", std::process::id()));
    let _ = std::fs::remove_dir_all(&dir);
    std::fs::create_dir_all(dir.join("good")).unwrap(); std::fs::create_dir_all(dir.join("nover")).unwrap(); std::fs::create_dir_all(dir.join("badutf")).unwrap();
    std::fs::write(dir.join("good/ffxivboot.ver"), "2023.09.14.0000.0001").unwrap();
    std::fs::write(dir.join("badutf/ffxivboot.ver"), [0xFFu8, 0xFE, 0x80]).unwrap();
    std::fs::write(dir.join("afile"), "x").unwrap();
    let mut s = NativeSites::new();
    assert_eq!(BootData::from_existing(dir.join("good").to_str().unwrap()).map(|b| b.version), Some("2023.09.14.0000.0001".to_string()), "a valid boot directory reports its version");
    for name in ["nover", "badutf", "afile", "missing", "good/ffxivboot.ver"] {
        let p = dir.join(name).to_str().unwrap().to_string();
        s.run(&move |_: &[u8]| { assert!(BootData::from_existing(&p).is_none() || name == "good"); }, b"", &format!("boot directory `{name}`"));
    }
    let _ = std::fs::remove_dir_all(&dir);
    s.finish("native_bootdata_open");
}
