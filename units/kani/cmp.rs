//@module src/cmp.rs
use super::*;

fn stub_fmt(_a: core::fmt::Arguments<'_>) -> String { String::new() }

//@unit props=C16 label=P tier=quick fn=cmp::RacialScalingParameters(derive) stubs=fmt::format
//@desc all 56-byte contents: the 14 parameters are the little-endian floats at offsets 0,4,..,52 in declaration order (returned exactly as stored); 56 bytes consumed
#[kani::proof]
#[kani::unwind(4)]
#[kani::stub(alloc::fmt::format, stub_fmt)]
fn k_racial_scaling_record() {
    let b: [u8; 56] = kani::any();
    let mut c = Cursor::new(&b[..]);
    match RacialScalingParameters::read(&mut c) {
        Ok(p) => {
            let f = [p.male_min_size, p.male_max_size, p.male_min_tail, p.male_max_tail, p.female_min_size, p.female_max_size, p.female_min_tail, p.female_max_tail,
                     p.bust_min_x, p.bust_min_y, p.bust_min_z, p.bust_max_x, p.bust_max_y, p.bust_max_z];
            let i: usize = kani::any();
            kani::assume(i < 14);
            assert!(f[i].to_bits() == u32::from_le_bytes([b[4 * i], b[4 * i + 1], b[4 * i + 2], b[4 * i + 3]]), "parameter i is the float stored at 4i");
            assert!(c.position() == 56, "56 bytes");
        }
        Err(e) => { core::mem::forget(e); assert!(false, "record parses"); }
    }
    kani::cover!(true, "reachable");
}

//@unit props=C18 label=S tier=quick fn=cmp::CMP::from_existing bound="buffers of 0 and 8 bytes (far shorter than the 0x2A800-byte prefix), all contents"
//@desc a truncated scaling table returns None or an empty table; it never panics
#[kani::proof]
#[kani::unwind(4)]
#[kani::stub(alloc::fmt::format, stub_fmt)]
fn k_cmp_short_buffer_nopanic() {
    let b: [u8; 8] = kani::any();
    if CMP::from_existing(&b[..0]).is_some() { assert!(false, "an empty file holds no table"); }
    if let Some(c) = CMP::from_existing(&b[..]) {
        assert!(c.parameters.is_empty(), "no records in a truncated file");
        core::mem::forget(c);
    }
    kani::cover!(true, "reachable");
}
