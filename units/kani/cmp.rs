//@module src/cmp.rs
use super::*;

fn stub_fmt(_a: core::fmt::Arguments<'_>) -> String { String::new() }

//@unit props=C16 label=P tier=quick fn=cmp::RacialScalingParameters(derive) stubs=fmt::format
//@desc all 56-byte contents: the 14 parameters are the little-endian floats at offsets 0,4,..,52 in declaration order (returned exactly as stored); 56 bytes consumed
#[kani::proof]
#[kani::unwind(4)]
#[kani::stub(alloc::fmt::format, stub_fmt)]
fn k_racial_scaling_record() {
    let b: [u8; 56] = kani::any();
    let mut c = Cursor::new(&b[..]);
    match RacialScalingParameters::read(&mut c) {
        Ok(p) => {
            let f = [p.male_min_size, p.male_max_size, p.male_min_tail, p.male_max_tail, p.female_min_size, p.female_max_size, p.female_min_tail, p.female_max_tail,
                     p.bust_min_x, p.bust_min_y, p.bust_min_z, p.bust_max_x, p.bust_max_y, p.bust_max_z];
            let i: usize = kani::any();
            kani::assume(i < 14);
            assert!(f[i].to_bits() == u32::from_le_bytes([b[4 * i], b[4 * i + 1], b[4 * i + 2], b[4 * i + 3]]), "parameter i is the float stored at 4i");
            assert!(c.position() == 56, "56 bytes");
        }
        Err(e) => { core::mem::forget(e); assert!(false, "record parses"); }
    }
    kani::cover!(true, "reachable");
}

//@unit props=C18 label=S tier=quick fn=cmp::CMP::from_existing bound="buffers of 0 and 8 bytes (far shorter than the 0x2A800-byte prefix), all contents"
//@desc a truncated scaling table returns None or an empty table; it never panics
#[kani::proof]
#[kani::unwind(4)]
#[kani::stub(alloc::fmt::format, stub_fmt)]
fn k_cmp_short_buffer_nopanic() {
    let b: [u8; 8] = kani::any();
    if CMP::from_existing(&b[..0]).is_some() { assert!(false, "an empty file holds no table"); }
    if let Some(c) = CMP::from_existing(&b[..]) {
        assert!(c.parameters.is_empty(), "no records in a truncated file");
        core::mem::forget(c);
    }
    kani::cover!(true, "reachable");
}

//@unit props=C16,C18 label=B tier=quick native=1 fn=cmp::CMP::from_existing bound="by execution: tables of 0, 1, 2, 40 and 41 entries (56 bytes each, distinct float in every slot) behind a 0x2a800-byte prefix, each also with 1..55 trailing bytes; every file length 0x2a7f0..0x2a800+120"
//@desc racial scaling parameters are returned exactly as stored: entry k holds the 14 little-endian floats at 0x2a800 + 56k, in field order; a trailing partial entry is ignored; short files yield None or an empty table, never a panic
#[test]
fn native_cmp_table() {
    let mut cases = 0u64;
    for n in [0usize, 1, 2, 40, 41] { for extra in [0usize, 1, 55] {
        let mut b = vec![0xEEu8; 0x2a800];
        for k in 0..n { for s in 0..14 { b.extend_from_slice(&((k * 14 + s) as f32 * 0.5 - 3.0).to_le_bytes()); } }
        b.extend(std::iter::repeat(0x11u8).take(extra));
        let c = CMP::from_existing(&b).expect("a table parses");
        assert_eq!(c.parameters.len(), n, "{n} whole entries ({extra} trailing bytes)");
        for (k, p) in c.parameters.iter().enumerate() {
            let v = |s: usize| (k * 14 + s) as f32 * 0.5 - 3.0;
            assert_eq!([p.male_min_size, p.male_max_size, p.male_min_tail, p.male_max_tail, p.female_min_size, p.female_max_size, p.female_min_tail, p.female_max_tail, p.bust_min_x, p.bust_min_y, p.bust_min_z, p.bust_max_x, p.bust_max_y, p.bust_max_z],
                       [v(0), v(1), v(2), v(3), v(4), v(5), v(6), v(7), v(8), v(9), v(10), v(11), v(12), v(13)], "entry {k} is returned exactly as stored");
        }
        cases += 1;
    } }
    let big = vec![0x40u8; 0x2a800 + 120];
    for len in (0x2a7f0..=big.len()).chain([0usize, 1, 100]) { let _ = CMP::from_existing(&big[..len]); cases += 1; }
    println!("NATIVE native_cmp_table cases={cases}");
}
