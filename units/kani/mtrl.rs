//@module src/mtrl.rs
use super::*;
use half::f16;

fn stub_fmt(_a: core::fmt::Arguments<'_>) -> String { String::new() }
fn stub_cpuid(_l: u32, _s: u32) -> std::arch::x86_64::CpuidResult {
    std::arch::x86_64::CpuidResult { eax: 0, ebx: 0, ecx: 0, edx: 0 }
}
fn hw(b: &[u8], i: usize) -> u16 { u16::from_le_bytes([b[2 * i], b[2 * i + 1]]) }
/// value of half-word i of the record (conversion itself is proved IEEE-exact in k_half_to_f32_ieee)
fn hv(b: &[u8], i: usize) -> u32 { f16::from_bits(hw(b, i)).to_f32().to_bits() }

//@unit props=C14 label=P tier=quick fn=mtrl::LegacyColorDyeTableRow(derive) stubs=fmt::format
//@desc all 2^16 words: template = bits 5..15, diffuse/specular/emissive/gloss/specular_strength = bits 0..4, 2 bytes consumed
#[kani::proof]
#[kani::unwind(4)]
#[kani::stub(alloc::fmt::format, stub_fmt)]
fn k_legacy_dye_row() {
    let b: [u8; 2] = kani::any();
    let d = u16::from_le_bytes(b);
    let mut c = Cursor::new(&b[..]);
    match LegacyColorDyeTableRow::read_le(&mut c) {
        Ok(r) => {
            assert!(r.template == d >> 5, "template = bits 5..15");
            assert!(r.diffuse == (d & 1 != 0) && r.specular == (d & 2 != 0) && r.emissive == (d & 4 != 0) && r.gloss == (d & 8 != 0) && r.specular_strength == (d & 16 != 0), "each flag is its own bit");
            assert!(c.position() == 2, "2 bytes");
        }
        Err(e) => { core::mem::forget(e); assert!(false, "dye row parses"); }
    }
    kani::cover!(true, "reachable");
}

//@unit props=C14 label=P tier=quick fn=mtrl::DawntrailColorDyeTableRow(derive) stubs=fmt::format
//@desc all 2^32 words: template = bits 16..26, channel = bits 27..28, each of the 12 flags is its own bit 0..11, 4 bytes consumed
#[kani::proof]
#[kani::unwind(14)]
#[kani::stub(alloc::fmt::format, stub_fmt)]
fn k_dawntrail_dye_row() {
    let b: [u8; 4] = kani::any();
    let d = u32::from_le_bytes(b);
    let mut c = Cursor::new(&b[..]);
    match DawntrailColorDyeTableRow::read_le(&mut c) {
        Ok(r) => {
            assert!(r.template as u32 == (d >> 16) & 0x7FF, "template = bits 16..26");
            assert!(r.channel as u32 == (d >> 27) & 3, "channel = bits 27..28");
            let f = [r.diffuse, r.specular, r.emissive, r.scalar3, r.metalness, r.roughness, r.sheen_rate, r.sheen_tint_rate, r.sheen_aperture, r.anisotropy, r.sphere_map_index, r.sphere_map_mask];
            let mut i = 0;
            while i < 12 { assert!(f[i] == ((d >> i) & 1 != 0), "flag i is bit i"); i += 1; }
            assert!(c.position() == 4, "4 bytes");
        }
        Err(e) => { core::mem::forget(e); assert!(false, "dye row parses"); }
    }
    kani::cover!(true, "reachable");
}

//@unit props=C14 label=S tier=quick fn=mtrl::LegacyColorTableRow(derive) bound="one 32-byte row, all contents" stubs=fmt::format,__cpuid_count
//@desc each named component = binary16 value of its own half-word at its own offset: diffuse 0,1,2; specular strength 3; specular 4,5,6; gloss 7; emissive 8,9,10; tile_set = raw LE word 11; repeat 12,13; skew 14,15; 32 bytes consumed
#[kani::proof]
#[kani::unwind(14)]
#[kani::stub(alloc::fmt::format, stub_fmt)]
#[kani::stub(std::arch::x86_64::__cpuid_count, stub_cpuid)]
fn k_legacy_color_row() {
    let b: [u8; 32] = kani::any();
    let mut c = Cursor::new(&b[..]);
    match LegacyColorTableRow::read_le(&mut c) {
        Ok(r) => {
            assert!(r.diffuse_color[0].to_bits() == hv(&b, 0) && r.diffuse_color[1].to_bits() == hv(&b, 1) && r.diffuse_color[2].to_bits() == hv(&b, 2), "diffuse = halves 0,1,2");
            assert!(r.specular_strength.to_bits() == hv(&b, 3), "specular strength = half 3");
            assert!(r.specular_color[0].to_bits() == hv(&b, 4) && r.specular_color[1].to_bits() == hv(&b, 5) && r.specular_color[2].to_bits() == hv(&b, 6), "specular = halves 4,5,6");
            assert!(r.gloss_strength.to_bits() == hv(&b, 7), "gloss = half 7");
            assert!(r.emissive_color[0].to_bits() == hv(&b, 8) && r.emissive_color[1].to_bits() == hv(&b, 9) && r.emissive_color[2].to_bits() == hv(&b, 10), "emissive = halves 8,9,10");
            assert!(r.tile_set == hw(&b, 11), "tile set = raw word 11");
            assert!(r.material_repeat[0].to_bits() == hv(&b, 12) && r.material_repeat[1].to_bits() == hv(&b, 13), "repeat = halves 12,13");
            assert!(r.material_skew[0].to_bits() == hv(&b, 14) && r.material_skew[1].to_bits() == hv(&b, 15), "skew = halves 14,15");
            assert!(c.position() == 32, "32 bytes");
        }
        Err(e) => { core::mem::forget(e); assert!(false, "row parses"); }
    }
    kani::cover!(true, "reachable");
}

//@unit props=C14 label=S tier=thorough fn=mtrl::DawntrailColorTableRow(derive) bound="one 64-byte row, all contents" stubs=fmt::format,__cpuid_count
//@desc each named component = binary16 value of its own half-word: diffuse 0-2, unknown1 3, specular 4-6, unknown2 7, emissive 8-10, unknown3 11, sheen rate/tint/aperture 12-14, unknown4 15, roughness 16, unknown5 17, metalness 18, anisotropy 19, unknown6 20, sphere_mask 21, unknown7 22, unknown8 23, shader_index/tile_set raw 24,25, tile_alpha 26, sphere_index raw 27, repeat 28,29, skew 30,31
#[kani::proof]
#[kani::unwind(14)]
#[kani::stub(alloc::fmt::format, stub_fmt)]
#[kani::stub(std::arch::x86_64::__cpuid_count, stub_cpuid)]
fn k_dawntrail_color_row() {
    let b: [u8; 64] = kani::any();
    let mut c = Cursor::new(&b[..]);
    match DawntrailColorTableRow::read_le(&mut c) {
        Ok(r) => {
            assert!(r.diffuse_color[0].to_bits() == hv(&b, 0) && r.diffuse_color[1].to_bits() == hv(&b, 1) && r.diffuse_color[2].to_bits() == hv(&b, 2), "diffuse");
            assert!(r.unknown1.to_bits() == hv(&b, 3), "unknown1");
            assert!(r.specular_color[0].to_bits() == hv(&b, 4) && r.specular_color[1].to_bits() == hv(&b, 5) && r.specular_color[2].to_bits() == hv(&b, 6), "specular");
            assert!(r.unknown2.to_bits() == hv(&b, 7), "unknown2");
            assert!(r.emissive_color[0].to_bits() == hv(&b, 8) && r.emissive_color[1].to_bits() == hv(&b, 9) && r.emissive_color[2].to_bits() == hv(&b, 10), "emissive");
            assert!(r.unknown3.to_bits() == hv(&b, 11), "unknown3");
            assert!(r.sheen_rate.to_bits() == hv(&b, 12) && r.sheen_tint.to_bits() == hv(&b, 13) && r.sheen_aperture.to_bits() == hv(&b, 14), "sheen");
            assert!(r.unknown4.to_bits() == hv(&b, 15) && r.roughness.to_bits() == hv(&b, 16) && r.unknown5.to_bits() == hv(&b, 17), "roughness group");
            assert!(r.metalness.to_bits() == hv(&b, 18) && r.anisotropy.to_bits() == hv(&b, 19) && r.unknown6.to_bits() == hv(&b, 20), "metalness group");
            assert!(r.sphere_mask.to_bits() == hv(&b, 21) && r.unknown7.to_bits() == hv(&b, 22) && r.unknown8.to_bits() == hv(&b, 23), "sphere mask group");
            assert!(r.shader_index == hw(&b, 24) && r.tile_set == hw(&b, 25), "raw words 24,25");
            assert!(r.tile_alpha.to_bits() == hv(&b, 26), "tile alpha");
            assert!(r.sphere_index == hw(&b, 27), "raw word 27");
            assert!(r.material_repeat[0].to_bits() == hv(&b, 28) && r.material_repeat[1].to_bits() == hv(&b, 29), "repeat");
            assert!(r.material_skew[0].to_bits() == hv(&b, 30) && r.material_skew[1].to_bits() == hv(&b, 31), "skew");
            assert!(c.position() == 64, "64 bytes");
        }
        Err(e) => { core::mem::forget(e); assert!(false, "row parses"); }
    }
    kani::cover!(true, "reachable");
}

fn le32(b: &[u8], o: usize) -> u32 { u32::from_le_bytes([b[o], b[o + 1], b[o + 2], b[o + 3]]) }
fn le16(b: &[u8], o: usize) -> u16 { u16::from_le_bytes([b[o], b[o + 1]]) }

//@unit props=C14 label=S tier=quick fn=mtrl::{MaterialFileHeader,MaterialHeader,ShaderKey,ConstantStruct,ColorSet}(derive) bound="fixed-size records 16/12/8/8/4 bytes, all contents" stubs=fmt::format
//@desc little-endian field placement and bytes consumed of the plain material records
#[kani::proof]
#[kani::unwind(4)]
#[kani::stub(alloc::fmt::format, stub_fmt)]
fn k_mtrl_plain_records() {
    let b: [u8; 16] = kani::any();
    let mut c = Cursor::new(&b[..]);
    match MaterialFileHeader::read_le(&mut c) {
        Ok(h) => {
            assert!(h.version == le32(&b, 0) && h.file_size == le16(&b, 4) && h.data_set_size == le16(&b, 6) && h.string_table_size == le16(&b, 8) && h.shader_package_name_offset == le16(&b, 10), "file header words");
            assert!(h.texture_count == b[12] && h.uv_set_count == b[13] && h.color_set_count == b[14] && h.additional_data_size == b[15], "file header counts");
            assert!(c.position() == 16, "16 bytes");
        }
        Err(e) => { core::mem::forget(e); assert!(false, "parses"); }
    }
    let mut c = Cursor::new(&b[..]);
    match MaterialHeader::read_le(&mut c) {
        Ok(h) => {
            assert!(h.shader_value_list_size == le16(&b, 0) && h.shader_key_count == le16(&b, 2) && h.constant_count == le16(&b, 4) && h.sampler_count == le16(&b, 6) && h.flags == le32(&b, 8), "material header");
            assert!(c.position() == 12, "12 bytes");
        }
        Err(e) => { core::mem::forget(e); assert!(false, "parses"); }
    }
    let mut c = Cursor::new(&b[..]);
    match ShaderKey::read_le(&mut c) {
        Ok(h) => { assert!(h.category == le32(&b, 0) && h.value == le32(&b, 4), "shader key"); assert!(c.position() == 8, "8 bytes"); }
        Err(e) => { core::mem::forget(e); assert!(false, "parses"); }
    }
    let mut c = Cursor::new(&b[..]);
    match ConstantStruct::read_le(&mut c) {
        Ok(h) => { assert!(h.constant_id == le32(&b, 0) && h.value_offset == le16(&b, 4) && h.value_size == le16(&b, 6), "constant"); assert!(c.position() == 8, "8 bytes"); }
        Err(e) => { core::mem::forget(e); assert!(false, "parses"); }
    }
    kani::cover!(true, "reachable");
}

//@unit props=C14 label=S tier=thorough fn=mtrl::Sampler(derive) bound="12-byte record with the texture-usage magic held at each of 3 listed values (Sampler, SamplerNormal, UnknownDawntrail2), other 8 bytes symbolic" stubs=fmt::format
//@desc usage decoded from the 4-byte magic; flags = LE word at 4; texture_index = byte 8; 12 bytes consumed
#[kani::proof]
#[kani::unwind(4)]
#[kani::stub(alloc::fmt::format, stub_fmt)]
fn k_mtrl_sampler() {
    let mut b: [u8; 12] = kani::any();
    let which: u8 = kani::any();
    kani::assume(which < 3);
    let magic: u32 = if which == 0 { 0x88408C04 } else if which == 1 { 0x0C5EC1F1 } else { 0xe5338c17 };
    b[0..4].copy_from_slice(&magic.to_le_bytes());
    let mut c = Cursor::new(&b[..]);
    match Sampler::read_le(&mut c) {
        Ok(s) => {
            let ok = match s.texture_usage { TextureUsage::Sampler => which == 0, TextureUsage::SamplerNormal => which == 1, TextureUsage::UnknownDawntrail2 => which == 2, _ => false };
            assert!(ok, "texture usage decoded from its magic");
            assert!(s.flags == le32(&b, 4) && s.texture_index == b[8], "flags and texture index");
            assert!(c.position() == 12, "12 bytes");
        }
        Err(e) => { core::mem::forget(e); assert!(false, "sampler parses"); }
    }
    kani::cover!(true, "reachable");
}
