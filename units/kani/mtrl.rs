//@module src/mtrl.rs
use super::*;
use half::f16;

fn stub_fmt(_a: core::fmt::Arguments<'_>) -> String { String::new() }
fn stub_cpuid(_l: u32, _s: u32) -> std::arch::x86_64::CpuidResult {
    std::arch::x86_64::CpuidResult { eax: 0, ebx: 0, ecx: 0, edx: 0 }
}
fn hw(b: &[u8], i: usize) -> u16 { u16::from_le_bytes([b[2 * i], b[2 * i + 1]]) }
/// value of half-word i of the record (conversion itself is proved IEEE-exact in k_half_to_f32_ieee)
fn hv(b: &[u8], i: usize) -> u32 { f16::from_bits(hw(b, i)).to_f32().to_bits() }

//@unit props=C14 label=P tier=quick fn=mtrl::LegacyColorDyeTableRow(derive) stubs=fmt::format
//@desc all 2^16 words: template = bits 5..15, diffuse/specular/emissive/gloss/specular_strength = bits 0..4, 2 bytes consumed
#[kani::proof]
#[kani::unwind(4)]
#[kani::stub(alloc::fmt::format, stub_fmt)]
fn k_legacy_dye_row() {
    let b: [u8; 2] = kani::any();
    let d = u16::from_le_bytes(b);
    let mut c = Cursor::new(&b[..]);
    match LegacyColorDyeTableRow::read_le(&mut c) {
        Ok(r) => {
            assert!(r.template == d >> 5, "template = bits 5..15");
            assert!(r.diffuse == (d & 1 != 0) && r.specular == (d & 2 != 0) && r.emissive == (d & 4 != 0) && r.gloss == (d & 8 != 0) && r.specular_strength == (d & 16 != 0), "each flag is its own bit");
            assert!(c.position() == 2, "2 bytes");
        }
        Err(e) => { core::mem::forget(e); assert!(false, "dye row parses"); }
    }
    kani::cover!(true, "reachable");
}

//@unit props=C14 label=P tier=quick fn=mtrl::DawntrailColorDyeTableRow(derive) stubs=fmt::format
//@desc all 2^32 words: template = bits 16..26, channel = bits 27..28, each of the 12 flags is its own bit 0..11, 4 bytes consumed
#[kani::proof]
#[kani::unwind(14)]
#[kani::stub(alloc::fmt::format, stub_fmt)]
fn k_dawntrail_dye_row() {
    let b: [u8; 4] = kani::any();
    let d = u32::from_le_bytes(b);
    let mut c = Cursor::new(&b[..]);
    match DawntrailColorDyeTableRow::read_le(&mut c) {
        Ok(r) => {
            assert!(r.template as u32 == (d >> 16) & 0x7FF, "template = bits 16..26");
            assert!(r.channel as u32 == (d >> 27) & 3, "channel = bits 27..28");
            let f = [r.diffuse, r.specular, r.emissive, r.scalar3, r.metalness, r.roughness, r.sheen_rate, r.sheen_tint_rate, r.sheen_aperture, r.anisotropy, r.sphere_map_index, r.sphere_map_mask];
            let mut i = 0;
            while i < 12 { assert!(f[i] == ((d >> i) & 1 != 0), "flag i is bit i"); i += 1; }
            assert!(c.position() == 4, "4 bytes");
        }
        Err(e) => { core::mem::forget(e); assert!(false, "dye row parses"); }
    }
    kani::cover!(true, "reachable");
}

//@unit props=C14 label=S tier=quick fn=mtrl::LegacyColorTableRow(derive) bound="one 32-byte row, all contents" stubs=fmt::format,__cpuid_count
//@desc each named component = binary16 value of its own half-word at its own offset: diffuse 0,1,2; specular strength 3; specular 4,5,6; gloss 7; emissive 8,9,10; tile_set = raw LE word 11; repeat 12,13; skew 14,15; 32 bytes consumed
#[kani::proof]
#[kani::unwind(14)]
#[kani::stub(alloc::fmt::format, stub_fmt)]
#[kani::stub(std::arch::x86_64::__cpuid_count, stub_cpuid)]
fn k_legacy_color_row() {
    let b: [u8; 32] = kani::any();
    let mut c = Cursor::new(&b[..]);
    match LegacyColorTableRow::read_le(&mut c) {
        Ok(r) => {
            assert!(r.diffuse_color[0].to_bits() == hv(&b, 0) && r.diffuse_color[1].to_bits() == hv(&b, 1) && r.diffuse_color[2].to_bits() == hv(&b, 2), "diffuse = halves 0,1,2");
            assert!(r.specular_strength.to_bits() == hv(&b, 3), "specular strength = half 3");
            assert!(r.specular_color[0].to_bits() == hv(&b, 4) && r.specular_color[1].to_bits() == hv(&b, 5) && r.specular_color[2].to_bits() == hv(&b, 6), "specular = halves 4,5,6");
            assert!(r.gloss_strength.to_bits() == hv(&b, 7), "gloss = half 7");
            assert!(r.emissive_color[0].to_bits() == hv(&b, 8) && r.emissive_color[1].to_bits() == hv(&b, 9) && r.emissive_color[2].to_bits() == hv(&b, 10), "emissive = halves 8,9,10");
            assert!(r.tile_set == hw(&b, 11), "tile set = raw word 11");
            assert!(r.material_repeat[0].to_bits() == hv(&b, 12) && r.material_repeat[1].to_bits() == hv(&b, 13), "repeat = halves 12,13");
            assert!(r.material_skew[0].to_bits() == hv(&b, 14) && r.material_skew[1].to_bits() == hv(&b, 15), "skew = halves 14,15");
            assert!(c.position() == 32, "32 bytes");
        }
        Err(e) => { core::mem::forget(e); assert!(false, "row parses"); }
    }
    kani::cover!(true, "reachable");
}

//@unit props=C14 label=S tier=thorough fn=mtrl::DawntrailColorTableRow(derive) bound="one 64-byte row, all contents" stubs=fmt::format,__cpuid_count
//@desc each named component = binary16 value of its own half-word: diffuse 0-2, unknown1 3, specular 4-6, unknown2 7, emissive 8-10, unknown3 11, sheen rate/tint/aperture 12-14, unknown4 15, roughness 16, unknown5 17, metalness 18, anisotropy 19, unknown6 20, sphere_mask 21, unknown7 22, unknown8 23, shader_index/tile_set raw 24,25, tile_alpha 26, sphere_index raw 27, repeat 28,29, skew 30,31
#[kani::proof]
#[kani::unwind(14)]
#[kani::stub(alloc::fmt::format, stub_fmt)]
#[kani::stub(std::arch::x86_64::__cpuid_count, stub_cpuid)]
fn k_dawntrail_color_row() {
    let b: [u8; 64] = kani::any();
    let mut c = Cursor::new(&b[..]);
    match DawntrailColorTableRow::read_le(&mut c) {
        Ok(r) => {
            assert!(r.diffuse_color[0].to_bits() == hv(&b, 0) && r.diffuse_color[1].to_bits() == hv(&b, 1) && r.diffuse_color[2].to_bits() == hv(&b, 2), "diffuse");
            assert!(r.unknown1.to_bits() == hv(&b, 3), "unknown1");
            assert!(r.specular_color[0].to_bits() == hv(&b, 4) && r.specular_color[1].to_bits() == hv(&b, 5) && r.specular_color[2].to_bits() == hv(&b, 6), "specular");
            assert!(r.unknown2.to_bits() == hv(&b, 7), "unknown2");
            assert!(r.emissive_color[0].to_bits() == hv(&b, 8) && r.emissive_color[1].to_bits() == hv(&b, 9) && r.emissive_color[2].to_bits() == hv(&b, 10), "emissive");
            assert!(r.unknown3.to_bits() == hv(&b, 11), "unknown3");
            assert!(r.sheen_rate.to_bits() == hv(&b, 12) && r.sheen_tint.to_bits() == hv(&b, 13) && r.sheen_aperture.to_bits() == hv(&b, 14), "sheen");
            assert!(r.unknown4.to_bits() == hv(&b, 15) && r.roughness.to_bits() == hv(&b, 16) && r.unknown5.to_bits() == hv(&b, 17), "roughness group");
            assert!(r.metalness.to_bits() == hv(&b, 18) && r.anisotropy.to_bits() == hv(&b, 19) && r.unknown6.to_bits() == hv(&b, 20), "metalness group");
            assert!(r.sphere_mask.to_bits() == hv(&b, 21) && r.unknown7.to_bits() == hv(&b, 22) && r.unknown8.to_bits() == hv(&b, 23), "sphere mask group");
            assert!(r.shader_index == hw(&b, 24) && r.tile_set == hw(&b, 25), "raw words 24,25");
            assert!(r.tile_alpha.to_bits() == hv(&b, 26), "tile alpha");
            assert!(r.sphere_index == hw(&b, 27), "raw word 27");
            assert!(r.material_repeat[0].to_bits() == hv(&b, 28) && r.material_repeat[1].to_bits() == hv(&b, 29), "repeat");
            assert!(r.material_skew[0].to_bits() == hv(&b, 30) && r.material_skew[1].to_bits() == hv(&b, 31), "skew");
            assert!(c.position() == 64, "64 bytes");
        }
        Err(e) => { core::mem::forget(e); assert!(false, "row parses"); }
    }
    kani::cover!(true, "reachable");
}

fn le32(b: &[u8], o: usize) -> u32 { u32::from_le_bytes([b[o], b[o + 1], b[o + 2], b[o + 3]]) }
fn le16(b: &[u8], o: usize) -> u16 { u16::from_le_bytes([b[o], b[o + 1]]) }

//@unit props=C14 label=S tier=quick fn=mtrl::{MaterialFileHeader,MaterialHeader,ShaderKey,ConstantStruct,ColorSet}(derive) bound="fixed-size records 16/12/8/8/4 bytes, all contents" stubs=fmt::format
//@desc little-endian field placement and bytes consumed of the plain material records
#[kani::proof]
#[kani::unwind(4)]
#[kani::stub(alloc::fmt::format, stub_fmt)]
fn k_mtrl_plain_records() {
    let b: [u8; 16] = kani::any();
    let mut c = Cursor::new(&b[..]);
    match MaterialFileHeader::read_le(&mut c) {
        Ok(h) => {
            assert!(h.version == le32(&b, 0) && h.file_size == le16(&b, 4) && h.data_set_size == le16(&b, 6) && h.string_table_size == le16(&b, 8) && h.shader_package_name_offset == le16(&b, 10), "file header words");
            assert!(h.texture_count == b[12] && h.uv_set_count == b[13] && h.color_set_count == b[14] && h.additional_data_size == b[15], "file header counts");
            assert!(c.position() == 16, "16 bytes");
        }
        Err(e) => { core::mem::forget(e); assert!(false, "parses"); }
    }
    let mut c = Cursor::new(&b[..]);
    match MaterialHeader::read_le(&mut c) {
        Ok(h) => {
            assert!(h.shader_value_list_size == le16(&b, 0) && h.shader_key_count == le16(&b, 2) && h.constant_count == le16(&b, 4) && h.sampler_count == le16(&b, 6) && h.flags == le32(&b, 8), "material header");
            assert!(c.position() == 12, "12 bytes");
        }
        Err(e) => { core::mem::forget(e); assert!(false, "parses"); }
    }
    let mut c = Cursor::new(&b[..]);
    match ShaderKey::read_le(&mut c) {
        Ok(h) => { assert!(h.category == le32(&b, 0) && h.value == le32(&b, 4), "shader key"); assert!(c.position() == 8, "8 bytes"); }
        Err(e) => { core::mem::forget(e); assert!(false, "parses"); }
    }
    let mut c = Cursor::new(&b[..]);
    match ConstantStruct::read_le(&mut c) {
        Ok(h) => { assert!(h.constant_id == le32(&b, 0) && h.value_offset == le16(&b, 4) && h.value_size == le16(&b, 6), "constant"); assert!(c.position() == 8, "8 bytes"); }
        Err(e) => { core::mem::forget(e); assert!(false, "parses"); }
    }
    kani::cover!(true, "reachable");
}

//@unit props=C14 label=S tier=thorough fn=mtrl::Sampler(derive) bound="12-byte record with the texture-usage magic held at each of 3 listed values (Sampler, SamplerNormal, UnknownDawntrail2), other 8 bytes symbolic" stubs=fmt::format
//@desc usage decoded from the 4-byte magic; flags = LE word at 4; texture_index = byte 8; 12 bytes consumed
#[kani::proof]
#[kani::unwind(4)]
#[kani::stub(alloc::fmt::format, stub_fmt)]
fn k_mtrl_sampler() {
    let mut b: [u8; 12] = kani::any();
    let which: u8 = kani::any();
    kani::assume(which < 3);
    let magic: u32 = if which == 0 { 0x88408C04 } else if which == 1 { 0x0C5EC1F1 } else { 0xe5338c17 };
    b[0..4].copy_from_slice(&magic.to_le_bytes());
    let mut c = Cursor::new(&b[..]);
    match Sampler::read_le(&mut c) {
        Ok(s) => {
            let ok = match s.texture_usage { TextureUsage::Sampler => which == 0, TextureUsage::SamplerNormal => which == 1, TextureUsage::UnknownDawntrail2 => which == 2, _ => false };
            assert!(ok, "texture usage decoded from its magic");
            assert!(s.flags == le32(&b, 4) && s.texture_index == b[8], "flags and texture index");
            assert!(c.position() == 12, "12 bytes");
        }
        Err(e) => { core::mem::forget(e); assert!(false, "sampler parses"); }
    }
    kani::cover!(true, "reachable");
}

//@use_common

fn nmt_half(v: f32) -> [u8; 2] { half::f16::from_f32(v).to_bits().to_le_bytes() }
fn nmt_val(row: usize, k: usize, per_row: usize) -> f32 { (row * per_row + k) as f32 / 4.0 }
struct NmtSpec { dawntrail: bool, textures: Vec<&'static str>, keys: Vec<(u32, u32)>, constants: Vec<(u32, Vec<f32>)>, samplers: Vec<(u32, u32, u8)>, dye: bool, explicit_dims: bool, /* 0 = values stored in listing order, 1 = stored in reverse listing order, 2 = every constant reads from offset 0 of one shared run */ layout: u8 }
/// a material packed by hand in the order the format stores it
fn nmt_material(sp: &NmtSpec) -> Vec<u8> {
    let mut strings: Vec<u8> = vec![]; let mut tex_off = vec![];
    for t in sp.textures.iter() { tex_off.push(strings.len() as u16); strings.extend_from_slice(t.as_bytes()); strings.push(0); }
    let uv_off = strings.len() as u16; strings.extend_from_slice(b"uv0\0");
    let cs_off = strings.len() as u16; strings.extend_from_slice(b"colorset1\0");
    let shpk_off = strings.len() as u16; strings.extend_from_slice(b"character.shpk\0");
    while strings.len() % 4 != 0 { strings.push(0); }
    let mut o: Vec<u8> = vec![];
    o.extend_from_slice(&0x0103_0000u32.to_le_bytes()); o.extend_from_slice(&0u16.to_le_bytes()); o.extend_from_slice(&0u16.to_le_bytes());
    o.extend_from_slice(&(strings.len() as u16).to_le_bytes()); o.extend_from_slice(&shpk_off.to_le_bytes());
    o.push(sp.textures.len() as u8); o.push(1); o.push(1); o.push(4);
    for t in tex_off.iter() { o.extend_from_slice(&t.to_le_bytes()); o.extend_from_slice(&0u16.to_le_bytes()); }
    o.extend_from_slice(&uv_off.to_le_bytes()); o.extend_from_slice(&0u16.to_le_bytes());
    o.extend_from_slice(&cs_off.to_le_bytes()); o.extend_from_slice(&1u16.to_le_bytes());
    o.extend_from_slice(&strings);
    let flags: u32 = 0x4 | if sp.dye { 0x8 } else { 0 } | if sp.dawntrail { 0x53 << 4 } else if sp.explicit_dims { 0x42 << 4 } else { 0 };
    o.extend_from_slice(&flags.to_le_bytes());
    let (rows, per_row) = if sp.dawntrail { (32usize, 32usize) } else { (16, 16) };
    for r in 0..rows { for k in 0..per_row {
        // the integer fields of a row (tile set / shader index / sphere index) hold r*7+k, every other slot a half float
        let is_int = if sp.dawntrail { k == 24 || k == 25 || k == 27 } else { k == 11 };
        if is_int { o.extend_from_slice(&((r * 7 + k) as u16).to_le_bytes()); } else { o.extend_from_slice(&nmt_half(nmt_val(r, k, per_row))); }
    } }
    if sp.dye { for r in 0..rows { if sp.dawntrail { o.extend_from_slice(&(((r as u32 * 67 + 5) & 0x7FF) << 16 | ((r as u32 % 4) << 27) | ((r as u32 * 0x1A5 + 1) & 0xFFF)).to_le_bytes()); } else { o.extend_from_slice(&((((r as u16 * 37 + 3) & 0x7FF) << 5) | (r as u16 % 32)).to_le_bytes()); } } }
    // value storage: the constant entries carry explicit byte offsets, so storage order is independent of listing order
    let (values, offs): (Vec<f32>, Vec<u16>) = match sp.layout {
        1 => { let mut v = vec![]; let mut offs = vec![0u16; sp.constants.len()];
               for (i, c) in sp.constants.iter().enumerate().rev() { offs[i] = (v.len() * 4) as u16; v.extend(c.1.iter().cloned()); } (v, offs) }
        2 => { let longest = sp.constants.iter().map(|c| c.1.clone()).max_by_key(|v| v.len()).unwrap_or_default(); (longest, vec![0u16; sp.constants.len()]) }
        _ => { let mut v = vec![]; let mut offs = vec![]; for c in sp.constants.iter() { offs.push((v.len() * 4) as u16); v.extend(c.1.iter().cloned()); } (v, offs) }
    };
    o.extend_from_slice(&((values.len() * 4) as u16).to_le_bytes()); o.extend_from_slice(&(sp.keys.len() as u16).to_le_bytes());
    o.extend_from_slice(&(sp.constants.len() as u16).to_le_bytes()); o.extend_from_slice(&(sp.samplers.len() as u16).to_le_bytes()); o.extend_from_slice(&0x11u32.to_le_bytes());
    for (c, v) in sp.keys.iter() { o.extend_from_slice(&c.to_le_bytes()); o.extend_from_slice(&v.to_le_bytes()); }
    for (k, (id, vals)) in sp.constants.iter().enumerate() { o.extend_from_slice(&id.to_le_bytes()); o.extend_from_slice(&offs[k].to_le_bytes()); o.extend_from_slice(&((vals.len() * 4) as u16).to_le_bytes()); }
    for (usage, fl, ti) in sp.samplers.iter() { o.extend_from_slice(&usage.to_le_bytes()); o.extend_from_slice(&fl.to_le_bytes()); o.push(*ti); o.extend_from_slice(&[0u8; 3]); }
    for v in values.iter() { o.extend_from_slice(&v.to_le_bytes()); }
    o
}
fn nmt_specs() -> Vec<NmtSpec> {
    vec![
        NmtSpec { dawntrail: false, textures: vec![], keys: vec![], constants: vec![], samplers: vec![], dye: false, explicit_dims: false, layout: 0 },
        NmtSpec { dawntrail: false, textures: vec!["chara/equipment/e0001/texture/v01_c0101e0001_top_n.tex", "chara/common/texture/-tile_d.tex"], keys: vec![(0xB616DC5A, 0x5CC605B5)], constants: vec![(0x29AC0223, vec![0.5]), (0x575ABFB2, vec![1.0, 2.0, 3.0, 4.0])], samplers: vec![(0x0C5EC1F1, 0x000F8340, 0), (0x115306BE, 0x2, 1)], dye: true, explicit_dims: false, layout: 0 },
        NmtSpec { dawntrail: true, textures: vec!["bg/ex5/01_xkt_x6/common/texture/x6a0_b0_flor1_d.tex"], keys: vec![(1, 2), (3, 4), (0xFFFFFFFF, 0)], constants: vec![(7, vec![1.5, -2.25]), (8, vec![0.0, 0.25, 1e9])], samplers: vec![(0x8A4E82B6, 7, 0)], dye: true, explicit_dims: false, layout: 0 },
        NmtSpec { dawntrail: false, textures: vec!["legacy/with/explicit/4x16.tex"], keys: vec![(5, 6)], constants: vec![(11, vec![2.5, 3.5])], samplers: vec![(0x2B99E025, 1, 0)], dye: false, explicit_dims: true, layout: 0 },
        NmtSpec { dawntrail: true, textures: vec!["a.tex", "b.tex", "c.tex"], keys: vec![], constants: vec![(9, vec![3.0])], samplers: vec![], dye: false, explicit_dims: false, layout: 0 },
        // texture paths with bytes >= 0x80 in front of other paths
        NmtSpec { dawntrail: false, textures: vec!["chara/mon\u{e9}ster/t\u{fc}r.tex", "chara/common/texture/second.tex", "\u{65e5}\u{672c}.tex", "last.tex"], keys: vec![], constants: vec![(1, vec![1.0])], samplers: vec![], dye: false, explicit_dims: false, layout: 0 },
        // constants whose values are NOT stored in listing order (reverse storage) and constants sharing one run of values (prefixes of [6, 7, 8, 9])
        NmtSpec { dawntrail: false, textures: vec!["r.tex"], keys: vec![], constants: vec![(21, vec![1.0, 2.0]), (22, vec![3.0]), (23, vec![4.0, 5.0, 6.0, 7.0])], samplers: vec![], dye: false, explicit_dims: false, layout: 1 },
        NmtSpec { dawntrail: true, textures: vec![], keys: vec![(1, 1)], constants: vec![(31, vec![6.0, 7.0]), (32, vec![6.0, 7.0, 8.0, 9.0]), (33, vec![6.0])], samplers: vec![], dye: false, explicit_dims: false, layout: 2 },
    ]
}

//@unit props=C14 label=B tier=quick native=1 fn=mtrl::Material::from_existing bound="by execution: dye-table-only materials for 6 Dawntrail dimension bytes incl. both ends 0x50 and 0x5F; 8 hand-packed materials (texture paths with non-ASCII bytes followed by further paths; constants stored in listing order, in reverse order and sharing one run of values; legacy 16-row colour tables with implicit and with explicit 4x16 dimension bits, Dawntrail 32-row colour tables with a distinct exactly-representable half in every slot, with and without dye tables, 0..3 textures, 0..3 keys, constants of 1..4 floats, 0..2 samplers)"
//@desc the parsed material returns the shader package name, the texture paths in order, the keys, every constant with its own floats and count, the samplers, and every colour-table and dye-table row holds the values stored at its own position (row r, slot k)
#[test]
fn native_mtrl_parse() {
    let mut cases = 0u64;
    for sp in nmt_specs().iter() {
        let m = Material::from_existing(&nmt_material(sp)).expect("a well-formed material parses");
        assert_eq!(m.shader_package_name, "character.shpk");
        // every stored byte of a path becomes one character (bytes >= 0x80 included), and the next path starts right after the terminator
        assert_eq!(m.texture_paths, sp.textures.iter().map(|s| s.bytes().map(|b| b as char).collect::<String>()).collect::<Vec<_>>(), "texture paths in order");
        assert_eq!(m.shader_keys.iter().map(|k| (k.category, k.value)).collect::<Vec<_>>(), sp.keys, "shader keys");
        assert_eq!(m.constants.len(), sp.constants.len());
        for (c, (id, vals)) in m.constants.iter().zip(sp.constants.iter()) {
            assert_eq!((c.id, c.num_values as usize), (*id, vals.len()), "constant id and count");
            assert_eq!(&c.values[..vals.len()], &vals[..], "constant {id:#x} holds its own floats");
        }
        assert_eq!(m.samplers.iter().map(|s| (s.flags, s.texture_index)).collect::<Vec<_>>(), sp.samplers.iter().map(|s| (s.1, s.2)).collect::<Vec<_>>(), "samplers");
        match (&m.color_table, sp.dawntrail) {
            (Some(ColorTable::LegacyColorTable(t)), false) => {
                assert_eq!(t.rows.len(), 16);
                for (r, row) in t.rows.iter().enumerate() {
                    let v = |k: usize| nmt_val(r, k, 16);
                    assert_eq!((row.diffuse_color, row.specular_strength, row.specular_color, row.gloss_strength, row.emissive_color), ([v(0), v(1), v(2)], v(3), [v(4), v(5), v(6)], v(7), [v(8), v(9), v(10)]), "legacy row {r}: colours");
                    assert_eq!((row.tile_set, row.material_repeat, row.material_skew), ((r * 7 + 11) as u16, [v(12), v(13)], [v(14), v(15)]), "legacy row {r}: tile set, repeat, skew");
                }
            }
            (Some(ColorTable::DawntrailColorTable(t)), true) => {
                assert_eq!(t.rows.len(), 32);
                for (r, row) in t.rows.iter().enumerate() {
                    let v = |k: usize| nmt_val(r, k, 32);
                    assert_eq!((row.diffuse_color, row.unknown1, row.specular_color, row.unknown2, row.emissive_color, row.unknown3), ([v(0), v(1), v(2)], v(3), [v(4), v(5), v(6)], v(7), [v(8), v(9), v(10)], v(11)), "dawntrail row {r}: colours");
                    assert_eq!((row.sheen_rate, row.sheen_tint, row.sheen_aperture, row.unknown4, row.roughness, row.unknown5, row.metalness, row.anisotropy, row.unknown6, row.sphere_mask, row.unknown7, row.unknown8),
                               (v(12), v(13), v(14), v(15), v(16), v(17), v(18), v(19), v(20), v(21), v(22), v(23)), "dawntrail row {r}: scalars");
                    assert_eq!((row.shader_index, row.tile_set, row.tile_alpha, row.sphere_index, row.material_repeat, row.material_skew), ((r * 7 + 24) as u16, (r * 7 + 25) as u16, v(26), (r * 7 + 27) as u16, [v(28), v(29)], [v(30), v(31)]), "dawntrail row {r}: indices, repeat, skew");
                }
            }
            _ => panic!("colour table kind does not match the table flags"),
        }
        match (&m.color_dye_table, sp.dye, sp.dawntrail) {
            (None, false, _) => {}
            (Some(ColorDyeTable::LegacyColorDyeTable(t)), true, false) => { for (r, row) in t.rows.iter().enumerate() { let d = (((r as u16 * 37 + 3) & 0x7FF) << 5) | (r as u16 % 32);
                assert_eq!((row.template, row.diffuse, row.specular, row.emissive, row.gloss, row.specular_strength), (d >> 5, d & 1 != 0, d & 2 != 0, d & 4 != 0, d & 8 != 0, d & 16 != 0), "legacy dye row {r}"); } }
            (Some(ColorDyeTable::DawntrailColorDyeTable(t)), true, true) => { for (r, row) in t.rows.iter().enumerate() {
                assert_eq!((row.template as u32, row.channel as u32, row.diffuse, row.sphere_map_mask), ((r as u32 * 67 + 5) & 0x7FF, r as u32 % 4, (r as u32 * 0x1A5 + 1) & 1 != 0, (r as u32 * 0x1A5 + 1) & 0x800 != 0), "dawntrail dye row {r}"); } }
            _ => panic!("dye table kind does not match the table flags"),
        }
        cases += 1;
    }
    // dye-table-only materials over the whole range of Dawntrail dimension bytes 0x50..=0x5F (both ends included): 32 four-byte rows each
    for dims in [0x50u32, 0x51, 0x53, 0x5A, 0x5E, 0x5F] {
        let strings = b"dye.shpk\0\0\0\0";
        let mut o: Vec<u8> = vec![];
        o.extend_from_slice(&0x0103_0000u32.to_le_bytes()); o.extend_from_slice(&0u16.to_le_bytes()); o.extend_from_slice(&128u16.to_le_bytes());
        o.extend_from_slice(&(strings.len() as u16).to_le_bytes()); o.extend_from_slice(&0u16.to_le_bytes()); o.extend_from_slice(&[0, 0, 0, 4]);
        o.extend_from_slice(strings);
        o.extend_from_slice(&(0x8u32 | (dims << 4)).to_le_bytes());
        let word = |r: u32| ((r % 4) << 27) | (((r * 61 + 9) & 0x7FF) << 16) | ((r * 0x2B3 + 5) & 0xFFF);
        for r in 0..32u32 { o.extend_from_slice(&word(r).to_le_bytes()); }
        o.extend_from_slice(&[0u8; 12]);
        let m = Material::from_existing(&o).expect("a dye-table-only material parses");
        assert_eq!(m.shader_package_name, "dye.shpk");
        match &m.color_dye_table {
            Some(ColorDyeTable::DawntrailColorDyeTable(t)) => {
                assert_eq!(t.rows.len(), 32, "32 dye rows for dimension byte {dims:#x}");
                for (r, row) in t.rows.iter().enumerate() { let w = word(r as u32);
                    assert_eq!((row.template as u32, row.channel as u32, row.diffuse, row.sphere_map_mask), ((w >> 16) & 0x7FF, (w >> 27) & 3, w & 1 != 0, w & 0x800 != 0), "dye row {r} for dimension byte {dims:#x}"); }
            }
            _ => panic!("dimension byte {dims:#x} lies in the Dawntrail range 0x50..=0x5F: a Dawntrail dye table is expected"),
        }
        cases += 1;
    }
    println!("NATIVE native_mtrl_parse cases={cases}");
}

//@unit props=C18 label=B tier=quick native=1 fn=mtrl::Material::from_existing bound="by execution: the legacy and the Dawntrail material of native_mtrl_parse with all tables populated: every truncation; 7 single-byte corruptions per byte of everything outside the colour table rows, and of every 16th byte inside them (thorough tier: every byte)"
//@desc damaged materials (truncated anywhere, any count, offset, size, flag, magic or string byte damaged) yield None or a value, never a panic
#[test]
fn native_mtrl_damaged_nopanic() {
    let f = |b: &[u8]| { let _ = Material::from_existing(b); };
    let mut s = NativeSites::new();
    let specs = nmt_specs();
    for sp in [&specs[1], &specs[2]] {
        let v = nmt_material(sp);
        let head = 16 + sp.textures.len() * 4 + 8 + 200;
        let table = if sp.dawntrail { 2048 } else { 512 };
        s.sweep(&v, head.min(v.len()), if native_thorough() { 1 } else { 16 }, &f);
        let mut w = v.clone();
        for i in (head + table).min(v.len())..v.len() { let o = v[i]; for c in [0u8, 1, 0x7F, 0x80, 0xFF, o.wrapping_add(1), o.wrapping_sub(1)] { if c != o { w[i] = c; s.run(&f, &w, &format!("byte {i} changed from {o:#04x} to {c:#04x}")); } } w[i] = o; }
    }
    s.finish("native_mtrl_damaged_nopanic");
}
