//@module src/pbd.rs
use super::*;

fn stub_fmt(_a: core::fmt::Arguments<'_>) -> String { String::new() }

//@unit props=C16 label=P tier=quick fn=pbd::PreBoneDeformerLink(derive) stubs=fmt::format
//@desc all 8-byte contents: parent, first child, next sibling (i16) and deformer index (u16) little-endian at 0,2,4,6
#[kani::proof]
#[kani::unwind(4)]
#[kani::stub(alloc::fmt::format, stub_fmt)]
fn k_pbd_link_record() {
    let b: [u8; 8] = kani::any();
    let mut c = Cursor::new(&b[..]);
    match PreBoneDeformerLink::read(&mut c) {
        Ok(l) => {
            assert!(l.parent_index == i16::from_le_bytes([b[0], b[1]]) && l.first_child_index == i16::from_le_bytes([b[2], b[3]]) && l.next_sibling_index == i16::from_le_bytes([b[4], b[5]]) && l.deformer_index == u16::from_le_bytes([b[6], b[7]]), "link fields");
            assert!(c.position() == 8, "8 bytes");
        }
        Err(e) => { core::mem::forget(e); assert!(false, "parses"); }
    }
    kani::cover!(true, "reachable");
}

fn item(body_id: u16, link_index: i16, m: Option<[f32; 12]>) -> PreBoneDeformerItem {
    let (n, names, tr) = match m { Some(t) => (1, vec![String::new()], vec![t]), None => (0, vec![], vec![]) };
    PreBoneDeformerItem { body_id, link_index, deformer: RacialDeformer { bone_count: n, bone_name_offsets: vec![], bone_names: names, transform: tr } }
}
fn link(parent: i16, sibling: i16, deformer: u16) -> PreBoneDeformerLink {
    PreBoneDeformerLink { parent_index: parent, first_child_index: -1, next_sibling_index: sibling, deformer_index: deformer }
}

fn mat(x: f32) -> [f32; 12] { let mut m = [0.0f32; 12]; m[0] = x; m[11] = x; m }

//@unit props=C16 label=B tier=parked fn=pbd::PreBoneDeformer::get_deform_matrices bound="deformer with 3 items on one parent chain (leaf -> middle -> root), one bone each with a symbolic matrix entry; body ids 101, 201, 301; target one of {201, 301, unknown 999}"
//@desc the result holds the matrices of each node on the parent chain from `from` up to, excluding, `to` (or up to and including the root), in chain order
#[kani::proof]
#[kani::unwind(5)]
#[kani::stub(alloc::fmt::format, stub_fmt)]
fn k_pbd_chain_walk() {
    let x: [f32; 3] = kani::any();
    // item i uses link i; chain: item0 (leaf, has a sibling) -> item1 -> item2 (root)
    let pbd = PreBoneDeformer { header: PreBoneDeformerHeader { count: 3,
        items: vec![item(101, 0, Some(mat(x[0]))), item(201, 1, Some(mat(x[1]))), item(301, 2, Some(mat(x[2])))],
        links: vec![link(1, 5, 0), link(2, -1, 1), link(-1, -1, 2)] } };
    let sel: u8 = kani::any();
    kani::assume(sel < 3);
    let to: u16 = if sel == 0 { 201 } else if sel == 1 { 301 } else { 999 };
    match pbd.get_deform_matrices(101, to) {
        Some(r) => {
            let want = sel as usize + 1;
            assert!(r.bones.len() == want, "one bone per node on the chain from `from` up to, excluding, `to`");
            let k: usize = kani::any();
            kani::assume(k < want);
            assert!(r.bones[k].deform[0].to_bits() == x[k].to_bits() && r.bones[k].deform[11].to_bits() == x[k].to_bits(), "matrix of chain node k, in chain order");
            core::mem::forget(r);
        }
        None => assert!(false, "a leaf with a sibling link yields matrices"),
    }
    kani::cover!(true, "reachable");
    core::mem::forget(pbd);
}

//@unit props=C16 label=B tier=parked fn=pbd::PreBoneDeformer::get_deform_matrices bound="same 3-item deformer; from == to, and an unknown from id"
//@desc None when from = to or the body id is unknown
#[kani::proof]
#[kani::unwind(5)]
#[kani::stub(alloc::fmt::format, stub_fmt)]
fn k_pbd_no_result() {
    let pbd = PreBoneDeformer { header: PreBoneDeformerHeader { count: 3,
        items: vec![item(101, 0, None), item(201, 1, None), item(301, 2, None)],
        links: vec![link(1, 5, 0), link(2, -1, 1), link(-1, -1, 2)] } };
    let id: u16 = kani::any();
    assert!(pbd.get_deform_matrices(id, id).is_none(), "from == to yields nothing");
    let to: u16 = kani::any();
    kani::assume(id != 101 && id != 201 && id != 301);
    assert!(pbd.get_deform_matrices(id, to).is_none(), "unknown body id yields nothing");
    kani::cover!(true, "reachable");
    core::mem::forget(pbd);
}

// items sorted by body id, links stored in a different order (links[i].deformer_index != i), chain 101 -> 201 -> 301 (root)
fn mk_shuffled(x: [f32; 3]) -> PreBoneDeformer {
    PreBoneDeformer { header: PreBoneDeformerHeader { count: 3,
        items: vec![item(101, 2, Some(mat(x[0]))), item(201, 0, Some(mat(x[1]))), item(301, 1, Some(mat(x[2])))],
        links: vec![link(1, -1, 1), link(-1, -1, 2), link(0, 5, 0)] } }
}
fn walk_contract(to: u16, want: usize) {
    // concrete, pairwise distinct matrices (symbolic floats push CBMC past the cap on this walk)
    let x: [f32; 3] = [1.5, -2.25, 3.0];
    let pbd = mk_shuffled(x);
    match pbd.get_deform_matrices(101, to) {
        Some(r) => {
            assert!(r.bones.len() == want, "one bone per node on the chain from `from` up to, excluding, `to` (or up to and including the root)");
            let mut k = 0;
            while k < want { assert!(r.bones[k].deform[0].to_bits() == x[k].to_bits() && r.bones[k].deform[11].to_bits() == x[k].to_bits(), "matrix of chain node k, in chain order"); k += 1; }
            core::mem::forget(r);
        }
        None => assert!(false, "a leaf with a sibling link yields matrices"),
    }
    kani::cover!(true, "reachable");
    core::mem::forget(pbd);
}

//@unit props=C16 label=B tier=parked fn=pbd::PreBoneDeformer::get_deform_matrices bound="3-node chain 101 -> 201 -> 301 with the link table stored in a different order than the item table; one bone per node with concrete, pairwise distinct matrices; query 101 -> 301 (a single concrete deformer: the weakest kind of bounded check)"
//@desc the walk follows parent links and takes each ancestor's item through the link's deformer index: matrices of 101 and 201, in chain order, stopping before 301
#[kani::proof]
#[kani::unwind(5)]
#[kani::stub(alloc::fmt::format, stub_fmt)]
fn k_pbd_walk_to_grandparent() { walk_contract(301, 2); }

//@unit props=C16 label=B tier=parked fn=pbd::PreBoneDeformer::get_deform_matrices bound="same 3-node deformer; query 101 -> 999 (target not on the chain)"
//@desc with a target that is not an ancestor the walk runs up to and including the root: matrices of 101, 201, 301
#[kani::proof]
#[kani::unwind(5)]
#[kani::stub(alloc::fmt::format, stub_fmt)]
fn k_pbd_walk_to_root() { walk_contract(999, 3); }
