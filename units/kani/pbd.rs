//@module src/pbd.rs
use super::*;

fn stub_fmt(_a: core::fmt::Arguments<'_>) -> String { String::new() }

//@unit props=C16 label=P tier=quick fn=pbd::PreBoneDeformerLink(derive) stubs=fmt::format
//@desc all 8-byte contents: parent, first child, next sibling (i16) and deformer index (u16) little-endian at 0,2,4,6
#[kani::proof]
#[kani::unwind(4)]
#[kani::stub(alloc::fmt::format, stub_fmt)]
fn k_pbd_link_record() {
    let b: [u8; 8] = kani::any();
    let mut c = Cursor::new(&b[..]);
    match PreBoneDeformerLink::read(&mut c) {
        Ok(l) => {
            assert!(l.parent_index == i16::from_le_bytes([b[0], b[1]]) && l.first_child_index == i16::from_le_bytes([b[2], b[3]]) && l.next_sibling_index == i16::from_le_bytes([b[4], b[5]]) && l.deformer_index == u16::from_le_bytes([b[6], b[7]]), "link fields");
            assert!(c.position() == 8, "8 bytes");
        }
        Err(e) => { core::mem::forget(e); assert!(false, "parses"); }
    }
    kani::cover!(true, "reachable");
}

fn item(body_id: u16, link_index: i16, m: Option<[f32; 12]>) -> PreBoneDeformerItem {
    let (n, names, tr) = match m { Some(t) => (1, vec![String::new()], vec![t]), None => (0, vec![], vec![]) };
    PreBoneDeformerItem { body_id, link_index, deformer: RacialDeformer { bone_count: n, bone_name_offsets: vec![], bone_names: names, transform: tr } }
}
fn link(parent: i16, sibling: i16, deformer: u16) -> PreBoneDeformerLink {
    PreBoneDeformerLink { parent_index: parent, first_child_index: -1, next_sibling_index: sibling, deformer_index: deformer }
}

fn mat(x: f32) -> [f32; 12] { let mut m = [0.0f32; 12]; m[0] = x; m[11] = x; m }

//@unit props=C16 label=B tier=parked fn=pbd::PreBoneDeformer::get_deform_matrices bound="deformer with 3 items on one parent chain (leaf -> middle -> root), one bone each with a symbolic matrix entry; body ids 101, 201, 301; target one of {201, 301, unknown 999}"
//@desc the result holds the matrices of each node on the parent chain from `from` up to, excluding, `to` (or up to and including the root), in chain order
#[kani::proof]
#[kani::unwind(5)]
#[kani::stub(alloc::fmt::format, stub_fmt)]
fn k_pbd_chain_walk() {
    let x: [f32; 3] = kani::any();
    // item i uses link i; chain: item0 (leaf, has a sibling) -> item1 -> item2 (root)
    let pbd = PreBoneDeformer { header: PreBoneDeformerHeader { count: 3,
        items: vec![item(101, 0, Some(mat(x[0]))), item(201, 1, Some(mat(x[1]))), item(301, 2, Some(mat(x[2])))],
        links: vec![link(1, 5, 0), link(2, -1, 1), link(-1, -1, 2)] } };
    let sel: u8 = kani::any();
    kani::assume(sel < 3);
    let to: u16 = if sel == 0 { 201 } else if sel == 1 { 301 } else { 999 };
    match pbd.get_deform_matrices(101, to) {
        Some(r) => {
            let want = sel as usize + 1;
            assert!(r.bones.len() == want, "one bone per node on the chain from `from` up to, excluding, `to`");
            let k: usize = kani::any();
            kani::assume(k < want);
            assert!(r.bones[k].deform[0].to_bits() == x[k].to_bits() && r.bones[k].deform[11].to_bits() == x[k].to_bits(), "matrix of chain node k, in chain order");
            core::mem::forget(r);
        }
        None => assert!(false, "a leaf with a sibling link yields matrices"),
    }
    kani::cover!(true, "reachable");
    core::mem::forget(pbd);
}

//@unit props=C16 label=B tier=parked fn=pbd::PreBoneDeformer::get_deform_matrices bound="same 3-item deformer; from == to, and an unknown from id"
//@desc None when from = to or the body id is unknown
#[kani::proof]
#[kani::unwind(5)]
#[kani::stub(alloc::fmt::format, stub_fmt)]
fn k_pbd_no_result() {
    let pbd = PreBoneDeformer { header: PreBoneDeformerHeader { count: 3,
        items: vec![item(101, 0, None), item(201, 1, None), item(301, 2, None)],
        links: vec![link(1, 5, 0), link(2, -1, 1), link(-1, -1, 2)] } };
    let id: u16 = kani::any();
    assert!(pbd.get_deform_matrices(id, id).is_none(), "from == to yields nothing");
    let to: u16 = kani::any();
    kani::assume(id != 101 && id != 201 && id != 301);
    assert!(pbd.get_deform_matrices(id, to).is_none(), "unknown body id yields nothing");
    kani::cover!(true, "reachable");
    core::mem::forget(pbd);
}

// items sorted by body id, links stored in a different order (links[i].deformer_index != i), chain 101 -> 201 -> 301 (root)
fn mk_shuffled(x: [f32; 3]) -> PreBoneDeformer {
    PreBoneDeformer { header: PreBoneDeformerHeader { count: 3,
        items: vec![item(101, 2, Some(mat(x[0]))), item(201, 0, Some(mat(x[1]))), item(301, 1, Some(mat(x[2])))],
        links: vec![link(1, -1, 1), link(-1, -1, 2), link(0, 5, 0)] } }
}
fn walk_contract(to: u16, want: usize) {
    // concrete, pairwise distinct matrices (symbolic floats push CBMC past the cap on this walk)
    let x: [f32; 3] = [1.5, -2.25, 3.0];
    let pbd = mk_shuffled(x);
    match pbd.get_deform_matrices(101, to) {
        Some(r) => {
            assert!(r.bones.len() == want, "one bone per node on the chain from `from` up to, excluding, `to` (or up to and including the root)");
            let mut k = 0;
            while k < want { assert!(r.bones[k].deform[0].to_bits() == x[k].to_bits() && r.bones[k].deform[11].to_bits() == x[k].to_bits(), "matrix of chain node k, in chain order"); k += 1; }
            core::mem::forget(r);
        }
        None => assert!(false, "a leaf with a sibling link yields matrices"),
    }
    kani::cover!(true, "reachable");
    core::mem::forget(pbd);
}

//@unit props=C16 label=B tier=parked fn=pbd::PreBoneDeformer::get_deform_matrices bound="3-node chain 101 -> 201 -> 301 with the link table stored in a different order than the item table; one bone per node with concrete, pairwise distinct matrices; query 101 -> 301 (a single concrete deformer: the weakest kind of bounded check)"
//@desc the walk follows parent links and takes each ancestor's item through the link's deformer index: matrices of 101 and 201, in chain order, stopping before 301
#[kani::proof]
#[kani::unwind(5)]
#[kani::stub(alloc::fmt::format, stub_fmt)]
fn k_pbd_walk_to_grandparent() { walk_contract(301, 2); }

//@unit props=C16 label=B tier=parked fn=pbd::PreBoneDeformer::get_deform_matrices bound="same 3-node deformer; query 101 -> 999 (target not on the chain)"
//@desc with a target that is not an ancestor the walk runs up to and including the root: matrices of 101, 201, 301
#[kani::proof]
#[kani::unwind(5)]
#[kani::stub(alloc::fmt::format, stub_fmt)]
fn k_pbd_walk_to_root() { walk_contract(999, 3); }

//@use_common

struct NpbNode { body_id: u16, link_index: i16, bones: Vec<(String, [f32; 12])> }
struct NpbLink { parent: i16, first_child: i16, next_sibling: i16, deformer: u16 }
fn npb_matrix(seed: f32) -> [f32; 12] { let mut m = [0.0f32; 12]; for (i, v) in m.iter_mut().enumerate() { *v = seed + i as f32 * 0.25; } m }
/// a deformer file packed by hand: count, items (body id, link index, data offset, 4 pad bytes), links, then one blob per item (bone count, name offsets, padding, 4x3 matrices, names)
fn npb_file(nodes: &[NpbNode], links: &[NpbLink]) -> Vec<u8> { npb_file_shift(nodes, links, 0) }
/// the same file with `shift` filler bytes between the tables and the first blob (the items carry absolute blob offsets, so blobs may start at any file offset)
fn npb_file_shift(nodes: &[NpbNode], links: &[NpbLink], shift: usize) -> Vec<u8> {
    let count = nodes.len();
    let tables_end = 4 + count * 12 + links.len() * 8 + shift;
    let mut blobs: Vec<Vec<u8>> = vec![]; let mut offsets = vec![]; let mut at = tables_end;
    for node in nodes {
        let n = node.bones.len(); let pad = if n & 1 != 0 { 2 } else { 0 };
        let strings_start = 4 + n * 2 + pad + n * 48;
        let mut name_offsets = vec![]; let mut strings: Vec<u8> = vec![];
        for (name, _) in &node.bones { name_offsets.push((strings_start + strings.len()) as u16); strings.extend_from_slice(name.as_bytes()); strings.push(0); }
        while (strings_start + strings.len()) % 4 != 0 { strings.push(0); }
        let mut blob: Vec<u8> = vec![];
        blob.extend_from_slice(&(n as i32).to_le_bytes());
        for o in &name_offsets { blob.extend_from_slice(&o.to_le_bytes()); }
        if pad != 0 { blob.extend_from_slice(&0u16.to_le_bytes()); }
        for (_, m) in &node.bones { for v in m { blob.extend_from_slice(&v.to_le_bytes()); } }
        blob.extend_from_slice(&strings);
        offsets.push(at); at += blob.len(); blobs.push(blob);
    }
    let mut out: Vec<u8> = vec![];
    out.extend_from_slice(&(count as i32).to_le_bytes());
    for (node, off) in nodes.iter().zip(&offsets) { out.extend_from_slice(&node.body_id.to_le_bytes()); out.extend_from_slice(&node.link_index.to_le_bytes()); out.extend_from_slice(&(*off as i32).to_le_bytes()); out.extend_from_slice(&[0u8; 4]); }
    for l in links { out.extend_from_slice(&l.parent.to_le_bytes()); out.extend_from_slice(&l.first_child.to_le_bytes()); out.extend_from_slice(&l.next_sibling.to_le_bytes()); out.extend_from_slice(&l.deformer.to_le_bytes()); }
    out.extend(std::iter::repeat(0xEEu8).take(shift));
    for b in &blobs { out.extend_from_slice(b); }
    out
}
/// forest: parents[i] = index of the parent node or usize::MAX; the link of node i is stored at position perm[i] of the link table
fn npb_forest(parents: &[usize], perm: &[usize], nbones: &[usize]) -> (Vec<NpbNode>, Vec<NpbLink>) {
    let n = parents.len();
    let nodes: Vec<NpbNode> = (0..n).map(|i| NpbNode { body_id: (101 + 100 * i) as u16, link_index: perm[i] as i16, bones: (0..nbones[i]).map(|b| (format!("j_bone_{i}_{b}"), npb_matrix((i * 100 + b * 10) as f32))).collect() }).collect();
    let mut links: Vec<NpbLink> = (0..n).map(|_| NpbLink { parent: -1, first_child: -1, next_sibling: -1, deformer: 0 }).collect();
    for i in 0..n {
        let kids: Vec<usize> = (0..n).filter(|k| parents[*k] == i).collect();
        let sibs: Vec<usize> = (0..n).filter(|k| parents[*k] == parents[i]).collect();
        let pos = sibs.iter().position(|k| *k == i).unwrap();
        links[perm[i]] = NpbLink { parent: if parents[i] == usize::MAX { -1 } else { perm[parents[i]] as i16 }, first_child: kids.first().map(|k| perm[*k] as i16).unwrap_or(-1),
                                   next_sibling: sibs.get(pos + 1).map(|k| perm[*k] as i16).unwrap_or(-1), deformer: i as u16 };
    }
    (nodes, links)
}

//@unit props=C16 label=B tier=quick native=1 fn=pbd::PreBoneDeformer::{from_existing,get_deform_matrices} bound="by execution: 4 forests of 1..7 body ids (chains, a two-level tree, two roots) x 3 orders of the link table (same as the items, reversed, rotated) with 0..3 bones per node x blobs starting at file offsets 0, 1, 2, 3 mod 4: every ordered pair of body ids whose start node has a next sibling"
//@desc the matrices returned between two body ids are the named 4x3 matrices stored along the parent chain from the start node up to (not including) the target, or up to and including the root when the target is not an ancestor; names and matrices are the stored ones, in chain order; equal ids yield nothing
#[test]
fn native_pbd_chain() {
    let mut cases = 0u64;
    let m = usize::MAX;
    let forests: Vec<Vec<usize>> = vec![vec![m], vec![m, 0, 0, 1, 1], vec![m, 0, 1, 2, 3, 4, 5], vec![m, 0, 0, m, 3, 3, 4]];
    for parents in forests.iter() {
        let n = parents.len();
        for order in 0..3usize {
            let perm: Vec<usize> = (0..n).map(|i| match order { 0 => i, 1 => n - 1 - i, _ => (i + 2) % n }).collect();
            let nbones: Vec<usize> = (0..n).map(|i| (i + order) % 4).collect();
            let (nodes, links) = npb_forest(parents, &perm, &nbones);
            for shift in [0usize, 2, 1, 3] {
            let pbd = PreBoneDeformer::from_existing(&npb_file_shift(&nodes, &links, shift)).expect("a well-formed deformer parses");
            for from in 0..n { for to in 0..n {
                let got = pbd.get_deform_matrices(nodes[from].body_id, nodes[to].body_id);
                if from == to { assert!(got.is_none(), "equal body ids yield nothing"); cases += 1; continue; }
                if links[perm[from]].next_sibling == -1 { continue; } // undocumented case, left unconstrained by the property
                let mut want: Vec<(String, [f32; 12])> = vec![]; let mut cur = from;
                loop { want.extend(nodes[cur].bones.iter().cloned()); if parents[cur] == m { break; } cur = parents[cur]; if cur == to { break; } }
                let got: Vec<(String, [f32; 12])> = got.expect("a start node with a sibling link yields matrices").bones.iter().map(|b| (b.name.clone(), b.deform)).collect();
                assert_eq!(got, want, "chain from {} to {} (forest of {n}, link order {order}, blobs at file offset {shift} mod 4)", nodes[from].body_id, nodes[to].body_id);
                cases += 1;
            } }
            }
        }
    }
    println!("NATIVE native_pbd_chain cases={cases}");
}

//@unit props=C18 label=B tier=quick native=1 fn=pbd::PreBoneDeformer::{from_existing,get_deform_matrices} bound="by execution: the 5-node two-level tree with a reversed link table: every truncation and 7 single-byte corruptions per byte of the item and link tables and of the first blob, each followed by get_deform_matrices for 6 pairs of ids, under a 30 s deadline per case; plus hand-made cyclic parent links (self-loop, 2-cycle, 3-cycle)"
//@desc damaged deformers (truncated, any count, index, link or offset damaged, cyclic parent links) make parsing and the chain walk return None or a value - no panic, and no walk that never ends
#[test]
fn native_pbd_damaged_nopanic() {
    let m = usize::MAX;
    let parents = vec![m, 0, 0, 1, 1];
    let perm: Vec<usize> = (0..5).map(|i| 4 - i).collect();
    let (nodes, links) = npb_forest(&parents, &perm, &[1, 2, 0, 1, 2]);
    let v = npb_file(&nodes, &links);
    let walk = |b: &[u8]| { if let Some(p) = PreBoneDeformer::from_existing(b) { for (a, z) in [(401u16, 101u16), (301, 101), (201, 101), (501, 201), (101, 501), (401, 999)] { let _ = p.get_deform_matrices(a, z); } } };
    let mut s = NativeSites::new();
    let guarded = move |b: &[u8]| { let owned = b.to_vec(); native_with_deadline(30, "get_deform_matrices on a damaged deformer", move || walk(&owned)); };
    // cyclic parent links first: the classic way to make the walk run for ever
    for cyc in 0..3usize {
        let (n2, mut l2) = npb_forest(&parents, &perm, &[1, 2, 0, 1, 2]);
        match cyc { 0 => { l2[perm[3]].parent = perm[3] as i16; } 1 => { l2[perm[1]].parent = perm[3] as i16; } _ => { l2[perm[0]].parent = perm[3] as i16; } }
        s.run(&guarded, &npb_file(&n2, &l2), &format!("cyclic parent links (variant {cyc})"));
    }
    let tables = 4 + 5 * 12 + 5 * 8;
    s.sweep(&v, tables + 64, 7, &guarded);
    s.finish("native_pbd_damaged_nopanic");
}
