//@module src/model.rs
use super::*;
use crate::model_vertex_declarations::{VertexElement};

fn stub_fmt(_a: core::fmt::Arguments<'_>) -> String { String::new() }

// ---- contract placed on the real function (Kani function contract); callers below are verified against it (stub_verified) ----
//@contract fn=calculate_stack_size impl=^ModelFileHeader$
//@| #[cfg_attr(kani, kani::ensures(|r: &u32| *r == self.vertex_declaration_count as u32 * 17 * 8))]

//@unit props=C07 label=P tier=quick fn=model::ModelFileHeader::calculate_stack_size
//@desc contract on the real fn: stack size = declarations x 17 slots x 8 bytes, for every declaration count (this is the callee contract the Verus unit update_headers assumes)
#[kani::proof_for_contract(ModelFileHeader::calculate_stack_size)]
fn k_stack_size_contract() {
    let h = ModelFileHeader { version: 0, stack_size: 0, runtime_size: 0, vertex_declaration_count: kani::any(), material_count: 0, vertex_offsets: [0; 3], index_offsets: [0; 3],
        vertex_buffer_size: [0; 3], index_buffer_size: [0; 3], lod_count: 0, index_buffer_streaming_enabled: false, has_edge_geometry: false };
    let r = h.calculate_stack_size();
    assert!(r == h.vertex_declaration_count as u32 * 136, "stack size = declarations x 17 x 8");
    kani::cover!(true, "reachable");
}

fn bb() -> BoundingBox { BoundingBox { min: [0.0; 4], max: [0.0; 4] } }

fn lod(mesh_index: u16, mesh_count: u16) -> MeshLod {
    MeshLod { mesh_index, mesh_count, model_lod_range: 0.0, texture_lod_range: 0.0, water_mesh_index: 0, water_mesh_count: 0,
        shadow_mesh_index: 0, shadow_mesh_count: 0, terrain_shadow_mesh_count: 0, terrain_shadow_mesh_index: 0,
        vertical_fog_mesh_index: 0, vertical_fog_mesh_count: 0, edge_geometry_size: 0, edge_geometry_data_offset: 0,
        polygon_count: 0, vertex_buffer_size: kani::any(), index_buffer_size: kani::any(), vertex_data_offset: kani::any(), index_data_offset: kani::any() }
}
/// a mesh with symbolic counts / offsets and the given concrete stride set
fn cmesh(submesh_index: u16, strides: [u8; 3], streams: u8) -> Mesh {
    Mesh { vertex_count: kani::any(), index_count: kani::any(), material_index: kani::any(), submesh_index, submesh_count: 1,
           bone_table_index: kani::any(), start_index: kani::any(), vertex_buffer_offsets: kani::any(), vertex_buffer_strides: strides, vertex_stream_count: streams }
}
fn mk(meshes: Vec<Mesh>, lods: Vec<MeshLod>, lod_count: u8, ndecl: u16) -> MDL {
    let n = meshes.len();
    let mut submeshes = Vec::new();
    let mut i = 0;
    while i < n { submeshes.push(Submesh { index_offset: kani::any(), index_count: kani::any(), attribute_index_mask: 0, bone_start_index: 0, bone_count: 0 }); i += 1; }
    let header = ModelHeader {
        vertex_declarations: vec![], string_count: 0, string_size: kani::any(), strings: vec![], radius: 0.0,
        mesh_count: n as u16, attribute_count: 0, submesh_count: n as u16, material_count: 0, bone_count: 0, bone_table_count: 0,
        shape_count: kani::any(), shape_mesh_count: kani::any(), shape_value_count: kani::any(), lod_count, flags1: ModelFlags1::ShadowDisabled,
        element_id_count: 0, terrain_shadow_mesh_count: 0, flags2: ModelFlags2::None, model_clip_out_of_distance: 0.0,
        shadow_clip_out_of_distance: 0.0, unknown4: 0, terrain_shadow_submesh_count: 0, unknown5: 0,
        bg_change_material_index: 0, bg_crest_change_material_index: 0, unknown6: 0, unknown7: 0, unknown8: 0, unknown9: 0,
    };
    let model_data = ModelData {
        header, element_ids: vec![], lods, meshes, attribute_name_offsets: vec![],
        terrain_shadow_meshes: vec![], submeshes, terrain_shadow_submeshes: vec![], material_name_offsets: vec![],
        bone_name_offsets: vec![], bone_tables: vec![], bone_tables_v2: vec![], shapes: vec![], shape_meshes: vec![],
        shape_values: vec![], submesh_bone_map_size: 0, submesh_bone_map_size_v2: 0, submesh_bone_map: vec![],
        padding_amount: 0, unknown_padding: vec![], bounding_box: bb(), model_bounding_box: bb(), water_bounding_box: bb(),
        vertical_fog_bounding_box: bb(), bone_bounding_boxes: vec![],
    };
    let file_header = ModelFileHeader { version: 0x1000005, stack_size: kani::any(), runtime_size: kani::any(), vertex_declaration_count: ndecl,
        material_count: 0, vertex_offsets: kani::any(), index_offsets: kani::any(), vertex_buffer_size: kani::any(), index_buffer_size: kani::any(),
        lod_count, index_buffer_streaming_enabled: false, has_edge_geometry: false };
    let mut l = Vec::new();
    let mut i = 0;
    while i < lod_count { l.push(Lod { parts: vec![] }); i += 1; }
    MDL { file_header, model_data, lods: l, affected_bone_names: vec![], material_names: vec![] }
}
fn pad16_ok(size: u32, raw: u32) -> bool { size % 16 == 0 && size > raw && size <= raw + 16 }

//@unit props=C07 label=S tier=thorough fn=model::MDL::update_headers bound="1 LOD x 2 meshes, stream strides {20,24}; every vertex/index count, previous offset and size symbolic (index counts < 2^24 so sizes fit u32)"
//@desc per-mesh stream offsets are the running sum of count*stride (disjoint, in bounds); vertex_buffer_size = sum count*sum strides; index_buffer_size = 2*sum index_count padded by 1..16 to a multiple of 16; index section follows vertex section; next LOD follows; file-header arrays mirror the LOD; start_index from the sub-mesh; untouched mesh fields unchanged
#[kani::proof]
#[kani::unwind(4)]
fn k_update_headers_1lod_2meshes() {
    let meshes = vec![cmesh(0, [20, 24, 0], 2), cmesh(1, [20, 24, 0], 2)];
    kani::assume(meshes[0].index_count < 0x0100_0000 && meshes[1].index_count < 0x0100_0000);
    let (v0, v1, i0, i1) = (meshes[0].vertex_count as u32, meshes[1].vertex_count as u32, meshes[0].index_count, meshes[1].index_count);
    let (mat0, bt0) = (meshes[0].material_index, meshes[0].bone_table_index);
    let mut mdl = mk(meshes, vec![lod(0, 2), lod(2, 0), lod(2, 0)], 1, 2);
    kani::assume(mdl.model_data.header.string_size < 0x10000);
    let so0 = mdl.model_data.submeshes[0].index_offset;
    let so1 = mdl.model_data.submeshes[1].index_offset;
    mdl.update_headers();
    let l = &mdl.model_data.lods;
    assert!(l[0].vertex_buffer_size == 44 * v0 + 44 * v1, "vertex section size = sum of count x total stride");
    assert!(pad16_ok(l[0].index_buffer_size, (i0 + i1) * 2), "index section = 2 x indices, padded by 1..16 to a multiple of 16");
    let data_offset = mdl.file_header.runtime_size + 0x44 + mdl.file_header.stack_size;
    assert!(l[0].vertex_data_offset == data_offset, "first vertex section starts after file header, stack and runtime sections");
    assert!(l[0].index_data_offset == l[0].vertex_data_offset + l[0].vertex_buffer_size, "index section follows the vertex section");
    assert!(l[1].vertex_data_offset == l[0].index_data_offset + l[0].index_buffer_size, "next LOD follows");
    assert!(l[1].vertex_buffer_size == 0 && l[1].index_buffer_size == 16, "empty LOD");
    let m = &mdl.model_data.meshes;
    assert!(m[0].vertex_buffer_offsets[0] == 0 && m[0].vertex_buffer_offsets[1] == 20 * v0, "mesh 0 streams consecutive from 0");
    assert!(m[1].vertex_buffer_offsets[0] == 44 * v0 && m[1].vertex_buffer_offsets[1] == 44 * v0 + 20 * v1, "mesh 1 streams follow mesh 0");
    assert!(m[1].vertex_buffer_offsets[1] + 24 * v1 == l[0].vertex_buffer_size, "last stream ends at the section end (in bounds)");
    assert!(m[0].start_index == so0 && m[1].start_index == so1, "start_index taken from the mesh's first sub-mesh");
    assert!(m[0].vertex_count as u32 == v0 && m[0].index_count == i0 && m[0].material_index == mat0 && m[0].bone_table_index == bt0 && m[0].vertex_stream_count == 2, "frame: counts and ids untouched");
    let fh = &mdl.file_header;
    assert!(fh.vertex_buffer_size[0] == l[0].vertex_buffer_size && fh.index_buffer_size[0] == l[0].index_buffer_size && fh.vertex_offsets[0] == l[0].vertex_data_offset && fh.index_offsets[0] == l[0].index_data_offset, "file header mirrors LOD 0");
    assert!(fh.stack_size == 2 * 17 * 8, "stack size = declarations x 17 x 8");
    assert!(mdl.model_data.header.shape_count == 0 && mdl.model_data.header.shape_mesh_count == 0 && mdl.model_data.header.shape_value_count == 0, "shape counts mirror the vectors");
    kani::cover!(true, "reachable");
    core::mem::forget(mdl);
}

//@unit props=C07 label=S tier=quick fn=model::MDL::update_headers bound="1 LOD x 1 mesh, stream strides {20,24}; vertex/index count, previous offsets and sizes symbolic (index count < 2^24)"
//@desc smallest layout: stream offsets 0 and 20*count; vertex size 44*count; index size 2*indices padded by 1..16 to a multiple of 16; index section follows vertex section; file header mirrors the LOD
#[kani::proof]
#[kani::unwind(4)]
#[kani::stub_verified(ModelFileHeader::calculate_stack_size)]
fn k_update_headers_1lod_1mesh() {
    let meshes = vec![cmesh(0, [20, 24, 0], 2)];
    kani::assume(meshes[0].index_count < 0x0100_0000);
    let (v0, i0) = (meshes[0].vertex_count as u32, meshes[0].index_count);
    let mut mdl = mk(meshes, vec![lod(0, 1), lod(1, 0), lod(1, 0)], 1, 1);
    kani::assume(mdl.model_data.header.string_size < 0x10000);
    mdl.update_headers();
    let l = &mdl.model_data.lods;
    assert!(l[0].vertex_buffer_size == 44 * v0, "vertex section size = count x total stride");
    assert!(pad16_ok(l[0].index_buffer_size, i0 * 2), "index section = 2 x indices, padded by 1..16 to a multiple of 16");
    assert!(l[0].vertex_data_offset == mdl.file_header.runtime_size + 0x44 + mdl.file_header.stack_size, "data starts after header, stack, runtime");
    assert!(l[0].index_data_offset == l[0].vertex_data_offset + l[0].vertex_buffer_size, "index section follows the vertex section");
    let m = &mdl.model_data.meshes;
    assert!(m[0].vertex_buffer_offsets[0] == 0 && m[0].vertex_buffer_offsets[1] == 20 * v0, "streams consecutive from 0");
    let fh = &mdl.file_header;
    assert!(fh.vertex_buffer_size[0] == l[0].vertex_buffer_size && fh.index_buffer_size[0] == l[0].index_buffer_size && fh.vertex_offsets[0] == l[0].vertex_data_offset && fh.index_offsets[0] == l[0].index_data_offset, "file header mirrors LOD 0");
    assert!(fh.stack_size == 17 * 8, "stack size = declarations x 17 x 8");
    kani::cover!(true, "reachable");
    core::mem::forget(mdl);
}

//@unit props=C07 label=S tier=thorough fn=model::MDL::update_headers bound="3 LODs x 1 mesh each, single stream of stride 16; all counts symbolic (index counts < 2^24)"
//@desc sections of the three LODs are chained vertex0,index0,vertex1,index1,vertex2,index2: pairwise disjoint, ordered and contiguous; each sized count x stride / padded 2 x indices; all three file-header slots mirror their LOD; per-LOD stream offsets restart at 0
#[kani::proof]
#[kani::unwind(5)]
fn k_update_headers_3lods() {
    let meshes = vec![cmesh(0, [16, 0, 0], 1), cmesh(1, [16, 0, 0], 1), cmesh(2, [16, 0, 0], 1)];
    kani::assume(meshes[0].index_count < 0x0100_0000 && meshes[1].index_count < 0x0100_0000 && meshes[2].index_count < 0x0100_0000);
    let v = [meshes[0].vertex_count as u32, meshes[1].vertex_count as u32, meshes[2].vertex_count as u32];
    let ic = [meshes[0].index_count, meshes[1].index_count, meshes[2].index_count];
    let mut mdl = mk(meshes, vec![lod(0, 1), lod(1, 1), lod(2, 1)], 3, 3);
    kani::assume(mdl.model_data.header.string_size < 0x10000);
    mdl.update_headers();
    let l = &mdl.model_data.lods;
    let fh = &mdl.file_header;
    let mut k = 0;
    while k < 3 {
        assert!(l[k].vertex_buffer_size == 16 * v[k], "vertex section size");
        assert!(pad16_ok(l[k].index_buffer_size, 2 * ic[k]), "index section size and padding");
        assert!(l[k].index_data_offset == l[k].vertex_data_offset + l[k].vertex_buffer_size, "index follows vertex");
        if k < 2 { assert!(l[k + 1].vertex_data_offset == l[k].index_data_offset + l[k].index_buffer_size, "next LOD follows"); }
        assert!(fh.vertex_buffer_size[k] == l[k].vertex_buffer_size && fh.index_buffer_size[k] == l[k].index_buffer_size && fh.vertex_offsets[k] == l[k].vertex_data_offset && fh.index_offsets[k] == l[k].index_data_offset, "file header mirrors LOD k");
        assert!(mdl.model_data.meshes[k].vertex_buffer_offsets[0] == 0, "stream offsets restart per LOD");
        k += 1;
    }
    assert!(l[0].vertex_data_offset == fh.runtime_size + 0x44 + fh.stack_size, "data starts after header, stack, runtime");
    kani::cover!(true, "reachable");
    core::mem::forget(mdl);
}

//@unit props=C07 label=S tier=parked fn=model::MDL::update_headers bound="2 LODs (2 meshes + 1 mesh), three streams of strides {12,8,4}; all counts symbolic (index counts < 2^24)"
//@desc same contract on a second layout: three streams per mesh, two meshes in LOD 0 and one in LOD 1
#[kani::proof]
#[kani::unwind(14)]
fn k_update_headers_2lods_3streams() {
    let meshes = vec![cmesh(0, [12, 8, 4], 3), cmesh(1, [12, 8, 4], 3), cmesh(2, [12, 8, 4], 3)];
    kani::assume(meshes[0].index_count < 0x0100_0000 && meshes[1].index_count < 0x0100_0000 && meshes[2].index_count < 0x0100_0000);
    let v = [meshes[0].vertex_count as u32, meshes[1].vertex_count as u32, meshes[2].vertex_count as u32];
    let ic = [meshes[0].index_count, meshes[1].index_count, meshes[2].index_count];
    let mut mdl = mk(meshes, vec![lod(0, 2), lod(2, 1), lod(3, 0)], 2, 3);
    kani::assume(mdl.model_data.header.string_size < 0x10000);
    mdl.update_headers();
    let l = &mdl.model_data.lods;
    let m = &mdl.model_data.meshes;
    assert!(l[0].vertex_buffer_size == 24 * (v[0] + v[1]) && l[1].vertex_buffer_size == 24 * v[2], "vertex section sizes");
    assert!(pad16_ok(l[0].index_buffer_size, 2 * (ic[0] + ic[1])) && pad16_ok(l[1].index_buffer_size, 2 * ic[2]), "index sections");
    assert!(m[0].vertex_buffer_offsets == [0, 12 * v[0], 20 * v[0]], "mesh 0 streams");
    assert!(m[1].vertex_buffer_offsets == [24 * v[0], 24 * v[0] + 12 * v[1], 24 * v[0] + 20 * v[1]], "mesh 1 streams");
    assert!(m[2].vertex_buffer_offsets == [0, 12 * v[2], 20 * v[2]], "LOD 1 mesh streams restart at 0");
    assert!(l[0].index_data_offset == l[0].vertex_data_offset + l[0].vertex_buffer_size && l[1].vertex_data_offset == l[0].index_data_offset + l[0].index_buffer_size && l[1].index_data_offset == l[1].vertex_data_offset + l[1].vertex_buffer_size, "section chain");
    kani::cover!(true, "reachable");
    core::mem::forget(mdl);
}

//@unit props=C07,C02 label=P tier=thorough fn=model::ModelFileHeader(derive write+read) stubs=fmt::format
//@desc the file header is written as 0x44 bytes with every field at its offset (version 0, stack 4, runtime 8, declaration count 12, material count 14, vertex offsets 16, index offsets 28, vertex sizes 40, index sizes 52, lod count 64, two bool bytes 65/66, pad 67) and reads back to the same value
#[kani::proof]
#[kani::unwind(70)]
#[kani::stub(alloc::fmt::format, stub_fmt)]
fn k_model_file_header_layout() {
    let h = ModelFileHeader { version: kani::any(), stack_size: kani::any(), runtime_size: kani::any(), vertex_declaration_count: kani::any(), material_count: kani::any(),
        vertex_offsets: kani::any(), index_offsets: kani::any(), vertex_buffer_size: kani::any(), index_buffer_size: kani::any(), lod_count: kani::any(),
        index_buffer_streaming_enabled: kani::any(), has_edge_geometry: kani::any() };
    let mut buf = [0xAAu8; 0x48];
    let mut w = Cursor::new(&mut buf[..]);
    match h.write(&mut w) { Ok(()) => {}, Err(e) => { core::mem::forget(e); assert!(false, "write"); } }
    assert!(w.position() == 0x44, "0x44 bytes written");
    let le = |o: usize| u32::from_le_bytes([buf[o], buf[o + 1], buf[o + 2], buf[o + 3]]);
    assert!(le(0) == h.version && le(4) == h.stack_size && le(8) == h.runtime_size, "version, stack, runtime");
    assert!(u16::from_le_bytes([buf[12], buf[13]]) == h.vertex_declaration_count && u16::from_le_bytes([buf[14], buf[15]]) == h.material_count, "counts");
    let mut k = 0;
    while k < 3 {
        assert!(le(16 + 4 * k) == h.vertex_offsets[k] && le(28 + 4 * k) == h.index_offsets[k] && le(40 + 4 * k) == h.vertex_buffer_size[k] && le(52 + 4 * k) == h.index_buffer_size[k], "per-LOD arrays");
        k += 1;
    }
    assert!(buf[64] == h.lod_count && buf[65] == h.index_buffer_streaming_enabled as u8 && buf[66] == h.has_edge_geometry as u8, "lod count and flags");
    let mut r = Cursor::new(&buf[..0x44]);
    match ModelFileHeader::read(&mut r) { Ok(h2) => assert!(h2 == h, "reads back equal"), Err(e) => { core::mem::forget(e); assert!(false, "read"); } }
    kani::cover!(true, "reachable");
}

fn wsize<T: BinWrite>(v: &T) -> u64 where for<'a> T::Args<'a>: Default {
    let mut buf = [0u8; 160];
    let mut w = Cursor::new(&mut buf[..]);
    match v.write_le(&mut w) { Ok(()) => {}, Err(e) => { core::mem::forget(e); assert!(false, "write"); } }
    w.position()
}

//@unit props=C07 label=P tier=thorough fn=model::ModelData::calculate_runtime_size,model::ModelFileHeader::calculate_stack_size bound=""
//@desc the per-record constants of the runtime-size formula equal the number of bytes the derive-generated writers emit: MeshLod 60, Mesh 36, Submesh 16, TerrainShadowMesh 20, ElementId 32, BoneTable 132, ShapeStruct 16, ShapeMesh 12, ShapeValue 4, BoundingBox 32, VertexElement 8
#[kani::proof]
#[kani::unwind(66)]
#[kani::stub(alloc::fmt::format, stub_fmt)]
fn k_runtime_size_record_constants() {
    assert!(wsize(&lod(0, 0)) == 60, "MeshLod is 60 bytes");
    assert!(wsize(&cmesh(0, [0; 3], 0)) == 36, "Mesh is 36 bytes");
    assert!(wsize(&Submesh { index_offset: 0, index_count: 0, attribute_index_mask: 0, bone_start_index: 0, bone_count: 0 }) == 16, "Submesh is 16 bytes");
    assert!(wsize(&TerrainShadowMesh { index_count: 0, start_index: 0, vertex_buffer_offset: 0, vertex_count: 0, submesh_index: 0, submesh_count: 0, vertex_buffer_stride: 0, padding: 0 }) == 20, "TerrainShadowMesh is 20 bytes");
    assert!(wsize(&ElementId { element_id: 0, parent_bone_name: 0, translate: [0.0; 3], rotate: [0.0; 3] }) == 32, "ElementId is 32 bytes");
    assert!(wsize(&BoneTable { bone_indices: [0; 64], bone_count: 0 }) == 132, "BoneTable is 132 bytes");
    assert!(wsize(&ShapeStruct { string_offset: 0, shape_mesh_start_index: [0; 3], shape_mesh_count: [0; 3] }) == 16, "ShapeStruct is 16 bytes");
    assert!(wsize(&ShapeMesh { mesh_index_offset: 0, shape_value_count: 0, shape_value_offset: 0 }) == 12, "ShapeMesh is 12 bytes");
    assert!(wsize(&ShapeValue { base_indices_index: 0, replacing_vertex_index: 0 }) == 4, "ShapeValue is 4 bytes");
    assert!(wsize(&bb()) == 32, "BoundingBox is 32 bytes");
    kani::cover!(true, "reachable");
}

//@unit props=C07 label=P tier=quick fn=model::ModelData::calculate_runtime_size bound=""
//@desc the terrain-shadow sub-mesh constant of the runtime-size formula equals the bytes the writer emits for that record
#[kani::proof]
#[kani::unwind(6)]
#[kani::stub(alloc::fmt::format, stub_fmt)]
fn k_runtime_size_terrain_shadow_submesh() {
    let n = wsize(&TerrainShadowSubmesh { index_offset: 0, index_count: 0, unknown1: 0, unknown2: 0 });
    let mut mdl = mk(vec![], vec![lod(0, 0), lod(0, 0), lod(0, 0)], 0, 0);
    mdl.model_data.header.string_size = 0;
    mdl.model_data.header.shape_count = 0; mdl.model_data.header.shape_mesh_count = 0; mdl.model_data.header.shape_value_count = 0;
    let base = mdl.model_data.calculate_runtime_size();
    mdl.model_data.header.terrain_shadow_submesh_count = 1;
    let one = mdl.model_data.calculate_runtime_size();
    assert!((one - base) as u64 == n, "runtime size grows by the written size of one terrain-shadow sub-mesh");
    kani::cover!(true, "reachable");
    core::mem::forget(mdl);
}

//@unit props=C07 label=S tier=parked fn=model::ModelData(derive write),model::ModelData::calculate_runtime_size,model::ModelFileHeader::calculate_stack_size bound="model value with 2 meshes, 2 sub-meshes, 0 declarations, empty string table and no optional tables (version 5)" stubs=fmt::format
//@desc the derive-generated writer of the whole runtime block emits exactly stack_size + runtime_size bytes for this shape (so the vertex data offset computed by update_headers is where the writer's cursor ends)
#[kani::proof]
#[kani::unwind(8)]
#[kani::stub(alloc::fmt::format, stub_fmt)]
fn k_model_data_write_size() {
    let meshes = vec![cmesh(0, [20, 24, 0], 2), cmesh(1, [20, 24, 0], 2)];
    let mut mdl = mk(meshes, vec![lod(0, 2), lod(2, 0), lod(2, 0)], 1, 0);
    mdl.model_data.header.string_size = 0;
    mdl.model_data.header.shape_count = 0; mdl.model_data.header.shape_mesh_count = 0; mdl.model_data.header.shape_value_count = 0;
    let mut buf = [0u8; 640];
    let mut w = Cursor::new(&mut buf[..]);
    match mdl.model_data.write_args(&mut w, binrw::args! { file_header: &mdl.file_header }) { Ok(()) => {}, Err(e) => { core::mem::forget(e); assert!(false, "write"); } }
    let want = mdl.file_header.calculate_stack_size() + mdl.model_data.calculate_runtime_size();
    assert!(w.position() == want as u64, "bytes written by the runtime-block writer = stack_size + runtime_size");
    kani::cover!(true, "reachable");
    core::mem::forget(mdl);
}

//@unit props=C07 label=S tier=quick fn=model::MDL::update_headers bound="model with no meshes, 1 shape, 2 shape meshes and 1 shape value in its vectors; header shape counts symbolic (stale, as after add_shape_mesh / remove_shape_meshes)"
//@desc after an edit of the shape tables the stored runtime size is the runtime size of the final model (header counts refreshed before the size is computed), so the data offset derived from it lies behind the runtime block the writer emits
#[kani::proof]
#[kani::unwind(5)]
fn k_update_headers_runtime_size_fresh() {
    let mut mdl = mk(vec![], vec![lod(0, 0), lod(0, 0), lod(0, 0)], 1, 1);
    mdl.model_data.header.string_size = 0;
    mdl.model_data.shapes = vec![ShapeStruct { string_offset: 0, shape_mesh_start_index: [0; 3], shape_mesh_count: [0; 3] }];
    mdl.model_data.shape_meshes = vec![ShapeMesh { mesh_index_offset: 0, shape_value_count: 0, shape_value_offset: 0 }, ShapeMesh { mesh_index_offset: 0, shape_value_count: 0, shape_value_offset: 0 }];
    mdl.model_data.shape_values = vec![ShapeValue { base_indices_index: 0, replacing_vertex_index: 0 }];
    kani::assume(mdl.model_data.header.shape_count <= 8 && mdl.model_data.header.shape_mesh_count <= 8 && mdl.model_data.header.shape_value_count <= 8);
    mdl.update_headers();
    assert!(mdl.model_data.header.shape_count == 1 && mdl.model_data.header.shape_mesh_count == 2 && mdl.model_data.header.shape_value_count == 1, "shape counts mirror the vectors");
    assert!(mdl.file_header.runtime_size == mdl.model_data.calculate_runtime_size(), "stored runtime size is the runtime size of the final model");
    kani::cover!(true, "reachable");
    core::mem::forget(mdl);
}

//@use_common

//@unit props=C18 label=B tier=quick native=1 fn=model::MDL::from_existing bound="by execution: resources/tests/c0201e0038_top_zeroed.mdl (287232 bytes): truncations and 7 single-byte corruptions at every 16th of the first 2200 positions (file header, declarations, string table, model header start), the last 64 and every 20011th position in between; thorough tier: every one of the first 2200 positions and every 2503rd beyond"
//@desc damaged models (truncated, any header / declaration / string / mesh-table byte damaged) yield None or a value, never a panic
#[test]
fn native_mdl_damaged_nopanic() {
    let v = native_resource("c0201e0038_top_zeroed.mdl");
    let f = |b: &[u8]| { let _ = MDL::from_existing(b); };
    let mut s = NativeSites::new();
    if native_thorough() { s.sweep(&v, 2200, 2503, &f); }
    else {
        // sparse version of the same sweep: a copy of the file in which only every 16th header position is visited
        let pick: Vec<usize> = (0..v.len()).filter(|i| (*i < 2200 && i % 16 == 0) || i % 20011 == 0 || i + 64 >= v.len()).collect();
        for t in pick.iter() { s.run(&f, &v[..*t], &format!("truncation to {t} bytes")); }
        let mut w = v.clone();
        for i in pick.iter() {
            let o = v[*i];
            for c in [0u8, 1, 0x7F, 0x80, 0xFF, o.wrapping_add(1), o.wrapping_sub(1)] { if c != o { w[*i] = c; s.run(&f, &w, &format!("byte {i} changed from {o:#04x} to {c:#04x}")); } }
            w[*i] = o;
        }
    }
    s.finish("native_mdl_damaged_nopanic");
}

fn nmd_bytes(n: usize, seed: u32, finite_halves: bool) -> Vec<u8> {
    let mut x = seed.wrapping_mul(2654435761).wrapping_add(99);
    let mut v: Vec<u8> = (0..n).map(|_| { x = x.wrapping_mul(1664525).wrapping_add(1013904223); (x >> 24) as u8 }).collect();
    if finite_halves { let mut i = 1; while i < n { v[i] &= 0xBF; i += 2; } } // clear the top exponent bit of every little-endian half: finite values only
    v
}
/// the vertex whose attributes are the decodings of pseudo-random stored bytes under the given declaration (canonical values: every codec reproduces them)
fn nmd_vertex(elements: &[VertexElement], k: usize, salt: u32) -> Vertex {
    let mut vx = Vertex::default();
    for (ei, e) in elements.iter().enumerate() {
        let seed = (k as u32).wrapping_mul(131).wrapping_add(ei as u32 * 17).wrapping_add(salt);
        let f = |i: u32| ((seed.wrapping_mul(7919).wrapping_add(i * 104729) % 2001) as f32 - 1000.0) / 8.0;
        match (e.vertex_usage, e.vertex_type) {
            (VertexUsage::Position, VertexType::Single3) => vx.position = [f(0), f(1), f(2)],
            (VertexUsage::Position, VertexType::Single4) => vx.position = [f(0), f(1), f(2)],
            (VertexUsage::Position, VertexType::Half4) => { let b = nmd_bytes(8, seed, true); vx.position.clone_from_slice(&MDL::read_half4(&mut Cursor::new(&b[..])).unwrap()[0..3]); }
            (VertexUsage::BlendWeights, VertexType::ByteFloat4) => { let b = nmd_bytes(4, seed, false); vx.bone_weight = MDL::read_byte_float4(&mut Cursor::new(&b[..])).unwrap(); }
            (VertexUsage::BlendIndices, VertexType::Byte4) => { let b = nmd_bytes(4, seed, false); vx.bone_id = [b[0], b[1], b[2], b[3]]; }
            (VertexUsage::Normal, VertexType::Half4) => { let b = nmd_bytes(8, seed, true); vx.normal.clone_from_slice(&MDL::read_half4(&mut Cursor::new(&b[..])).unwrap()[0..3]); }
            (VertexUsage::Normal, VertexType::Single3) => vx.normal = [f(0), f(1), f(2)],
            (VertexUsage::UV, VertexType::Half4) => { let b = nmd_bytes(8, seed, true); let c = MDL::read_half4(&mut Cursor::new(&b[..])).unwrap(); vx.uv0 = [c[0], c[1]]; vx.uv1 = [c[2], c[3]]; }
            (VertexUsage::UV, VertexType::Single4) => { vx.uv0 = [f(0), f(1)]; vx.uv1 = [f(2), f(3)]; }
            (VertexUsage::BiTangent, VertexType::ByteFloat4) => { let b = nmd_bytes(4, seed, false); vx.bitangent = MDL::read_tangent(&mut Cursor::new(&b[..])).unwrap(); }
            (VertexUsage::Color, VertexType::ByteFloat4) => { let b = nmd_bytes(4, seed, false); vx.color = MDL::read_byte_float4(&mut Cursor::new(&b[..])).unwrap(); }
            other => panic!("variant uses a pair the writer does not support: {other:?}"),
        }
    }
    vx
}
fn nmd_el(stream: u8, offset: u8, t: VertexType, u: VertexUsage) -> VertexElement { VertexElement { stream, offset, vertex_type: t, vertex_usage: u, usage_index: 0 } }
fn nmd_variants() -> Vec<(Vec<VertexElement>, [u8; 3])> {
    use VertexType::*; use VertexUsage::*;
    vec![
        (vec![nmd_el(0, 0, Single3, Position), nmd_el(0, 12, ByteFloat4, BlendWeights), nmd_el(0, 16, Byte4, BlendIndices), nmd_el(1, 0, Single3, Normal), nmd_el(1, 12, ByteFloat4, BiTangent), nmd_el(1, 16, ByteFloat4, Color), nmd_el(1, 20, Single4, UV)], [20, 36, 0]),
        (vec![nmd_el(0, 0, Half4, Position), nmd_el(0, 8, ByteFloat4, BlendWeights), nmd_el(0, 12, Byte4, BlendIndices), nmd_el(1, 0, Half4, Normal), nmd_el(1, 8, ByteFloat4, BiTangent), nmd_el(1, 12, ByteFloat4, Color), nmd_el(1, 16, Half4, UV)], [16, 24, 0]),
        (vec![nmd_el(1, 8, Single3, Normal), nmd_el(0, 0, Single4, Position), nmd_el(1, 0, Half4, UV)], [16, 20, 0]),
        (vec![nmd_el(0, 4, Single3, Position), nmd_el(0, 0, Byte4, BlendIndices), nmd_el(1, 4, Single4, UV), nmd_el(1, 0, ByteFloat4, Color), nmd_el(1, 20, ByteFloat4, BlendWeights)], [16, 24, 0]),
    ]
}

//@unit props=C07,C06 label=B tier=quick native=1 fn=model::MDL::{write_to_buffer,from_existing,update_headers} bound="by execution: resources/tests/c0201e0038_top_zeroed.mdl with the declaration of one mesh (mesh 1 of LOD 0, mesh 5 of LOD 2) rewritten to each of 4 layouts (every (usage, type) pair the writer supports, interleaved element order, two streams) and its vertices replaced by canonical pseudo-random values; the unmodified model; and an edit history (remove_shape_meshes, then replace_vertices on both meshes of LOD 0 / LOD 2 with fewer vertices and indices and re-split sub-meshes, and once with 70002 indices in the first mesh so that the second mesh starts beyond index 65535; and a history where the first mesh grows and the second is re-supplied with unchanged counts but moved sub-mesh ranges)"
//@desc a model written by the library parses back to the same geometry: every vertex attribute of every part (the rewritten part and the untouched ones), every index, the declarations, mesh records and file header; i.e. the writer stores each attribute at LOD vertex offset + stream offset + element offset + stride*k in its own encoding and the reader finds it there
#[test]
fn native_mdl_write_parse_identity() {
    let bytes = native_resource("c0201e0038_top_zeroed.mdl");
    let original = MDL::from_existing(&bytes).expect("resource model parses");
    let mut cases = 0u64;
    let same_geometry = |a: &MDL, b: &MDL, what: &str| {
        assert_eq!(a.file_header, b.file_header, "{what}: file header");
        assert!(a.model_data == b.model_data, "{what}: model header data (mesh, sub-mesh, bone and shape tables, bone maps, bounding boxes) differs after write + parse");
        assert_eq!((&a.affected_bone_names, &a.material_names), (&b.affected_bone_names, &b.material_names), "{what}: names");
        assert_eq!(a.model_data.header.vertex_declarations, b.model_data.header.vertex_declarations, "{what}: declarations");
        assert_eq!(a.lods.len(), b.lods.len());
        for (l, (la, lb)) in a.lods.iter().zip(b.lods.iter()).enumerate() {
            assert_eq!(la.parts.len(), lb.parts.len(), "{what}: part count of LOD {l}");
            for (p, (pa, pb)) in la.parts.iter().zip(lb.parts.iter()).enumerate() {
                assert_eq!(pa.vertices.len(), pb.vertices.len(), "{what}: vertex count of LOD {l} part {p}");
                for (k, (va, vb)) in pa.vertices.iter().zip(pb.vertices.iter()).enumerate() { assert!(va == vb, "{what}: LOD {l} part {p} vertex {k}: {va:?} != {vb:?}"); }
                assert!(pa.indices == pb.indices, "{what}: indices of LOD {l} part {p}");
                assert_eq!(pa.submeshes.len(), pb.submeshes.len());
            }
        }
    };
    // the unmodified model survives write + parse, and the written bytes parse to the same header
    let rewritten = MDL::from_existing(&original.write_to_buffer().expect("write")).expect("a written model parses");
    same_geometry(&original, &rewritten, "unmodified model");
    cases += 1;
    for (vi, (elements, strides)) in nmd_variants().into_iter().enumerate() {
        for (l, p) in [(0usize, 1usize), (2, 1)] {
            let mut mdl = MDL::from_existing(&bytes).unwrap();
            let j = mdl.lods[l].parts[p].mesh_index as usize;
            mdl.model_data.header.vertex_declarations[j].elements = elements.clone();
            mdl.model_data.meshes[j].vertex_buffer_strides = strides;
            let n = mdl.lods[l].parts[p].vertices.len();
            mdl.lods[l].parts[p].vertices = (0..n).map(|k| nmd_vertex(&elements, k, (vi * 1000 + l) as u32)).collect();
            mdl.update_headers();
            let out = mdl.write_to_buffer().expect("write");
            assert!(out.len() as u32 <= mdl.file_header.index_offsets[2] + mdl.file_header.index_buffer_size[2], "nothing is written past the last index section (layout {vi}, LOD {l})");
            let back = MDL::from_existing(&out).expect("a written model parses");
            same_geometry(&mdl, &back, &format!("layout {vi} on LOD {l} part {p}"));
            cases += 1;
        }
    }
    // an edit history: shape meshes removed, then both meshes of a LOD replaced by smaller geometry (so the second mesh's first index moves), for LOD 0 and LOD 2
    for (l, big) in [(0usize, false), (2, false), (0, true)] {
        let mut mdl = MDL::from_existing(&bytes).unwrap();
        mdl.remove_shape_meshes();
        let mut start = 0u32; let mut want: Vec<(Vec<Vertex>, Vec<u16>, Vec<(u32, u32)>)> = vec![];
        for p in 0..mdl.lods[l].parts.len() {
            let j = mdl.lods[l].parts[p].mesh_index as usize;
            let elements = mdl.model_data.header.vertex_declarations[j].elements.clone();
            // `big`: the first mesh gets 70002 indices, so the second mesh starts beyond index 65535
            let (nv, ni) = if p == 0 { if big { (3000usize, 70002usize) } else { (300, 612) } } else { (50, 90) };
            let verts: Vec<Vertex> = (0..nv).map(|k| nmd_vertex(&elements, k, (7000 + l * 10 + p) as u32)).collect();
            let indices: Vec<u16> = (0..ni).map(|k| ((k * 7 + p) % nv) as u16).collect();
            let nsub = mdl.lods[l].parts[p].submeshes.len();
            let mut subs = mdl.lods[l].parts[p].submeshes.clone(); let mut ranges = vec![]; let mut at = start;
            for (si, sm) in subs.iter_mut().enumerate() { let c = if si + 1 == nsub { start + ni as u32 - at } else { (ni / nsub / 3 * 3) as u32 }; sm.index_offset = at; sm.index_count = c; ranges.push((at, c)); at += c; }
            mdl.replace_vertices(l, p, &verts, &indices, &subs);
            want.push((verts, indices, ranges));
            start += ni as u32;
        }
        let back = MDL::from_existing(&mdl.write_to_buffer().expect("write")).expect("an edited model parses");
        for (p, (verts, indices, ranges)) in want.iter().enumerate() {
            let part = &back.lods[l].parts[p];
            assert_eq!(part.vertices.len(), verts.len(), "edited LOD {l} part {p}: vertex count");
            for (k, (a, b)) in part.vertices.iter().zip(verts.iter()).enumerate() { assert!(a == b, "edited LOD {l} part {p}: vertex {k} is the new vertex"); }
            assert!(part.indices == *indices, "edited LOD {l} part {p}: parsing returns exactly the new indices");
            assert_eq!(part.submeshes.iter().map(|s| (s.index_offset, s.index_count)).collect::<Vec<_>>(), *ranges, "edited LOD {l} part {p}: sub-mesh ranges");
        }
        for ol in 0..3usize { if ol != l { for (p, part) in back.lods[ol].parts.iter().enumerate() {
            assert!(part.vertices == original.lods[ol].parts[p].vertices && part.indices == original.lods[ol].parts[p].indices, "LOD {ol} part {p} is untouched by the edit of LOD {l}");
        } } }
        cases += 1;
    }
    // a second edit history: the first mesh of LOD 0 grows by 12 indices, then the second mesh is re-supplied with the SAME counts but with its
    // sub-mesh ranges moved behind the grown first mesh
    {
        let mut mdl = MDL::from_existing(&bytes).unwrap();
        mdl.remove_shape_meshes();
        let l = 0usize;
        let j0 = mdl.lods[l].parts[0].mesh_index as usize; let j1 = mdl.lods[l].parts[1].mesh_index as usize;
        let (nv0, ni0) = (mdl.lods[l].parts[0].vertices.len(), mdl.lods[l].parts[0].indices.len() + 12);
        let (nv1, ni1) = (mdl.lods[l].parts[1].vertices.len(), mdl.lods[l].parts[1].indices.len());
        let e0 = mdl.model_data.header.vertex_declarations[j0].elements.clone(); let e1 = mdl.model_data.header.vertex_declarations[j1].elements.clone();
        let v0: Vec<Vertex> = (0..nv0).map(|k| nmd_vertex(&e0, k, 9100)).collect(); let v1: Vec<Vertex> = (0..nv1).map(|k| nmd_vertex(&e1, k, 9200)).collect();
        let i0: Vec<u16> = (0..ni0).map(|k| ((k * 5 + 1) % nv0) as u16).collect(); let i1: Vec<u16> = (0..ni1).map(|k| ((k * 3 + 2) % nv1) as u16).collect();
        let split = |subs: &mut Vec<SubMesh>, start: u32, ni: usize| -> Vec<(u32, u32)> { let n = subs.len(); let mut at = start; let mut r = vec![]; for (si, sm) in subs.iter_mut().enumerate() { let c = if si + 1 == n { start + ni as u32 - at } else { (ni / n / 3 * 3) as u32 }; sm.index_offset = at; sm.index_count = c; r.push((at, c)); at += c; } r };
        let mut s0 = mdl.lods[l].parts[0].submeshes.clone(); let r0 = split(&mut s0, 0, ni0);
        mdl.replace_vertices(l, 0, &v0, &i0, &s0);
        let mut s1 = mdl.lods[l].parts[1].submeshes.clone(); let r1 = split(&mut s1, ni0 as u32, ni1);
        mdl.replace_vertices(l, 1, &v1, &i1, &s1);
        let back = MDL::from_existing(&mdl.write_to_buffer().expect("write")).expect("an edited model parses");
        for (p, (v, i, r)) in [(0usize, (&v0, &i0, &r0)), (1, (&v1, &i1, &r1))] {
            let part = &back.lods[l].parts[p];
            assert!(part.vertices == **v, "count-preserving edit: vertices of part {p}");
            assert!(part.indices == **i, "count-preserving edit: parsing returns exactly the new indices of part {p} (first difference at {:?})", part.indices.iter().zip(i.iter()).position(|(a, b)| a != b));
            assert_eq!(part.submeshes.iter().map(|s| (s.index_offset, s.index_count)).collect::<Vec<_>>(), **r, "count-preserving edit: sub-mesh ranges of part {p}");
        }
        assert_eq!(back.model_data.meshes[j1].start_index, ni0 as u32, "the second mesh starts right behind the grown first mesh");
        cases += 1;
    }
    println!("NATIVE native_mdl_write_parse_identity cases={cases}");
}

//@unit props=C06,C07 label=B tier=quick native=1 fn=model::MDL::{from_existing,write_to_buffer,update_headers} bound="by execution: the resource model given 1 and 2 terrain-shadow meshes with 3 and 5 terrain-shadow sub-meshes (distinct field values), headers refreshed, written and parsed back"
//@desc a model with terrain-shadow tables keeps its ordinary sub-mesh ranges, names and geometry through write + parse, and the written runtime block stores the tables in the format's order: mesh table, attribute name offsets, terrain-shadow meshes, sub-meshes, terrain-shadow sub-meshes (each located in the written bytes by its own distinctive records)
#[test]
fn native_mdl_terrain_shadow_tables() {
    let bytes = native_resource("c0201e0038_top_zeroed.mdl");
    let original = MDL::from_existing(&bytes).expect("resource model parses");
    let mut cases = 0u64;
    let find = |hay: &[u8], needle: &[u8]| -> Vec<usize> { (0..hay.len().saturating_sub(needle.len())).filter(|i| &hay[*i..*i + needle.len()] == needle).collect() };
    for (nm, ns) in [(1usize, 3usize), (2, 5)] {
        let mut mdl = MDL::from_existing(&bytes).unwrap();
        mdl.model_data.terrain_shadow_meshes = (0..nm).map(|k| TerrainShadowMesh { index_count: 0x5A00_0001 + k as u32, start_index: 0x5A10_0000 + k as u32, vertex_buffer_offset: 0x5A20_0000, vertex_count: 0x5A3 + k as u16, submesh_index: k as u16, submesh_count: 1, vertex_buffer_stride: 12, padding: 0 }).collect();
        mdl.model_data.terrain_shadow_submeshes = (0..ns).map(|k| TerrainShadowSubmesh { index_offset: 0x6B00_0000 + k as u32 * 7, index_count: 0x6B10_0003 + k as u32, unknown1: 0x6B2 + k as u16, unknown2: 0x6B3 }).collect();
        mdl.model_data.header.terrain_shadow_mesh_count = nm as u8;
        mdl.model_data.header.terrain_shadow_submesh_count = ns as u16;
        mdl.update_headers();
        let out = mdl.write_to_buffer().expect("write");
        let back = MDL::from_existing(&out).expect("a written model with terrain-shadow tables parses");
        assert!(back.model_data == mdl.model_data, "model header data incl. both terrain-shadow tables survives write + parse ({nm} meshes, {ns} sub-meshes)");
        for (l, (la, lb)) in original.lods.iter().zip(back.lods.iter()).enumerate() { for (p, (pa, pb)) in la.parts.iter().zip(lb.parts.iter()).enumerate() {
            assert!(pa.vertices == pb.vertices && pa.indices == pb.indices, "geometry of LOD {l} part {p} is unaffected by the terrain-shadow tables");
            assert_eq!(pa.submeshes.iter().map(|s| (s.index_offset, s.index_count)).collect::<Vec<_>>(), pb.submeshes.iter().map(|s| (s.index_offset, s.index_count)).collect::<Vec<_>>(), "sub-mesh ranges of LOD {l} part {p}");
        } }
        assert_eq!((&back.material_names, &back.affected_bone_names), (&original.material_names, &original.affected_bone_names), "names");
        // layout of the written runtime block, located by distinctive records
        let runtime_end = mdl.model_data.lods[0].vertex_data_offset as usize;
        let head = &out[..runtime_end];
        let first_mesh: Vec<u8> = { let m = &mdl.model_data.meshes[0]; let mut v = vec![]; v.extend_from_slice(&m.vertex_count.to_le_bytes()); v.extend_from_slice(&0u16.to_le_bytes()); v.extend_from_slice(&m.index_count.to_le_bytes()); v };
        let tsm: Vec<u8> = { let mut v = vec![]; v.extend_from_slice(&0x5A00_0001u32.to_le_bytes()); v.extend_from_slice(&0x5A10_0000u32.to_le_bytes()); v };
        let sub0: Vec<u8> = { let s0 = &mdl.model_data.submeshes[0]; let mut v = vec![]; v.extend_from_slice(&s0.index_offset.to_le_bytes()); v.extend_from_slice(&s0.index_count.to_le_bytes()); v.extend_from_slice(&s0.attribute_index_mask.to_le_bytes()); v };
        let tss: Vec<u8> = { let mut v = vec![]; v.extend_from_slice(&0x6B00_0000u32.to_le_bytes()); v.extend_from_slice(&0x6B10_0003u32.to_le_bytes()); v };
        let (pm, pt, pts) = (find(head, &first_mesh), find(head, &tsm), find(head, &tss));
        assert!(pt.len() == 1 && pts.len() == 1 && !pm.is_empty(), "the distinctive terrain-shadow records are found once in the runtime block");
        let psub: Vec<usize> = find(head, &sub0).into_iter().filter(|o| *o > pt[0]).collect();
        assert!(!psub.is_empty(), "the first ordinary sub-mesh record is stored after the terrain-shadow mesh table");
        assert_eq!(psub[0], pt[0] + 20 * nm, "sub-mesh table directly after the {nm} 20-byte terrain-shadow mesh records");
        assert_eq!(pts[0], psub[0] + 16 * mdl.model_data.submeshes.len(), "terrain-shadow sub-mesh table directly after the ordinary sub-mesh table (16 bytes per record)");
        assert!(pm[0] < pt[0], "mesh table before the terrain-shadow tables");
        cases += 1;
    }
    println!("NATIVE native_mdl_terrain_shadow_tables cases={cases}");
}

//@unit props=C06 label=B tier=quick native=1 fn=model::MDL::from_existing bound="by execution: the resource model written with a two-stream layout for mesh 5 whose extra slots are then re-declared, in the file bytes, as the (usage, type) pairs only the reader knows (BlendIndices UnsignedShort4, BlendWeights UnsignedShort4, UV Half2, UV ByteFloat4, Tangent ByteFloat4) and filled with distinct stored values for each of the 110 vertices"
//@desc the reader finds each attribute at LOD vertex offset + stream offset + element offset + stride*k and decodes it by its (usage, type) pair: 16-bit blend indices narrowed to bytes in order, 16-bit blend weights as numbers in order, Half2 UVs into uv0 only, byte UVs as x/255 into uv0 and uv1, tangents ignored; the other attributes of the same vertices are unaffected; no attribute is read past its own bytes (a file that ends with the last vertex's last element decodes to the same vertices)
#[test]
fn native_mdl_reader_only_arms() {
    use VertexType::*; use VertexUsage::*;
    let bytes = native_resource("c0201e0038_top_zeroed.mdl");
    let mut cases = 0u64;
    // (target type, target usage, placeholder type, placeholder usage, size)
    let variants: Vec<Vec<(VertexType, VertexUsage, VertexType, VertexUsage, u8)>> = vec![
        vec![(UnsignedShort4, BlendIndices, Half4, Normal, 8), (UnsignedShort4, BlendWeights, Half4, Normal, 8), (Half2, UV, ByteFloat4, Color, 4), (ByteFloat4, Tangent, ByteFloat4, Color, 4)],
        vec![(ByteFloat4, UV, ByteFloat4, Color, 4), (UnsignedShort4, BlendIndices, Half4, Normal, 8)],
    ];
    for (vi, slots0) in variants.iter().enumerate() { for rot in 0..slots0.len() {
        // every slot takes its turn as the LAST element of the last stream of the last mesh of the last LOD (see the footprint check below)
        let slots: Vec<(VertexType, VertexUsage, VertexType, VertexUsage, u8)> = (0..slots0.len()).map(|i| slots0[(i + rot) % slots0.len()]).collect();
        let (l, p) = (2usize, 1usize);
        let mut mdl = MDL::from_existing(&bytes).unwrap();
        let j = mdl.lods[l].parts[p].mesh_index as usize;
        // stream 0: position; stream 1: the slots, then a Single3 normal
        let mut elements = vec![nmd_el(0, 0, Single3, Position)];
        let normal_at = 0u8; let mut at = 12u8; let mut slot_offsets = vec![];
        for (_, _, pt, pu, size) in slots.iter() { elements.push(nmd_el(1, at, *pt, *pu)); slot_offsets.push(at); at += size; }
        elements.push(nmd_el(1, normal_at, Single3, Normal));
        mdl.model_data.header.vertex_declarations[j].elements = elements.clone();
        mdl.model_data.meshes[j].vertex_buffer_strides = [12, at, 0];
        let n = mdl.lods[l].parts[p].vertices.len();
        let pos_normal: Vec<Vertex> = (0..n).map(|k| nmd_vertex(&[nmd_el(0, 0, Single3, Position), nmd_el(1, normal_at, Single3, Normal)], k, 4242 + vi as u32)).collect();
        mdl.lods[l].parts[p].vertices = pos_normal.clone();
        mdl.update_headers();
        let mut out = mdl.write_to_buffer().expect("write");
        let w = MDL::from_existing(&out).expect("the written model parses");
        // re-declare the slots and store raw values in them
        let base = w.model_data.lods[l].vertex_data_offset as usize + w.model_data.meshes[j].vertex_buffer_offsets[1] as usize;
        let stride = w.model_data.meshes[j].vertex_buffer_strides[1] as usize;
        let raw = |k: usize, si: usize, b: usize| -> u8 { ((k * 13 + si * 41 + b * 7 + vi) % 251) as u8 | if b % 2 == 1 { 0 } else { 1 } };
        for (si, (tt, tu, _, _, size)) in slots.iter().enumerate() {
            let e = 0x44 + j * 136 + 8 * (1 + si);
            assert_eq!(out[e], 1, "the slot's element record sits where the declaration block puts it"); assert_eq!(out[e + 1], slot_offsets[si]);
            out[e + 2] = *tt as u8; out[e + 3] = *tu as u8;
            for k in 0..n { for b in 0..*size as usize {
                // keep halves finite: clear the top exponent bit of every second byte
                let v = if *tt == Half2 && b % 2 == 1 { raw(k, si, b) & 0xBF } else { raw(k, si, b) };
                out[base + stride * k + slot_offsets[si] as usize + b] = v;
            } }
        }
        let back = MDL::from_existing(&out).expect("the re-declared model parses");
        let part = &back.lods[l].parts[p];
        assert_eq!(part.vertices.len(), n);
        for k in 0..n {
            let v = &part.vertices[k];
            assert!(v.position == pos_normal[k].position && v.normal == pos_normal[k].normal, "layout {vi} vertex {k}: position and normal are unaffected");
            for (si, (tt, tu, _, _, _)) in slots.iter().enumerate() {
                let by = |b: usize| { let x = raw(k, si, b); if *tt == Half2 && b % 2 == 1 { x & 0xBF } else { x } };
                let short = |i: usize| u16::from_le_bytes([by(2 * i), by(2 * i + 1)]);
                match (tu, tt) {
                    (BlendIndices, UnsignedShort4) => assert_eq!(v.bone_id, [short(0) as u8, short(1) as u8, short(2) as u8, short(3) as u8], "layout {vi} vertex {k}: 16-bit blend indices narrowed in order"),
                    (BlendWeights, UnsignedShort4) => assert_eq!(v.bone_weight, [short(0) as f32, short(1) as f32, short(2) as f32, short(3) as f32], "layout {vi} vertex {k}: 16-bit blend weights in order"),
                    (UV, Half2) => { assert_eq!(v.uv0, [half::f16::from_bits(short(0)).to_f32(), half::f16::from_bits(short(1)).to_f32()], "layout {vi} vertex {k}: Half2 UV"); assert_eq!(v.uv1, [0.0, 0.0], "Half2 UVs leave uv1 alone"); }
                    (UV, ByteFloat4) => { assert_eq!((v.uv0, v.uv1), ([by(0) as f32 / 255.0, by(1) as f32 / 255.0], [by(2) as f32 / 255.0, by(3) as f32 / 255.0]), "layout {vi} vertex {k}: byte UVs"); }
                    (Tangent, ByteFloat4) => {}
                    other => panic!("unexpected slot {other:?}"),
                }
            }
            cases += 1;
        }
        // exact footprint: no arm may read past the bytes of its own element.  The file is cut right after the last LOD's vertex section (whose last
        // bytes are the last slot of the last vertex) and that LOD's indices are taken from LOD 1's index section instead; the part must decode to the same vertices.
        let (v2, s2, i2) = (w.model_data.lods[2].vertex_data_offset, w.model_data.lods[2].vertex_buffer_size, w.model_data.lods[2].index_data_offset);
        let i1 = w.model_data.lods[1].index_data_offset;
        assert!(w.model_data.lods[1].index_buffer_size >= w.model_data.lods[2].index_buffer_size && v2 + s2 == i2, "LOD 1 has room for LOD 2's index reads; LOD 2's vertex section is followed by its index section");
        assert_eq!(base + stride * n, (v2 + s2) as usize, "the re-declared stream is the last thing in the last vertex section");
        let mut cut = out[..(v2 + s2) as usize].to_vec();
        let key: Vec<u8> = [s2, w.model_data.lods[2].index_buffer_size, v2, i2].iter().flat_map(|x| x.to_le_bytes()).collect();
        let hits: Vec<usize> = (0x44..w.model_data.lods[0].vertex_data_offset as usize - 16).filter(|k| cut[*k..*k + 16] == key[..]).collect();
        assert_eq!(hits.len(), 1, "the LOD 2 record is found once in the runtime header");
        cut[hits[0] + 12..hits[0] + 16].copy_from_slice(&i1.to_le_bytes());
        assert_eq!(cut[36..40], i2.to_le_bytes(), "file header index offset of LOD 2"); cut[36..40].copy_from_slice(&i1.to_le_bytes());
        let short = MDL::from_existing(&cut).expect("a model whose file ends with its last vertex parses: every element is read within its own bytes");
        assert!(short.lods[l].parts[p].vertices == back.lods[l].parts[p].vertices, "layout {vi}/{rot}: the same vertices are decoded from the file that ends with the last vertex");
        cases += 1;
    } }
    println!("NATIVE native_mdl_reader_only_arms cases={cases}");
}
