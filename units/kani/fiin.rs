//@module src/fiin.rs
use super::*;

fn stub_fmt(_a: core::fmt::Arguments<'_>) -> String { String::new() }

//@unit props=C10 label=S tier=quick fn=fiin::FIINEntry(derive write) bound="entry with the 5-character name 'a.dat', symbolic size and a symbolic 20-byte digest" stubs=fmt::format
//@desc the entry is the fixed 96-byte record: size little-endian at 0, 4 zero bytes, name at 8 zero-padded to 64, digest at 72 zero-padded to 24
#[kani::proof]
#[kani::unwind(66)]
#[kani::stub(alloc::fmt::format, stub_fmt)]
fn k_fiin_entry_write() {
    let size: i32 = kani::any();
    let dg: [u8; 20] = kani::any();
    let e = FIINEntry { file_size: size, file_name: String::from("a.dat"), sha1: dg.to_vec() };
    let mut o = [0xEEu8; 100];
    let mut w = Cursor::new(&mut o[..]);
    match e.write_le(&mut w) { Ok(()) => {}, Err(x) => { core::mem::forget(x); assert!(false, "write"); } }
    assert!(w.position() == 96, "fixed 96-byte record");
    assert!(i32::from_le_bytes([o[0], o[1], o[2], o[3]]) == size, "size at 0");
    assert!(o[8] == b'a' && o[9] == b'.' && o[10] == b'd' && o[11] == b'a' && o[12] == b't', "name at 8");
    let i: usize = kani::any();
    kani::assume(i < 20);
    assert!(o[72 + i] == dg[i], "digest at 72");
    kani::cover!(true, "reachable");
    core::mem::forget(e);
}

//@unit props=C10 label=S tier=parked fn=fiin::FIINEntry(derive read) bound="96-byte record with the name region holding 'a.dat' + NULs, symbolic size, padding and digest region" stubs=fmt::format
//@desc size = LE word at 0, name = bytes at 8 up to the NUL padding, digest = the 24 bytes at 72; 96 bytes consumed
#[kani::proof]
#[kani::unwind(66)]
#[kani::stub(alloc::fmt::format, stub_fmt)]
fn k_fiin_entry_read() {
    let mut b: [u8; 96] = kani::any();
    let mut i = 8; while i < 72 { b[i] = 0; i += 1; }
    b[8] = b'a'; b[9] = b'.'; b[10] = b'd'; b[11] = b'a'; b[12] = b't';
    let mut c = Cursor::new(&b[..]);
    match FIINEntry::read_le(&mut c) {
        Ok(e) => {
            assert!(e.file_size == i32::from_le_bytes([b[0], b[1], b[2], b[3]]), "size at 0");
            let nb = e.file_name.as_bytes();
            assert!(nb.len() == 5 && nb[0] == b'a' && nb[4] == b't', "name without the NUL padding");
            assert!(e.sha1.len() == 24, "24-byte digest field");
            let k: usize = kani::any();
            kani::assume(k < 24);
            assert!(e.sha1[k] == b[72 + k], "digest bytes at 72");
            assert!(c.position() == 96, "96 bytes consumed");
            core::mem::forget(e);
        }
        Err(x) => { core::mem::forget(x); assert!(false, "entry parses"); }
    }
    kani::cover!(true, "reachable");
}

//@unit props=C10 label=S tier=parked fn=fiin::FIINEntry(derive read) bound="96-byte record whose name region holds the UTF-8 name 'é.d' (C3 A9 2E 64) + NULs; size and digest region symbolic" stubs=fmt::format
//@desc the stored base name is returned as the same UTF-8 text (multi-byte characters are not re-encoded)
#[kani::proof]
#[kani::unwind(66)]
#[kani::stub(alloc::fmt::format, stub_fmt)]
fn k_fiin_entry_read_utf8_name() {
    let mut b: [u8; 96] = kani::any();
    let mut i = 8; while i < 72 { b[i] = 0; i += 1; }
    b[8] = 0xC3; b[9] = 0xA9; b[10] = b'.'; b[11] = b'd';
    let mut c = Cursor::new(&b[..]);
    match FIINEntry::read_le(&mut c) {
        Ok(e) => {
            let nb = e.file_name.as_bytes();
            assert!(nb.len() == 4 && nb[0] == 0xC3 && nb[1] == 0xA9 && nb[2] == b'.' && nb[3] == b'd', "name bytes unchanged (UTF-8)");
            core::mem::forget(e);
        }
        Err(x) => { core::mem::forget(x); assert!(false, "entry parses"); }
    }
    kani::cover!(true, "reachable");
}
