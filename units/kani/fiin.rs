//@module src/fiin.rs
use super::*;

fn stub_fmt(_a: core::fmt::Arguments<'_>) -> String { String::new() }

//@unit props=C10 label=S tier=quick fn=fiin::FIINEntry(derive write) bound="entry with the 5-character name 'a.dat', symbolic size and a symbolic 20-byte digest" stubs=fmt::format
//@desc the entry is the fixed 96-byte record: size little-endian at 0, 4 zero bytes, name at 8 zero-padded to 64, digest at 72 zero-padded to 24
#[kani::proof]
#[kani::unwind(66)]
#[kani::stub(alloc::fmt::format, stub_fmt)]
fn k_fiin_entry_write() {
    let size: i32 = kani::any();
    let dg: [u8; 20] = kani::any();
    let e = FIINEntry { file_size: size, file_name: String::from("a.dat"), sha1: dg.to_vec() };
    let mut o = [0xEEu8; 100];
    let mut w = Cursor::new(&mut o[..]);
    match e.write_le(&mut w) { Ok(()) => {}, Err(x) => { core::mem::forget(x); assert!(false, "write"); } }
    assert!(w.position() == 96, "fixed 96-byte record");
    assert!(i32::from_le_bytes([o[0], o[1], o[2], o[3]]) == size, "size at 0");
    assert!(o[8] == b'a' && o[9] == b'.' && o[10] == b'd' && o[11] == b'a' && o[12] == b't', "name at 8");
    let i: usize = kani::any();
    kani::assume(i < 20);
    assert!(o[72 + i] == dg[i], "digest at 72");
    kani::cover!(true, "reachable");
    core::mem::forget(e);
}

//@unit props=C10 label=S tier=parked fn=fiin::FIINEntry(derive read) bound="96-byte record with the name region holding 'a.dat' + NULs, symbolic size, padding and digest region" stubs=fmt::format
//@desc size = LE word at 0, name = bytes at 8 up to the NUL padding, digest = the 24 bytes at 72; 96 bytes consumed
#[kani::proof]
#[kani::unwind(66)]
#[kani::stub(alloc::fmt::format, stub_fmt)]
fn k_fiin_entry_read() {
    let mut b: [u8; 96] = kani::any();
    let mut i = 8; while i < 72 { b[i] = 0; i += 1; }
    b[8] = b'a'; b[9] = b'.'; b[10] = b'd'; b[11] = b'a'; b[12] = b't';
    let mut c = Cursor::new(&b[..]);
    match FIINEntry::read_le(&mut c) {
        Ok(e) => {
            assert!(e.file_size == i32::from_le_bytes([b[0], b[1], b[2], b[3]]), "size at 0");
            let nb = e.file_name.as_bytes();
            assert!(nb.len() == 5 && nb[0] == b'a' && nb[4] == b't', "name without the NUL padding");
            assert!(e.sha1.len() == 24, "24-byte digest field");
            let k: usize = kani::any();
            kani::assume(k < 24);
            assert!(e.sha1[k] == b[72 + k], "digest bytes at 72");
            assert!(c.position() == 96, "96 bytes consumed");
            core::mem::forget(e);
        }
        Err(x) => { core::mem::forget(x); assert!(false, "entry parses"); }
    }
    kani::cover!(true, "reachable");
}

//@unit props=C10 label=S tier=parked fn=fiin::FIINEntry(derive read) bound="96-byte record whose name region holds the UTF-8 name 'é.d' (C3 A9 2E 64) + NULs; size and digest region symbolic" stubs=fmt::format
//@desc the stored base name is returned as the same UTF-8 text (multi-byte characters are not re-encoded)
#[kani::proof]
#[kani::unwind(66)]
#[kani::stub(alloc::fmt::format, stub_fmt)]
fn k_fiin_entry_read_utf8_name() {
    let mut b: [u8; 96] = kani::any();
    let mut i = 8; while i < 72 { b[i] = 0; i += 1; }
    b[8] = 0xC3; b[9] = 0xA9; b[10] = b'.'; b[11] = b'd';
    let mut c = Cursor::new(&b[..]);
    match FIINEntry::read_le(&mut c) {
        Ok(e) => {
            let nb = e.file_name.as_bytes();
            assert!(nb.len() == 4 && nb[0] == 0xC3 && nb[1] == 0xA9 && nb[2] == b'.' && nb[3] == b'd', "name bytes unchanged (UTF-8)");
            core::mem::forget(e);
        }
        Err(x) => { core::mem::forget(x); assert!(false, "entry parses"); }
    }
    kani::cover!(true, "reachable");
}

//@use_common

fn fiin_entry(i: usize, name: &str) -> FIINEntry {
    let mut dg = vec![0u8; 20];
    for (k, b) in dg.iter_mut().enumerate() { *b = (i * 31 + k * 7 + 1) as u8; }
    // digests that END in zero bytes are digests too (1 in 256 does): every third entry ends in 00, every fifth in 00 00
    if i % 3 == 2 { dg[19] = 0; }
    if i % 5 == 4 { dg[18] = 0; dg[19] = 0; }
    FIINEntry { file_size: (i as i32) * 1_000_003 + 5, file_name: name.to_string(), sha1: dg }
}

/// SHA-1 straight from FIPS 180-4 (80 scalar rounds), independent of the library's 4-lane code
fn fiin_fips_sha1(data: &[u8]) -> Vec<u8> {
    let mut h: [u32; 5] = [0x67452301, 0xEFCDAB89, 0x98BADCFE, 0x10325476, 0xC3D2E1F0];
    let mut msg = data.to_vec();
    msg.push(0x80);
    while msg.len() % 64 != 56 { msg.push(0); }
    msg.extend_from_slice(&((data.len() as u64) * 8).to_be_bytes());
    for block in msg.chunks(64) {
        let mut w = [0u32; 80];
        for t in 0..16 { w[t] = u32::from_be_bytes([block[4 * t], block[4 * t + 1], block[4 * t + 2], block[4 * t + 3]]); }
        for t in 16..80 { w[t] = (w[t - 3] ^ w[t - 8] ^ w[t - 14] ^ w[t - 16]).rotate_left(1); }
        let (mut a, mut b, mut c, mut d, mut e) = (h[0], h[1], h[2], h[3], h[4]);
        for t in 0..80 {
            let (f, k) = match t / 20 { 0 => ((b & c) | (!b & d), 0x5A827999u32), 1 => (b ^ c ^ d, 0x6ED9EBA1), 2 => ((b & c) | (b & d) | (c & d), 0x8F1BBCDC), _ => (b ^ c ^ d, 0xCA62C1D6) };
            let tmp = a.rotate_left(5).wrapping_add(f).wrapping_add(e).wrapping_add(k).wrapping_add(w[t]);
            e = d; d = c; c = b.rotate_left(30); b = a; a = tmp;
        }
        h[0] = h[0].wrapping_add(a); h[1] = h[1].wrapping_add(b); h[2] = h[2].wrapping_add(c); h[3] = h[3].wrapping_add(d); h[4] = h[4].wrapping_add(e);
    }
    h.iter().flat_map(|x| x.to_be_bytes()).collect()
}

//@unit props=C10 label=B tier=quick native=1 fn=fiin::FileInfo::new bound="by execution on temporary files: 10 files of 0, 1, 55, 56, 63, 64, 65, 100, 128 and 5000 bytes in nested directories, listed in 4 orders (as is, reversed, long files first, each file alone), relative and absolute paths"
//@desc a table built from files lists, per file and in the order given, its base name, its exact size and its SHA-1 digest (against an independent FIPS 180-4 implementation); an entry does not depend on which files were listed before it; the written table holds those values in the 96-byte records
#[test]
fn native_fiin_new() {
    let root = std::env::temp_dir().join(format!("physis-verif-c10new-{}", std::process::id()));
    let _ = std::fs::remove_dir_all(&root);
    std::fs::create_dir_all(root.join("sub/deeper")).unwrap();
    let sizes = [0usize, 1, 55, 56, 63, 64, 65, 100, 128, 5000];
    let mut files: Vec<(String, String, Vec<u8>)> = vec![]; // (path, base name, content)
    for (i, n) in sizes.iter().enumerate() {
        let base = format!("file_{i}_{n}.bin");
        let rel = match i % 3 { 0 => base.clone(), 1 => format!("sub/{base}"), _ => format!("sub/deeper/{base}") };
        let content: Vec<u8> = (0..*n).map(|k| ((k * 31 + i * 7 + (k >> 6) * 13) % 251) as u8).collect();
        std::fs::write(root.join(&rel), &content).unwrap();
        files.push((root.join(&rel).to_str().unwrap().to_string(), base, content));
    }
    let mut cases = 0u64;
    let n = files.len();
    let mut orders: Vec<Vec<usize>> = vec![(0..n).collect(), (0..n).rev().collect(), vec![9, 8, 7, 0, 1, 2, 3, 4, 5, 6]];
    for i in 0..n { orders.push(vec![i]); }
    orders.push(vec![]);
    for order in orders.iter() {
        let paths: Vec<&str> = order.iter().map(|i| files[*i].0.as_str()).collect();
        let fi = FileInfo::new(&paths).expect("a table is built from readable files");
        assert_eq!(fi.entries.len(), order.len(), "one entry per file");
        for (k, i) in order.iter().enumerate() {
            let e = &fi.entries[k];
            assert_eq!(e.file_name, files[*i].1, "entry {k}: base name of the file");
            assert_eq!(e.file_size as usize, files[*i].2.len(), "entry {k}: exact size");
            assert!(e.sha1 == fiin_fips_sha1(&files[*i].2), "entry {k} ({} bytes, listed after {} other files): SHA-1 digest of the file's content", files[*i].2.len(), k);
            cases += 1;
        }
        let buf = fi.write_to_buffer().expect("write");
        for (k, i) in order.iter().enumerate() {
            let r = &buf[1024 + 96 * k..1024 + 96 * (k + 1)];
            assert_eq!(i32::from_le_bytes(r[0..4].try_into().unwrap()) as usize, files[*i].2.len(), "record {k}: size");
            assert_eq!(&r[8..8 + files[*i].1.len()], files[*i].1.as_bytes(), "record {k}: name");
            assert_eq!(&r[72..92], &fiin_fips_sha1(&files[*i].2)[..], "record {k}: digest");
        }
    }
    let _ = std::fs::remove_dir_all(&root);
    println!("NATIVE native_fiin_new cases={cases}");
}

//@unit props=C10 label=B tier=quick native=1 fn=fiin::FileInfo::{write_to_buffer,from_existing} bound="by execution: tables of 0..6 entries; names of 1, 5, 31, 62, 63 and 64 bytes, digests ending in one and two zero bytes; ASCII and multi-byte UTF-8 (2-, 3- and 4-byte characters)"
//@desc a written table is magic + 16 zero bytes + 1024 + 96*n + 992 zero bytes + n records of 96 bytes (size LE at 0, name at 8 zero-padded to 64, digest at 72 padded to 24) and parses back to the same names, sizes and digests
#[test]
fn native_fiin_roundtrip() {
    let names: Vec<String> = vec!["a".into(), "a.dat".into(), "é.d".into(), "日本語.win32.index".into(), "x".repeat(31), "y".repeat(62), "z".repeat(63),
                                  format!("{}é", "q".repeat(61)), format!("𝄞{}", "k".repeat(59)),
                                  // names that fill the 64-byte field completely (no terminator is stored)
                                  "w".repeat(64), format!("{}é", "f".repeat(62))];
    let mut cases = 0u64;
    for n in 0..=6usize {
        for shift in 0..names.len() {
            let entries: Vec<FIINEntry> = (0..n).map(|i| fiin_entry(i, &names[(i + shift) % names.len()])).collect();
            let want: Vec<(i32, String, Vec<u8>)> = entries.iter().map(|e| (e.file_size, e.file_name.clone(), e.sha1.clone())).collect();
            let buf = FileInfo { entries }.write_to_buffer().expect("write");
            assert_eq!(buf.len(), 8 + 16 + 4 + 4 + 992 + 96 * n, "file length for {n} entries");
            assert_eq!(&buf[..8], b"FileInfo");
            assert!(buf[8..24].iter().all(|b| *b == 0) && buf[32..1024].iter().all(|b| *b == 0), "padding is zero");
            assert_eq!(i32::from_le_bytes(buf[24..28].try_into().unwrap()), 1024);
            assert_eq!(i32::from_le_bytes(buf[28..32].try_into().unwrap()), 96 * n as i32, "entries_size");
            for (i, (size, name, dg)) in want.iter().enumerate() {
                let r = &buf[1024 + 96 * i..1024 + 96 * (i + 1)];
                assert_eq!(i32::from_le_bytes(r[0..4].try_into().unwrap()), *size, "size of entry {i}");
                assert!(r[4..8].iter().all(|b| *b == 0));
                assert_eq!(&r[8..8 + name.len()], name.as_bytes(), "name bytes of entry {i}");
                assert!(r[8 + name.len()..72].iter().all(|b| *b == 0), "name padding of entry {i}");
                assert_eq!(&r[72..92], &dg[..], "digest of entry {i}");
                assert!(r[92..96].iter().all(|b| *b == 0), "digest padding of entry {i}");
            }
            let back = FileInfo::from_existing(&buf).expect("a written table parses");
            assert_eq!(back.entries.len(), n);
            for (i, (size, name, dg)) in want.iter().enumerate() {
                assert_eq!(back.entries[i].file_size, *size);
                assert_eq!(&back.entries[i].file_name, name, "name of entry {i} read back");
                assert_eq!(&back.entries[i].sha1[..20], &dg[..], "digest of entry {i} read back");
            }
            cases += 1;
        }
    }
    println!("NATIVE native_fiin_roundtrip cases={cases}");
}

//@unit props=C17 label=B tier=quick native=1 fn=fiin::FileInfo::from_existing bound="by execution: every truncation and 7 single-byte corruptions per byte of resources/tests/test.fiin and of a written 3-entry table with a multi-byte name"
//@desc damaged file-info tables (truncated anywhere, any single byte damaged incl. invalid UTF-8 in a name, wrong sizes) yield None or a value, never a panic
#[test]
fn native_fiin_damaged_nopanic() {
    let mut cases = 0u64;
    let f = |b: &[u8]| { let _ = FileInfo::from_existing(b); };
    cases += native_sweep(&native_resource("test.fiin"), 4096, 1, &f);
    let made = FileInfo { entries: vec![fiin_entry(0, "a.dat"), fiin_entry(1, "日本語.win32.index"), fiin_entry(2, &"z".repeat(63))] }.write_to_buffer().unwrap();
    cases += native_sweep(&made, 4096, 1, &f);
    println!("NATIVE native_fiin_damaged_nopanic cases={cases}");
}
