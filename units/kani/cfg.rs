//@module src/cfg.rs
use super::*;

//@use_common

//@unit props=C17 label=B tier=quick native=1 fn=cfg::ConfigFile::from_existing bound="by execution: resources/tests/FFXIV.cfg (4492 bytes): every truncation and 7 single-byte corruptions per byte, plus the structural characters '<', '>' and TAB written over each of the first 600 bytes"
//@desc damaged configuration text (truncated anywhere, any byte damaged incl. invalid UTF-8, stray category brackets) yields None or a value, never a panic
#[test]
fn native_cfg_damaged_nopanic() {
    let v = native_resource("FFXIV.cfg");
    let f = |b: &[u8]| { let _ = ConfigFile::from_existing(b); };
    let mut cases = native_sweep(&v, 8192, 1, &f);
    let mut w = v.clone();
    for i in 0..600.min(v.len()) {
        for c in [b'<', b'>', b'\t', b'\n'] { w[i] = c; native_try(&f, &w, &format!("byte {i} overwritten with {c:#04x}")); cases += 1; }
        w[i] = v[i];
    }
    for s in ["<", ">", "<>", "\u{e9}<", "<\u{e9}", "a\tb", "\t", "<a>\r\n\t\r\n"] { native_try(&f, s.as_bytes(), "short text"); cases += 1; }
    println!("NATIVE native_cfg_damaged_nopanic cases={cases}");
}

fn ncfg_render(cats: &[(String, Vec<(String, String)>)]) -> Vec<u8> {
    // the canonical text of the property, rendered independently of the library
    let mut s = String::new();
    for (c, kv) in cats { s.push_str("\r\n<"); s.push_str(c); s.push_str(">\r\n"); for (k, v) in kv { s.push_str(k); s.push('\t'); s.push_str(v); s.push_str("\r\n"); } }
    s.push('\0');
    s.into_bytes()
}
fn ncfg_configs() -> Vec<Vec<(String, Vec<(String, String)>)>> {
    let cat_names = ["FINAL FANTASY XIV Config File", "Version", "Network Settings", "Sound Settings", "Ünïcode 設定", "x"];
    let keys = ["GuidVersion", "Language", "MainAdapter", "ScreenLeft", "Fps", "Language", "k e y", "キー"];
    let vals = ["538050324", "1", "", "NVIDIA GeForce RTX 3080(adapter 0)", "-1", "a b  c", "値"];
    let mut out = vec![];
    for ncat in 0..=4usize {
        for shape in 0..6usize {
            let mut cfg = vec![];
            for c in 0..ncat {
                let nk = (c * 2 + shape) % 4; // 0..3 keys, some categories stay empty
                let kv: Vec<(String, String)> = (0..nk).map(|j| (keys[(c + j * 3 + shape) % keys.len()].to_string(), vals[(c * 2 + j + shape) % vals.len()].to_string())).collect();
                cfg.push((cat_names[(c + shape) % cat_names.len()].to_string(), kv));
            }
            out.push(cfg);
        }
    }
    // the same key several times inside one category, and once more in another
    let d = |k: &str, v: &str| (k.to_string(), v.to_string());
    out.push(vec![("Display Settings".to_string(), vec![d("Gamma", "50"), d("ScreenWidth", "1280"), d("Gamma", "60"), d("Gamma", "")]), ("Empty".to_string(), vec![]), ("Sound Settings".to_string(), vec![d("Gamma", "7"), d("Volume", "100")])]);
    out.push(vec![("A".to_string(), vec![d("k", "1"), d("k", "1"), d("K", "2")])]);
    // values that contain the separator themselves: only the FIRST tab of a line separates key and value (angle brackets inside a value are outside the domain: the parser classifies any line containing one as a category line)
    out.push(vec![("Columns".to_string(), vec![d("Layout", "left\tright\tend"), d("Plain", "x"), d("Trailing", "a\t"), d("Tabs", "\t\t")])]);
    out
}
fn ncfg_build(cats: &[(String, Vec<(String, String)>)]) -> ConfigFile {
    let mut f = ConfigFile { categories: vec![], settings: HashMap::new() };
    for (c, kv) in cats {
        f.categories.push(c.clone());
        if !kv.is_empty() { f.settings.insert(c.clone(), ConfigMap { keys: kv.clone() }); }
    }
    f
}
fn ncfg_view(f: &ConfigFile) -> Vec<(String, Vec<(String, String)>)> {
    f.categories.iter().map(|c| (c.clone(), f.settings.get(c).map(|m| m.keys.clone()).unwrap_or_default())).collect()
}

//@unit props=C08 label=B tier=quick native=1 fn=cfg::ConfigFile::{from_existing,write_to_buffer,set_value,has_key,has_category} bound="by execution: 33 configurations of 0..4 distinctly named categories with 0..4 key/value lines each (ASCII, spaces, empty values, non-ASCII text, keys duplicated inside one category and across categories), resources/tests/FFXIV.cfg, and for each every set_value on each present key and on one absent key"
//@desc write renders CRLF <category> CRLF key TAB value CRLF ... NUL; parsing a written configuration returns the same categories, keys and values in the same order; writing a parsed canonical file reproduces it byte for byte; set_value changes the value of every occurrence of the key and nothing else; has_key / has_category agree with the file's content
#[test]
fn native_cfg_roundtrip() {
    let mut cases = 0u64;
    let mut all = ncfg_configs();
    let canon = native_resource("FFXIV.cfg");
    let parsed_canon = ConfigFile::from_existing(&canon).expect("canonical file parses");
    assert_eq!(parsed_canon.write_to_buffer().expect("write"), canon, "writing the parsed canonical file reproduces it byte for byte");
    all.push(ncfg_view(&parsed_canon));
    for cats in all.iter() {
        let text = ncfg_render(cats);
        let built = ncfg_build(cats);
        assert_eq!(built.write_to_buffer().expect("write"), text, "written text is the canonical rendering");
        let parsed = ConfigFile::from_existing(&text).expect("a written configuration parses");
        assert_eq!(&ncfg_view(&parsed), cats, "categories, keys and values in the same order");
        assert_eq!(parsed.write_to_buffer().expect("write"), text, "write(parse(text)) == text");
        for (c, kv) in cats.iter() {
            assert!(parsed.has_category(c), "has_category({c:?}) agrees with the file (category with {} lines)", kv.len());
            for (k, _) in kv { assert!(parsed.has_key(k), "has_key({k:?})"); }
        }
        assert!(!parsed.has_category("no such category") && !parsed.has_key("no such key"));
        let mut keys: Vec<String> = cats.iter().flat_map(|(_, kv)| kv.iter().map(|(k, _)| k.clone())).collect();
        keys.sort(); keys.dedup();
        keys.push("AbsentKey".to_string());
        for k in keys.iter() {
            let mut m = ConfigFile::from_existing(&text).unwrap();
            m.set_value(k, "new value");
            let want: Vec<(String, Vec<(String, String)>)> = cats.iter().map(|(c, kv)| (c.clone(), kv.iter().map(|(kk, v)| (kk.clone(), if kk == k { "new value".to_string() } else { v.clone() })).collect())).collect();
            assert_eq!(ncfg_view(&m), want, "set_value({k:?}) changes every occurrence of the key and nothing else");
            assert_eq!(m.write_to_buffer().unwrap(), ncfg_render(&want));
            cases += 1;
        }
        cases += 1;
    }
    println!("NATIVE native_cfg_roundtrip cases={cases}");
}
