//@module src/cfg.rs
use super::*;

//@use_common

//@unit props=C17 label=B tier=quick native=1 fn=cfg::ConfigFile::from_existing bound="by execution: resources/tests/FFXIV.cfg (4492 bytes): every truncation and 7 single-byte corruptions per byte, plus the structural characters '<', '>' and TAB written over each of the first 600 bytes"
//@desc damaged configuration text (truncated anywhere, any byte damaged incl. invalid UTF-8, stray category brackets) yields None or a value, never a panic
#[test]
fn native_cfg_damaged_nopanic() {
    let v = native_resource("FFXIV.cfg");
    let f = |b: &[u8]| { let _ = ConfigFile::from_existing(b); };
    let mut cases = native_sweep(&v, 8192, 1, &f);
    let mut w = v.clone();
    for i in 0..600.min(v.len()) {
        for c in [b'<', b'>', b'\t', b'\n'] { w[i] = c; native_try(&f, &w, &format!("byte {i} overwritten with {c:#04x}")); cases += 1; }
        w[i] = v[i];
    }
    for s in ["<", ">", "<>", "\u{e9}<", "<\u{e9}", "a\tb", "\t", "<a>\r\n\t\r\n"] { native_try(&f, s.as_bytes(), "short text"); cases += 1; }
    println!("NATIVE native_cfg_damaged_nopanic cases={cases}");
}
