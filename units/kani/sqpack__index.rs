//@module src/sqpack/index.rs
use super::*;
use std::io::Cursor;
use crate::common::{Platform, Region};
use crate::sqpack::SqPackFileType;

fn stub_fmt(_a: core::fmt::Arguments<'_>) -> String { String::new() }

// ---------- spec: textbook bit-serial JAMCRC (independent of the table code) ----------
fn spec_jamcrc(bytes: &[u8]) -> u32 {
    let mut c: u32 = 0xFFFF_FFFF;
    let mut i = 0;
    while i < bytes.len() {
        c ^= bytes[i] as u32;
        let mut k = 0;
        while k < 8 { c = if c & 1 == 1 { (c >> 1) ^ 0xEDB8_8320 } else { c >> 1 }; k += 1; }
        i += 1;
    }
    c
}

//@unit props=C01,C12 label=B tier=quick fn=crc::Jamcrc::checksum bound="messages of exactly 2 bytes (bounded counterexample finder paired with the unbounded Verus unit jamcrc)"
//@desc Jamcrc::checksum == bit-serial JAMCRC on every 2-byte message (the const table is built by the real Jamcrc::new)
#[kani::proof]
#[kani::unwind(10)]
fn k_jamcrc_2bytes() {
    let b: [u8; 2] = kani::any();
    assert!(CRC.checksum(&b) == spec_jamcrc(&b), "checksum equals textbook JAMCRC");
    kani::cover!(true, "reachable");
}

//@unit props=C01 label=P tier=quick fn=sqpack::index::FileEntryData::read_options
//@desc for every 32-bit entry word w (both endians): is_synonym = bit 0, data_file_id = bits 1..3, offset = (w >> 4) * 128, exactly 4 bytes consumed
#[kani::proof]
fn k_file_entry_data_word() {
    let b: [u8; 4] = kani::any();
    let mut c = Cursor::new(&b[..]);
    match FileEntryData::read_options(&mut c, Endian::Little, ()) {
        Ok(d) => {
            let w = u32::from_le_bytes(b);
            assert!(d.is_synonym == (w & 1 == 1), "is_synonym is bit 0");
            assert!(d.data_file_id as u32 == (w >> 1) & 7, "data_file_id is bits 1..3");
            assert!(d.offset == ((w >> 4) as u64) * 128, "offset is the upper 28 bits times 128");
            assert!(c.position() == 4, "4 bytes consumed");
        }
        Err(e) => { core::mem::forget(e); assert!(false, "entry word always parses"); }
    }
    kani::cover!(true, "reachable");
}

//@unit props=C01 label=S tier=quick fn=sqpack::index::FileEntry(derive) bound="Index1 record, 16 bytes, all contents" stubs=fmt::format
//@desc Index1 entry: hash = SplitPath{name: word0, path: word1}, entry word = word2, 4 padding bytes consumed (16 in total)
#[kani::proof]
#[kani::unwind(3)]
#[kani::stub(alloc::fmt::format, stub_fmt)]
fn k_file_entry_index1() {
    let b: [u8; 16] = kani::any();
    let mut c = Cursor::new(&b[..]);
    match FileEntry::read_options(&mut c, Endian::Little, (&IndexType::Index1,)) {
        Ok(e) => {
            let w0 = u32::from_le_bytes([b[0], b[1], b[2], b[3]]);
            let w1 = u32::from_le_bytes([b[4], b[5], b[6], b[7]]);
            let w2 = u32::from_le_bytes([b[8], b[9], b[10], b[11]]);
            assert!(e.hash == Hash::SplitPath { name: w0, path: w1 }, "Index1 hash is (name, path) = words 0, 1");
            assert!(e.data.offset == ((w2 >> 4) as u64) * 128 && e.data.data_file_id as u32 == (w2 >> 1) & 7, "entry word is word 2");
            assert!(c.position() == 16, "an Index1 entry occupies 16 bytes");
            core::mem::forget(e);
        }
        Err(e) => { core::mem::forget(e); assert!(false, "16 bytes always parse as an Index1 entry"); }
    }
    kani::cover!(true, "reachable");
}

//@unit props=C01 label=S tier=quick fn=sqpack::index::FileEntry(derive) bound="Index2 record, 8 bytes, all contents" stubs=fmt::format
//@desc Index2 entry: hash = FullPath(word0), entry word = word1, no padding (8 bytes in total)
#[kani::proof]
#[kani::unwind(3)]
#[kani::stub(alloc::fmt::format, stub_fmt)]
fn k_file_entry_index2() {
    let b: [u8; 8] = kani::any();
    let mut c = Cursor::new(&b[..]);
    match FileEntry::read_options(&mut c, Endian::Little, (&IndexType::Index2,)) {
        Ok(e) => {
            let w0 = u32::from_le_bytes([b[0], b[1], b[2], b[3]]);
            let w1 = u32::from_le_bytes([b[4], b[5], b[6], b[7]]);
            assert!(e.hash == Hash::FullPath(w0), "Index2 hash is word 0");
            assert!(e.data.offset == ((w1 >> 4) as u64) * 128 && e.data.data_file_id as u32 == (w1 >> 1) & 7, "entry word is word 1");
            assert!(c.position() == 8, "an Index2 entry occupies 8 bytes");
            core::mem::forget(e);
        }
        Err(e) => { core::mem::forget(e); assert!(false, "8 bytes always parse as an Index2 entry"); }
    }
    kani::cover!(true, "reachable");
}

// ---------- find_entry / exists over an index value built in the harness ----------
fn mk_descriptor() -> SegementDescriptor { SegementDescriptor { count: 0, offset: 0, size: 0, sha1_hash: [0; 20] } }
fn mk_index(t: IndexType, entries: Vec<FileEntry>) -> SqPackIndex {
    SqPackIndex {
        sqpack_header: SqPackHeader { platform_id: Platform::Win32, size: 1024, version: 1, file_type: SqPackFileType::Index, unk1: 0, unk2: 0, region: Region::Global, sha1_hash: [0; 20] },
        index_header: SqPackIndexHeader { size: 1024, file_descriptor: mk_descriptor(), data_descriptor: mk_descriptor(), unknown_descriptor: mk_descriptor(), folder_descriptor: mk_descriptor(), index_type: t, sha1_hash: [0; 20] },
        entries, data_entries: Vec::new(), folder_entries: Vec::new(),
    }
}
static mut MODEL_HASH: (u32, u32) = (0, 0);
// model of calculate_hash (its own contract is decided by k_calculate_hash_* / jamcrc): some hash of the index's kind
fn model_calculate_hash(s: &SqPackIndex, _path: &str) -> Hash {
    let (a, b) = unsafe { MODEL_HASH };
    match s.index_header.index_type { IndexType::Index1 => Hash::SplitPath { name: a, path: b }, IndexType::Index2 => Hash::FullPath(a) }
}
fn any_entry(index1: bool) -> (FileEntry, u32, u32, u8, u64) {
    let (a, b): (u32, u32) = (kani::any(), kani::any());
    let id: u8 = kani::any();
    let off: u64 = kani::any();
    let h = if index1 { Hash::SplitPath { name: a, path: b } } else { Hash::FullPath(a) };
    (FileEntry { hash: h, data: FileEntryData { is_synonym: false, data_file_id: id, offset: off } }, a, b, id, off)
}
fn find_entry_contract(index1: bool) {
    let (e0, a0, b0, id0, off0) = any_entry(index1);
    let (e1, a1, b1, id1, off1) = any_entry(index1);
    let (e2, a2, b2, id2, off2) = any_entry(index1);
    let idx = mk_index(if index1 { IndexType::Index1 } else { IndexType::Index2 }, vec![e0, e1, e2]);
    let (qa, qb): (u32, u32) = (kani::any(), kani::any());
    unsafe { MODEL_HASH = (qa, qb); }
    let m0 = a0 == qa && (!index1 || b0 == qb);
    let m1 = a1 == qa && (!index1 || b1 == qb);
    let m2 = a2 == qa && (!index1 || b2 == qb);
    let found = idx.find_entry("x");
    let ex = idx.exists("x");
    assert!(ex == (m0 || m1 || m2), "exists iff some entry carries the path hash");
    assert!(found.is_some() == ex, "find_entry is Some exactly when exists");
    if let Some(r) = found {
        let (wid, woff) = if m0 { (id0, off0) } else if m1 { (id1, off1) } else { (id2, off2) };
        assert!(r.data_file_id == wid && r.offset == woff, "the first matching entry designates data file and offset");
    }
    assert!(idx.entries.len() == 3, "entry table unchanged");
    kani::cover!(m1 && !m0, "reachable");
    core::mem::forget(idx);
}

//@unit props=C01 label=B tier=quick fn=sqpack::index::SqPackIndex::{find_entry,exists} bound="entry table of exactly 3 entries (all hashes, ids, offsets symbolic), Index1" stubs=calculate_hash
//@desc exists(p) iff some entry's hash equals hash(p); find_entry returns the first matching entry's dat id and offset; calculate_hash replaced by a model returning an arbitrary hash of the index's kind
#[kani::proof]
#[kani::unwind(5)]
#[kani::stub(SqPackIndex::calculate_hash, model_calculate_hash)]
fn k_find_entry_index1() { find_entry_contract(true); }

//@unit props=C01 label=B tier=quick fn=sqpack::index::SqPackIndex::{find_entry,exists} bound="entry table of exactly 3 entries, Index2" stubs=calculate_hash
//@desc same contract for an Index2 table (full-path hashes)
#[kani::proof]
#[kani::unwind(5)]
#[kani::stub(SqPackIndex::calculate_hash, model_calculate_hash)]
fn k_find_entry_index2() { find_entry_contract(false); }

// ASCII-only model of str::to_lowercase (the property's domain is ASCII game paths; std's Unicode tables time CBMC out)
fn ascii_lower_model(s: &str) -> String {
    let b = s.as_bytes();
    let mut v: Vec<u8> = Vec::with_capacity(b.len());
    let mut i = 0;
    while i < b.len() { v.push(b[i].to_ascii_lowercase()); i += 1; }
    unsafe { String::from_utf8_unchecked(v) }
}

//@unit props=C01,C12 label=B tier=thorough fn=sqpack::index::SqPackIndex::calculate_partial_hash bound="ASCII strings of exactly 3 bytes; str::to_lowercase replaced by an ASCII model" stubs=to_lowercase
//@desc the partial path hash is the JAMCRC of the lower-cased bytes, hence insensitive to letter case
#[kani::proof]
#[kani::unwind(9)]
#[kani::stub(str::to_lowercase, ascii_lower_model)]
fn k_partial_hash_ascii3() {
    let b: [u8; 3] = kani::any();
    kani::assume(b[0] < 128 && b[1] < 128 && b[2] < 128);
    let s = unsafe { std::str::from_utf8_unchecked(&b) };
    let h = SqPackIndex::calculate_partial_hash(s);
    let lower = [b[0].to_ascii_lowercase(), b[1].to_ascii_lowercase(), b[2].to_ascii_lowercase()];
    assert!(h == spec_jamcrc(&lower), "JAMCRC of the lower-cased bytes");
    let up = [b[0].to_ascii_uppercase(), b[1].to_ascii_uppercase(), b[2].to_ascii_uppercase()];
    let h2 = SqPackIndex::calculate_partial_hash(unsafe { std::str::from_utf8_unchecked(&up) });
    assert!(h2 == h, "case-insensitive");
    kani::cover!(true, "reachable");
}

// Recorder standing in for Jamcrc::checksum (its own contract - checksum(bytes) = JAMCRC(bytes), a function of the bytes only -
// is the Verus unit `jamcrc`): remembers what it was asked to hash and answers with a value that identifies the call.
static mut HASHED: [[u8; 6]; 2] = [[0; 6]; 2];
static mut HASHED_LEN: [usize; 2] = [0; 2];
static mut NHASHED: usize = 0;
fn record_checksum(_s: &Jamcrc, bytes: &[u8]) -> u32 {
    unsafe {
        let k = NHASHED;
        if k < 2 {
            HASHED_LEN[k] = bytes.len();
            let mut i = 0;
            while i < bytes.len() && i < 6 { HASHED[k][i] = bytes[i]; i += 1; }
        }
        NHASHED += 1;
        0x1000 + k as u32
    }
}
fn ascii_letterish(c: u8) -> bool { c < 128 && c != b'/' && c >= 0x20 }

//@unit props=C01,C12 label=B tier=quick fn=sqpack::index::SqPackIndex::calculate_hash bound="Index2; ASCII paths of exactly 5 bytes 'ab/cd' with symbolic letters; checksum replaced by a recorder, to_lowercase by an ASCII model" stubs=Jamcrc::checksum,to_lowercase
//@desc for a full-path index the one hash is taken over the lower-cased bytes of the whole path (so the answer ignores letter case)
#[kani::proof]
#[kani::unwind(8)]
#[kani::stub(str::to_lowercase, ascii_lower_model)]
#[kani::stub(crate::crc::Jamcrc::checksum, record_checksum)]
fn k_calculate_hash_index2() {
    let c: [u8; 4] = kani::any();
    kani::assume(ascii_letterish(c[0]) && ascii_letterish(c[1]) && ascii_letterish(c[2]) && ascii_letterish(c[3]));
    let p = [c[0], c[1], b'/', c[2], c[3]];
    let idx = mk_index(IndexType::Index2, Vec::new());
    unsafe { NHASHED = 0; }
    let h = idx.calculate_hash(unsafe { std::str::from_utf8_unchecked(&p) });
    unsafe {
        assert!(NHASHED == 1 && h == Hash::FullPath(0x1000), "one hash over the whole path");
        assert!(HASHED_LEN[0] == 5, "whole path hashed");
        let i: usize = kani::any();
        kani::assume(i < 5);
        assert!(HASHED[0][i] == p[i].to_ascii_lowercase(), "lower-cased bytes are hashed");
    }
    kani::cover!(true, "reachable");
    core::mem::forget(idx);
}

//@unit props=C01,C12 label=B tier=parked fn=sqpack::index::SqPackIndex::calculate_hash bound="Index1; ASCII paths of exactly 5 bytes 'ab/cd' with symbolic letters; checksum replaced by a recorder, to_lowercase by an ASCII model" stubs=Jamcrc::checksum,to_lowercase
//@desc for a split index the path hash is taken over the lower-cased directory part (before the last '/') and the name hash over the lower-cased file part (after it)
#[kani::proof]
#[kani::unwind(8)]
#[kani::stub(str::to_lowercase, ascii_lower_model)]
#[kani::stub(crate::crc::Jamcrc::checksum, record_checksum)]
fn k_calculate_hash_index1() {
    let c: [u8; 4] = kani::any();
    kani::assume(ascii_letterish(c[0]) && ascii_letterish(c[1]) && ascii_letterish(c[2]) && ascii_letterish(c[3]));
    let p = [c[0], c[1], b'/', c[2], c[3]];
    let idx = mk_index(IndexType::Index1, Vec::new());
    unsafe { NHASHED = 0; }
    let h = idx.calculate_hash(unsafe { std::str::from_utf8_unchecked(&p) });
    unsafe {
        assert!(NHASHED == 2, "two hashes: directory and file name");
        // call 0 = directory, call 1 = file name (order of evaluation in the code); the result pairs them as (name, path)
        assert!(h == Hash::SplitPath { name: 0x1001, path: 0x1000 }, "name hash from the file part, path hash from the directory part");
        assert!(HASHED_LEN[0] == 2 && HASHED[0][0] == c[0].to_ascii_lowercase() && HASHED[0][1] == c[1].to_ascii_lowercase(), "directory part, lower-cased, without the separator");
        assert!(HASHED_LEN[1] == 2 && HASHED[1][0] == c[2].to_ascii_lowercase() && HASHED[1][1] == c[3].to_ascii_lowercase(), "file part, lower-cased, without the separator");
    }
    kani::cover!(true, "reachable");
    core::mem::forget(idx);
}

fn put_le32(b: &mut [u8], o: usize, v: u32) { b[o] = v as u8; b[o + 1] = (v >> 8) as u8; b[o + 2] = (v >> 16) as u8; b[o + 3] = (v >> 24) as u8; }

//@unit props=C01 label=S tier=parked fn=sqpack::index::SqPackIndex(derive read) bound="probe: concrete 2 KiB header image of an index2 file + 2 entries of 8 bytes (hashes symbolic)" stubs=fmt::format
//@desc the entry table of an index2 file holds size / 8 entries (8-byte records)
#[kani::proof]
#[kani::unwind(1030)]
#[kani::stub(alloc::fmt::format, stub_fmt)]
fn k_index2_whole_file_two_entries() {
    let mut img = [0u8; 2064];
    img[0] = b'S'; img[1] = b'q'; img[2] = b'P'; img[3] = b'a'; img[4] = b'c'; img[5] = b'k';
    // SqPackHeader: platform 0, size 1024, version 1, type 2 (index), region -1
    put_le32(&mut img, 12, 1024); put_le32(&mut img, 16, 1); img[20] = 2; img[32] = 0xFF; img[33] = 0xFF;
    // index header at 1024: size 1024; file descriptor: count 0, offset 2048, size 16
    put_le32(&mut img, 1024, 1024);
    put_le32(&mut img, 1024 + 4 + 4, 2048); put_le32(&mut img, 1024 + 4 + 8, 16);
    // index type at 1024 + 4 + 4*72 ... computed below: size(4) + file desc (72) + pad 4 + 3 descriptors (72 each) = 4 + 72 + 4 + 216 = 296
    img[1024 + 296] = 1; // Index2
    let h: [u32; 2] = kani::any();
    put_le32(&mut img, 2048, h[0]); put_le32(&mut img, 2052, 0x10);
    put_le32(&mut img, 2056, h[1]); put_le32(&mut img, 2060, 0x20);
    let mut c = Cursor::new(&img[..]);
    match SqPackIndex::read(&mut c) {
        Ok(idx) => {
            assert!(idx.index_header.index_type == IndexType::Index2, "index2 header");
            assert!(idx.entries.len() == 2, "a 16-byte entry table of an index2 file holds two 8-byte entries");
            assert!(idx.entries[1].hash == Hash::FullPath(h[1]), "second entry's hash");
            core::mem::forget(idx);
        }
        Err(e) => { core::mem::forget(e); assert!(false, "index parses"); }
    }
    kani::cover!(true, "reachable");
}

fn nix_jamcrc(bytes: &[u8]) -> u32 { let mut c: u32 = 0xFFFF_FFFF; for b in bytes { c ^= *b as u32; for _ in 0..8 { c = if c & 1 == 1 { (c >> 1) ^ 0xEDB8_8320 } else { c >> 1 }; } } c }

//@unit props=C12,C01 label=B tier=quick native=1 fn=sqpack::index::SqPackIndex::{calculate_partial_hash,calculate_hash} bound="by execution: 40 ASCII game paths of depth 2..6 in lower, upper and two mixed cases, through calculate_partial_hash and through calculate_hash of an index1 and an index2 header; every ASCII code point 1..127 placed in the directory and in the file part"
//@desc a path hashes to the bit-serial JAMCRC of its lower-cased bytes: the whole path for index2, and for index1 the pair (file name after the last '/', directory before it); letter case never changes the hash
#[test]
fn native_path_hashes() {
    let mut cases = 0u64;
    let mk = |t: IndexType| { let mut b = vec![0u8; 2048]; b[0..8].copy_from_slice(b"SqPack\0\0"); b[12..16].copy_from_slice(&1024u32.to_le_bytes()); b[16..20].copy_from_slice(&1u32.to_le_bytes()); b[20..24].copy_from_slice(&2u32.to_le_bytes()); b[32] = 0xFF; b[33] = 0xFF;
        b[1024..1028].copy_from_slice(&1024u32.to_le_bytes()); b[1032..1036].copy_from_slice(&2048u32.to_le_bytes()); b[1320] = t as u8; SqPackIndex::read(&mut Cursor::new(&b[..])).expect("header-only index parses") };
    let (i1, i2) = (mk(IndexType::Index1), mk(IndexType::Index2));
    let dirs = ["exd", "chara/equipment/e0001/model", "bg/ex1/01_roc_r2/common/texture", "music/ffxiv", "common/font", "ui/icon/000000", "vfx/common/eff", "shader/sm5/shpk"];
    let files = ["root.exl", "c0101e0001_top.mdl", "r1a0_b0_flor1_d.tex", "BGM_System_Title.scd", "AXIS_12.fdt"];
    for (di, d) in dirs.iter().enumerate() { for (fi, f) in files.iter().enumerate() {
        let lower = format!("{d}/{f}").to_ascii_lowercase();
        let (dl, fl) = lower.rsplit_once('/').unwrap();
        for variant in 0..4usize {
            let p: String = lower.chars().enumerate().map(|(i, c)| match variant { 0 => c, 1 => c.to_ascii_uppercase(), 2 => if (i + di) % 2 == 0 { c.to_ascii_uppercase() } else { c }, _ => if (i + fi) % 3 == 0 { c.to_ascii_uppercase() } else { c } }).collect();
            assert_eq!(SqPackIndex::calculate_partial_hash(&p), nix_jamcrc(lower.as_bytes()), "partial hash of {p}");
            assert!(i2.calculate_hash(&p) == Hash::FullPath(nix_jamcrc(lower.as_bytes())), "index2 hash of {p}");
            assert!(i1.calculate_hash(&p) == Hash::SplitPath { name: nix_jamcrc(fl.as_bytes()), path: nix_jamcrc(dl.as_bytes()) }, "index1 hash of {p}: (file name, directory)");
            cases += 1;
        }
    } }
    // every ASCII code point (except '/') inside a path, in the directory and in the file part, and both alphabets in full
    for cp in 1u8..128 {
        if cp == b'/' { continue; }
        let c = cp as char;
        let p = format!("bg/d{c}r/sub/f{c}le.dat");
        let lower = p.to_ascii_lowercase();
        let (dl, fl) = lower.rsplit_once('/').unwrap();
        assert_eq!(SqPackIndex::calculate_partial_hash(&p), nix_jamcrc(lower.as_bytes()), "partial hash of a path containing code point {cp:#04x}");
        assert!(i2.calculate_hash(&p) == Hash::FullPath(nix_jamcrc(lower.as_bytes())), "index2 hash with code point {cp:#04x}");
        assert!(i1.calculate_hash(&p) == Hash::SplitPath { name: nix_jamcrc(fl.as_bytes()), path: nix_jamcrc(dl.as_bytes()) }, "index1 hash with code point {cp:#04x}");
        cases += 1;
    }
    let both = "ABCDEFGHIJKLMNOPQRSTUVWXYZ/abcdefghijklmnopqrstuvwxyz/AbCdEfGhIjKlMnOpQrStUvWxYz.ZIP";
    assert_eq!(SqPackIndex::calculate_partial_hash(both), nix_jamcrc(both.to_ascii_lowercase().as_bytes()), "both alphabets");
    cases += 1;
    println!("NATIVE native_path_hashes cases={cases}");
}
