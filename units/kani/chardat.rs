//@module src/chardat.rs
use super::*;

fn stub_fmt(_a: core::fmt::Arguments<'_>) -> String { String::new() }

fn fields(p: &CustomizeData) -> [u8; 27] {
    [p.race as u8, p.gender.clone() as u8, p.age, p.height, p.tribe as u8, p.face, p.hair, p.enable_highlights as u8, p.skin_tone, p.right_eye_color,
     p.hair_tone, p.highlights, p.facial_features, p.facial_feature_color, p.eyebrows, p.left_eye_color, p.eyes, p.nose, p.jaw, p.mouth,
     p.lips_tone_fur_pattern, p.race_feature_size, p.race_feature_type, p.bust, p.face_paint, p.face_paint_color, p.voice]
}

const BASE: [u8; 27] = [1, 0, 1, 50, 1, 5, 1, 0, 2, 37, 53, 0, 2, 2, 0, 37, 0, 0, 0, 0, 43, 50, 0, 0, 0, 36, 1];

//@unit props=C09 label=S tier=quick fn=chardat::CustomizeData(derive read) bound="27-byte record; the 24 plain bytes symbolic, race/gender/tribe bytes held at the valid baseline (1, 0, 1)" stubs=fmt::format
//@desc every plain appearance field is the byte at its documented position (age 2, height 3, face 5, hair 6, highlights flag 7, skin 8, right eye 9, hair colour 10, highlight colour 11, facial features 12, feature colour 13, eyebrows 14, left eye 15, eyes 16, nose 17, jaw 18, mouth 19, lip/fur 20, feature size 21, feature type 22, bust 23, face paint 24, paint colour 25, voice 26); 27 bytes consumed
#[kani::proof]
#[kani::unwind(4)]
#[kani::stub(alloc::fmt::format, stub_fmt)]
fn k_customize_read_plain() {
    let mut b: [u8; 27] = kani::any();
    b[0] = BASE[0]; b[1] = BASE[1]; b[4] = BASE[4];
    let mut c = Cursor::new(&b[..]);
    match CustomizeData::read(&mut c) {
        Ok(p) => {
            let f = fields(&p);
            let i: usize = kani::any();
            kani::assume(i < 27);
            if i == 7 { assert!(p.enable_highlights == (b[7] == 1), "highlights flag"); }
            else { assert!(f[i] == b[i], "field i is the byte at its documented position"); }
            assert!(c.position() == 27, "27 bytes");
        }
        Err(e) => { core::mem::forget(e); assert!(false, "a record with defined codes parses"); }
    }
    kani::cover!(true, "reachable");
}

//@unit props=C09 label=S tier=parked fn=chardat::CustomizeData(derive read) bound="27-byte record at the baseline of arr.dat with the race byte (offset 0) symbolic" stubs=fmt::format
//@desc race is decoded from byte 0: codes 1..8 map to the race with that code, every other code rejects the record
#[kani::proof]
#[kani::unwind(4)]
#[kani::stub(alloc::fmt::format, stub_fmt)]
fn k_customize_read_race() {
    let mut b = BASE;
    b[0] = kani::any();
    let mut c = Cursor::new(&b[..]);
    match CustomizeData::read(&mut c) {
        Ok(p) => { assert!(p.race as u8 == b[0] && b[0] >= 1 && b[0] <= 8, "race from byte 0"); assert!(p.tribe as u8 == 1 && p.gender as u8 == 0, "other enum fields unaffected"); }
        Err(e) => { core::mem::forget(e); assert!(b[0] < 1 || b[0] > 8, "only undefined race codes are rejected"); }
    }
    kani::cover!(true, "reachable");
}

//@unit props=C09 label=S tier=parked fn=chardat::CustomizeData(derive read) bound="27-byte record at the baseline with the gender byte (offset 1) and the tribe byte (offset 4) symbolic" stubs=fmt::format
//@desc gender is decoded from byte 1 (0..1) and tribe from byte 4 (1..16); every other code rejects the record
#[kani::proof]
#[kani::unwind(4)]
#[kani::stub(alloc::fmt::format, stub_fmt)]
fn k_customize_read_gender_tribe() {
    let mut b = BASE;
    b[1] = kani::any();
    b[4] = kani::any();
    let valid = b[1] <= 1 && b[4] >= 1 && b[4] <= 16;
    let mut c = Cursor::new(&b[..]);
    match CustomizeData::read(&mut c) {
        Ok(p) => { assert!(valid, "only defined codes accepted"); assert!(p.gender as u8 == b[1] && p.tribe as u8 == b[4], "gender from byte 1, tribe from byte 4"); }
        Err(e) => { core::mem::forget(e); assert!(!valid, "only undefined codes are rejected"); }
    }
    kani::cover!(true, "reachable");
}

fn any_customize() -> CustomizeData {
    let (r, g, t): (u8, u8, u8) = (kani::any(), kani::any(), kani::any());
    kani::assume(r >= 1 && r <= 8 && g <= 1 && t >= 1 && t <= 16);
    CustomizeData { race: Race::try_from(r).unwrap(), gender: Gender::try_from(g).unwrap(), age: kani::any(), height: kani::any(), tribe: Tribe::try_from(t).unwrap(),
        face: kani::any(), hair: kani::any(), enable_highlights: kani::any(), skin_tone: kani::any(), right_eye_color: kani::any(), hair_tone: kani::any(),
        highlights: kani::any(), facial_features: kani::any(), facial_feature_color: kani::any(), eyebrows: kani::any(), left_eye_color: kani::any(), eyes: kani::any(),
        nose: kani::any(), jaw: kani::any(), mouth: kani::any(), lips_tone_fur_pattern: kani::any(), race_feature_size: kani::any(), race_feature_type: kani::any(),
        bust: kani::any(), face_paint: kani::any(), face_paint_color: kani::any(), voice: kani::any() }
}

//@unit props=C09 label=P tier=quick fn=chardat::CustomizeData(derive write) stubs=fmt::format
//@desc every value: the writer emits 27 bytes with each field at its documented position
#[kani::proof]
#[kani::unwind(4)]
#[kani::stub(alloc::fmt::format, stub_fmt)]
fn k_customize_write() {
    let p = any_customize();
    let mut o = [0xEEu8; 28];
    let mut w = Cursor::new(&mut o[..]);
    match p.write_le(&mut w) { Ok(()) => {}, Err(e) => { core::mem::forget(e); assert!(false, "write"); } }
    assert!(w.position() == 27, "27 bytes");
    let f = fields(&p);
    let i: usize = kani::any();
    kani::assume(i < 27);
    assert!(o[i] == f[i], "field i is written at its documented position");
    kani::cover!(true, "reachable");
}

//@unit props=C09 label=S tier=thorough fn=chardat::CharacterData::calc_checksum bound="empty comment; customize bytes and timestamp symbolic"
//@desc checksum = XOR over i of byte_i << (i mod 24) for the 196-byte sequence customize(27) | 0 | timestamp LE | comment zero-padded to 164
#[kani::proof]
#[kani::unwind(200)]
#[kani::stub(alloc::fmt::format, stub_fmt)]
fn k_chardat_checksum_empty_comment() {
    let p = any_customize();
    let f = fields(&p);
    let ts: u32 = kani::any();
    let cd = CharacterData { version: 1, customize: p, timestamp: ts, comment: String::new() };
    let got = cd.calc_checksum();
    let mut seq = [0u8; 196];
    let mut i = 0;
    while i < 27 { seq[i] = f[i]; i += 1; }
    let t = ts.to_le_bytes();
    seq[28] = t[0]; seq[29] = t[1]; seq[30] = t[2]; seq[31] = t[3];
    let mut want: u32 = 0;
    let mut i = 0;
    while i < 196 { want ^= (seq[i] as u32) << (i % 24); i += 1; }
    assert!(got == want, "documented checksum over customize, timestamp and comment");
    kani::cover!(true, "reachable");
    core::mem::forget(cd);
}

//@use_common

//@unit props=C17 label=B tier=quick native=1 fn=chardat::CharacterData::from_existing bound="by execution: every truncation and 7 single-byte corruptions per byte of the four 212-byte presets under resources/tests/chardat; comment fields of 161..164 bytes of 2-, 3- and 4-byte characters at every alignment"
//@desc damaged character presets (truncated anywhere, any single byte damaged incl. enum bytes, invalid UTF-8 and missing NUL in the comment) yield None or a value, never a panic
#[test]
fn native_chardat_damaged_nopanic() {
    let mut cases = 0u64;
    let f = |b: &[u8]| { let _ = CharacterData::from_existing(b); };
    for name in ["chardat/arr.dat", "chardat/heavensward.dat", "chardat/stormblood.dat", "chardat/shadowbringers.dat"] {
        cases += native_sweep(&native_resource(name), 4096, 1, &f);
    }
    // comment fields filled to the last byte with multi-byte characters (no NUL inside the 164 bytes), at every alignment
    let base = native_resource("chardat/arr.dat");
    for unit in ["é", "日", "𝄞", "aé", "a日", "ab𝄞"] {
        for shift in 0..4usize {
            let mut v = base.clone();
            let mut fill: Vec<u8> = std::iter::repeat(b'x').take(shift).collect();
            while fill.len() < 164 { fill.extend_from_slice(unit.as_bytes()); }
            for cut in [164usize, 163, 162, 161] { let mut w = v.clone(); w[48..48 + cut].copy_from_slice(&fill[..cut]); for k in cut..164 { w[48 + k] = 0; } native_try(&f, &w, &format!("comment of {cut} bytes of {unit:?} after {shift} ASCII bytes")); cases += 1; }
            v[48..212].copy_from_slice(&fill[..164]);
            native_try(&f, &v, &format!("full 164-byte comment of {unit:?} after {shift} ASCII bytes")); cases += 1;
        }
    }
    println!("NATIVE native_chardat_damaged_nopanic cases={cases}");
}

//@unit props=C09 label=B tier=quick native=1 fn=chardat::CharacterData::{write_to_buffer,from_existing,calc_checksum} bound="by execution: every (race, gender, tribe) code combination 8 x 2 x 16 with byte fields from 3 patterns (all 0, all 255, distinct per field), 5 timestamps, comments of 0, 1, 17, 162 and 163 bytes (ASCII and multi-byte), 3840 presets; the four presets under resources/tests/chardat"
//@desc a written preset is 212 bytes: magic 0x2013FF14, version at 4, checksum at 8 (XOR over i of byte_i << (i mod 24) over the 196 bytes customize | 0 | timestamp LE | comment zero-padded to 164), the 27 appearance bytes at 16 in documented order, timestamp at 44, comment at 48; it parses back to the same values; a parsed canonical file is reproduced byte for byte
#[test]
fn native_chardat_files() {
    let mut cases = 0u64;
    for name in ["chardat/arr.dat", "chardat/heavensward.dat", "chardat/stormblood.dat", "chardat/shadowbringers.dat"] {
        let v = native_resource(name);
        let p = CharacterData::from_existing(&v).expect("canonical preset parses");
        assert_eq!(p.write_to_buffer().expect("write"), v, "{name} is reproduced byte for byte");
        cases += 1;
    }
    let comments: Vec<String> = vec![String::new(), "x".into(), "Custom Comment Text".into(), "c".repeat(162), format!("{}é", "d".repeat(161)), "e".repeat(163)];
    for race in 1..=8u8 { for gender in 0..=1u8 { for tribe in 1..=16u8 { for pat in 0..3usize { for (ci, ts) in [0u32, 1, 1_600_000_000, 0x8000_0000, u32::MAX].iter().enumerate() {
        let fb = |k: usize| -> u8 { match pat { 0 => 0, 1 => 255, _ => (k * 9 + race as usize + tribe as usize * 3) as u8 } };
        let c = CustomizeData { race: Race::try_from(race).expect("race code"), gender: if gender == 0 { Gender::Male } else { Gender::Female }, age: fb(2), height: fb(3),
            tribe: Tribe::try_from(tribe).expect("tribe code"), face: fb(5), hair: fb(6), enable_highlights: fb(7) % 2 == 1, skin_tone: fb(8), right_eye_color: fb(9), hair_tone: fb(10), highlights: fb(11),
            facial_features: fb(12), facial_feature_color: fb(13), eyebrows: fb(14), left_eye_color: fb(15), eyes: fb(16), nose: fb(17), jaw: fb(18), mouth: fb(19), lips_tone_fur_pattern: fb(20),
            race_feature_size: fb(21), race_feature_type: fb(22), bust: fb(23), face_paint: fb(24), face_paint_color: fb(25), voice: fb(26) };
        let comment = comments[(ci + pat + race as usize) % comments.len()].clone();
        let d = CharacterData { version: (1 + pat) as u32, customize: c.clone(), timestamp: *ts, comment: comment.clone() };
        let b = d.write_to_buffer().expect("write");
        assert_eq!(b.len(), 212, "preset size");
        assert_eq!(u32::from_le_bytes(b[0..4].try_into().unwrap()), 0x2013FF14, "magic");
        assert_eq!(u32::from_le_bytes(b[4..8].try_into().unwrap()), (1 + pat) as u32, "version");
        let want: [u8; 27] = [race, gender, fb(2), fb(3), tribe, fb(5), fb(6), (fb(7) % 2 == 1) as u8, fb(8), fb(9), fb(10), fb(11), fb(12), fb(13), fb(14), fb(15), fb(16), fb(17), fb(18), fb(19), fb(20), fb(21), fb(22), fb(23), fb(24), fb(25), fb(26)];
        assert_eq!(&b[16..43], &want[..], "appearance bytes at their documented positions");
        assert_eq!(b[43], 0, "pad byte");
        assert_eq!(u32::from_le_bytes(b[44..48].try_into().unwrap()), *ts, "timestamp at 44");
        assert_eq!(&b[48..48 + comment.len()], comment.as_bytes(), "comment at 48");
        assert!(b[48 + comment.len()..212].iter().all(|x| *x == 0), "comment padding");
        let mut sum: u32 = 0;
        for (i, x) in b[16..212].iter().enumerate() { sum ^= (*x as u32) << (i % 24); }
        assert_eq!(u32::from_le_bytes(b[8..12].try_into().unwrap()), sum, "documented checksum at 8");
        assert!(b[12..16].iter().all(|x| *x == 0));
        let p = CharacterData::from_existing(&b).expect("a written preset parses");
        assert_eq!((p.version, p.timestamp, &p.comment), ((1 + pat) as u32, *ts, &comment), "version, timestamp, comment read back");
        assert_eq!(format!("{:?}", p.customize), format!("{:?}", c), "appearance read back");
        cases += 1;
    } } } } }
    println!("NATIVE native_chardat_files cases={cases}");
}
