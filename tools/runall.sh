#!/bin/sh
# run every claimed check once (tier from $1, default quick) and summarise
cd "$(dirname "$0")/.."
T=${1:-quick}
for p in $(python3 -c "import json; print(' '.join(c['property_id'] for c in json.load(open('MANIFEST.json'))['checks']))"); do
  s=$(date +%s)
  ./check $p --tier $T > logs/run_$p.$T.log 2>&1
  rc=$?
  e=$(date +%s)
  echo "$p exit=$rc wall=$((e-s))s $(grep -c '^\[' logs/run_$p.$T.log) units; $(grep -E '^(VIOLATION|UNDECIDED|KNOWN)' logs/run_$p.$T.log | head -3 | tr '\n' ';')"
done
