"""Verus extractor: builds a single-file Verus unit from /repo's *current* source.

A unit is a template (units/verus/<unit>.vt).  Plain lines are copied (spec
functions, lemmas: the prelude, written independently of the code).  Directive
lines pull items out of the repository source as text and annotate them:

  //@const  file=src/x.rs name=NAME                  copy a const item (X1)
  //@struct file=src/x.rs name=NAME [keep=f1,f2]     copy a struct (X1: attributes, docs, #[br(temp)] fields dropped; X1b keep=: only the named
                                                     fields are kept - every fn extracted for that struct must then carry selfonly=f1,f2, which checks
                                                     that its body uses `self` only as `self.f1` / `self.f2`)
  //@fn file=src/x.rs name=NAME [impl=REGEX] [nth=K] copy a function and annotate it, until //@end:
      (with macro=M invfile=src/y.rs : the function is the instantiation `M!(NAME, ...)` found in invfile of the
       macro_rules! M defined in file - rule X7: textual substitution of the $parameters by the invocation's arguments;
       with localmacros=1 : rule X9 expands the function-local single-rule macro_rules! items textually (expr arguments in parentheses);
       with foreach=1 : rule X8 rewrites `(A..B).for_each(|v| { body });` into `for v in A..B { body }` before annotation)
      //@ret NAME                    name the result            (X2)
      //@attr :: #[...]              attribute placed on the extracted copy (e.g. #[verifier::external_body] = assumed contract)
      //@vis pub(crate)              rewrite the visibility qualifier of the extracted copy (X1: annotation only)
      //@sig :: TEXT                 requires/ensures clauses   (X2)
      //@top :: TEXT                 inserted at body start     (X3; ghost lets / proof blocks)
      //@tail :: TEXT                inserted before the tail expression (or at body end)
      //@loop N iter NAME            `for p in e` -> `for p in NAME: e`   (X3)
      //@loop N hdr :: TEXT          invariant/decreases clauses between header and body (X3)
      //@loop N top :: TEXT          inserted at start of loop body
      //@loop N end :: TEXT          inserted at end of loop body (before the X4 increment)
      //@loop N stepby TYPE          X4 rewrite of `for i in (a..b).step_by(k)[.rev()]`
      //@loop N enumerate            X6 rewrite of `for (i, x) in place.iter().enumerate() {` into an index loop (`let x = &place[i]`; `iter_mut()`: `let x = &mut place[i]`)
      //@loop N itermut IDX          X5 rewrite of `for x in &mut place {` into an index loop (`let x = &mut place[IDX]`)
      //@before loop=N guard=IDENT [nth=K] :: TEXT   before the K-th top-level statement of loop N's body
      //@after  loop=N guard=IDENT [nth=K] :: TEXT   (N=0: the function body) that mentions IDENT
      //@+ TEXT                      continuation of the previous TEXT
  //@end
  //@include inc/NAME.vti [KEY=VALUE ...]           splice the lines of another template fragment here, replacing @KEY@ by VALUE
  //@gen MODULE FUNCTION                              text produced by tools/MODULE.py:FUNCTION() (independent data, e.g. pi words)

Everything that is not covered by a directive is copied verbatim.  If an
anchor cannot be found the extractor raises ScanError (=> exit 2, undecided).
"""
import re
import os
import sys

sys.path.insert(0, os.path.dirname(__file__))
import rustscan as rs
from rustscan import ScanError


def _kv(tokens):
    d = {}
    for t in tokens:
        if "=" in t:
            k, v = t.split("=", 1)
            d[k] = v
    return d


def _split_payload(line):
    """'//@kind args :: text' -> (kind, [args], text|None)"""
    body = line.strip()[3:]
    if "::" in body:
        head, text = body.split("::", 1)
        text = text.strip()
    else:
        head, text = body, None
    toks = head.split()
    return toks[0], toks[1:], text


def expand_macro(repo, file, macro, invfile, inst):
    """X7: instantiate a single-rule macro_rules! with the arguments of its invocation whose first argument is `inst`."""
    src = open(os.path.join(repo, file)).read()
    m = rs.mask(src)
    mm = re.search(r"\bmacro_rules!\s+%s\s*\{" % re.escape(macro), m)
    if not mm:
        raise ScanError("LOST-ANCHOR macro_rules! %s not found in %s" % (macro, file))
    mo = mm.end() - 1
    mc = rs.match_brace(m, mo)
    po = m.index("(", mo)
    pc = rs.match_brace(m, po)
    params = []
    for part in src[po + 1:pc].split(","):
        part = part.strip()
        if not part:
            continue
        pm = re.match(r"\$([A-Za-z_][A-Za-z0-9_]*)\s*:\s*([a-z]+)$", part)
        if not pm:
            raise ScanError("X7 not applicable: macro parameter `%s` of %s" % (part, macro))
        params.append(pm.group(1))
    am = re.match(r"\s*=>\s*\{", m[pc + 1:])
    if not am:
        raise ScanError("X7 not applicable: rule shape of %s" % macro)
    bo = pc + 1 + am.end() - 1
    bc = rs.match_brace(m, bo)
    rest = m[bc + 1:mc].strip().strip(";").strip()
    if rest:
        raise ScanError("X7 not applicable: macro %s has more than one rule" % macro)
    body = src[bo + 1:bc]
    isrc = open(os.path.join(repo, invfile)).read()
    im = rs.mask(isrc)
    args = None
    for k in re.finditer(r"\b%s!\s*\(" % re.escape(macro), im):
        ao = k.end() - 1
        ac = rs.match_brace(im, ao)
        parts = [x.strip() for x in isrc[ao + 1:ac].split(",")]
        if parts and parts[0] == inst:
            args = parts
            break
    if args is None:
        raise ScanError("LOST-ANCHOR invocation %s!(%s, ...) not found in %s" % (macro, inst, invfile))
    if len(args) != len(params):
        raise ScanError("X7 not applicable: %s!(%s ...) has %d arguments for %d parameters" % (macro, inst, len(args), len(params)))
    for pn, av in sorted(zip(params, args), key=lambda t: -len(t[0])):
        body = re.sub(r"\$%s\b" % re.escape(pn), lambda _m, av=av: av, body)
    if "$" in rs.mask(body):
        raise ScanError("X7 not applicable: unsubstituted `$` left in %s!(%s ...)" % (macro, inst))
    return body, "%s!(%s) [%s <- %s]" % (macro, ", ".join(args), file, invfile)


def rewrite_for_each(src, fname):
    """X8: `(A..B).for_each(|v| { body });` -> `for v in A..B { body }` (all occurrences, outermost first)."""
    done = []
    while True:
        m = rs.mask(src)
        mm = re.search(r"\(([^()]*?)\.\.([^()]*?)\)\s*\.for_each\(\s*\|\s*([A-Za-z_][A-Za-z0-9_]*)\s*\|\s*\{", m)
        if not mm:
            break
        bo = mm.end() - 1
        bc = rs.match_brace(m, bo)
        tail = re.match(r"\s*\)\s*;", m[bc + 1:])
        if not tail:
            raise ScanError("X8 not applicable: for_each in %s is not a statement of the form `(a..b).for_each(|v| {..});`" % fname)
        body = m[bo + 1:bc]
        var = mm.group(3)
        if re.search(r"\breturn\b", body) or "?" in body:
            raise ScanError("X8 not applicable: `return`/`?` inside the for_each closure in %s" % fname)
        if re.search(r"\b%s\s*(=[^=]|\+=|-=|\*=)" % var, body) or re.search(r"&\s*mut\s+%s\b" % var, body):
            raise ScanError("X8 not applicable: closure parameter `%s` assigned in %s" % (var, fname))
        a, b = src[mm.start(1):mm.end(1)].strip(), src[mm.start(2):mm.end(2)].strip()
        head = "for %s in %s..%s {" % (var, a, b)
        src = src[:mm.start()] + head + src[bo + 1:bc] + "}" + src[bc + 1 + tail.end():]
        done.append("(%s..%s).for_each(|%s| ..)" % (a, b, var))
    return src, done


def expand_local_macros(src, fname, impl_re=None, nth=None):
    """X9: inside function `fname`, expand every function-local single-rule `macro_rules!` item textually.

    Side conditions (else ScanError => exit 2): one rule per macro, of the shape `(params) => { body };`, every
    parameter `$name:expr` or `$name:ident`, the body introduces no binding (`let`, closure, nested macro_rules!)
    and every `$` in it is a parameter.  An `expr` argument is substituted in parentheses (rustc parses an `expr`
    fragment as one expression node, so the parentheses preserve exactly that grouping); an `ident` argument must
    be a plain identifier and is substituted as it stands.  The macro definitions are removed from the text.
    """
    f = rs.find_fn(src, fname, impl_re, nth)
    a, b = f["open"], f["close"]
    body = src[a:b + 1]
    done = []
    macros = {}
    while True:
        m = rs.mask(body)
        mm = re.search(r"\bmacro_rules!\s+([A-Za-z_][A-Za-z0-9_]*)\s*\{", m)
        if not mm:
            break
        name = mm.group(1)
        mo = mm.end() - 1
        mc = rs.match_brace(m, mo)
        inner = m[mo + 1:mc]
        po = m.index("(", mo)
        pc = rs.match_brace(m, po)
        params = []
        for part in body[po + 1:pc].split(","):
            part = part.strip()
            if not part:
                continue
            pm = re.match(r"\$([A-Za-z_][A-Za-z0-9_]*)\s*:\s*(expr|ident)$", part)
            if not pm:
                raise ScanError("X9 not applicable: parameter `%s` of local macro %s in %s" % (part, name, fname))
            params.append((pm.group(1), pm.group(2)))
        am = re.match(r"\s*=>\s*\{", m[pc + 1:])
        if not am:
            raise ScanError("X9 not applicable: rule shape of local macro %s in %s" % (name, fname))
        bo = pc + 1 + am.end() - 1
        bc = rs.match_brace(m, bo)
        if m[bc + 1:mc].strip().strip(";").strip():
            raise ScanError("X9 not applicable: local macro %s in %s has more than one rule" % (name, fname))
        mbody = body[bo + 1:bc]
        mmask = m[bo + 1:bc]
        if re.search(r"\blet\b|\bmacro_rules\b|\|[^|]*\|\s*\{", mmask) or re.search(r"\bfn\b", mmask):
            raise ScanError("X9 not applicable: local macro %s in %s introduces bindings" % (name, fname))
        left = mmask
        for pn, _k in params:
            left = re.sub(r"\$%s\b" % re.escape(pn), "", left)
        if "$" in left:
            raise ScanError("X9 not applicable: `$` that is not a parameter in local macro %s of %s" % (name, fname))
        macros[name] = (params, mbody.strip())
        body = body[:mm.start()] + body[mc + 1:]
    if not macros:
        raise ScanError("X9 not applicable: no local macro_rules! in %s" % fname)
    guard = 0
    while True:
        m = rs.mask(body)
        mm = re.search(r"\b(%s)!\s*\(" % "|".join(re.escape(k) for k in macros), m)
        if not mm:
            break
        guard += 1
        if guard > 500:
            raise ScanError("X9 not applicable: macro expansion of %s does not end" % fname)
        name = mm.group(1)
        ao = mm.end() - 1
        ac = rs.match_brace(m, ao)
        args, depth, cur = [], 0, ao + 1
        for k in range(ao + 1, ac):
            ch = m[k]
            if ch in "([{":
                depth += 1
            elif ch in ")]}":
                depth -= 1
            elif ch == "," and depth == 0:
                args.append(body[cur:k].strip())
                cur = k + 1
        last = body[cur:ac].strip()
        if last:
            args.append(last)
        params, mbody = macros[name]
        if len(args) != len(params):
            raise ScanError("X9 not applicable: %s!(..) in %s has %d arguments for %d parameters" % (name, fname, len(args), len(params)))
        out = mbody
        # substitute through unique placeholders so that an argument's text is never rescanned for parameters
        for idx, (pn, kind) in sorted(enumerate(params), key=lambda t: -len(t[1][0])):
            out = re.sub(r"\$%s\b" % re.escape(pn), "\x00%d\x00" % idx, out)
        for idx, (pn, kind) in enumerate(params):
            av = args[idx]
            if kind == "ident":
                if not re.match(r"[A-Za-z_][A-Za-z0-9_]*$", av):
                    raise ScanError("X9 not applicable: argument `%s` for ident parameter of %s! in %s" % (av, name, fname))
                rep = av
            else:
                rep = "(" + av + ")"
            out = out.replace("\x00%d\x00" % idx, rep)
        body = body[:mm.start()] + "(" + out + ")" + body[ac + 1:]
        done.append("%s!(%s)" % (name, ", ".join(args)))
    return src[:a] + body + src[b + 1:], done, sorted(macros)


class FnSplice:
    def __init__(self, repo, params):
        self.repo = repo
        self.params = params
        self.directives = []  # (kind, args, text)

    def add(self, kind, args, text):
        self.directives.append([kind, args, text or ""])

    def cont(self, text):
        self.directives[-1][2] += "\n" + text

    def render(self):
        p = self.params
        path = os.path.join(self.repo, p["file"])
        self.extra = []
        if "macro" in p:
            src, what = expand_macro(self.repo, p["file"], p["macro"], p["invfile"], p["name"])
            self.extra.append({"rule": "X7", "what": what})
        else:
            src = open(path).read()
        if p.get("selfonly"):
            # side condition of X1b: every use of `self` in the function is `self.<kept field>`
            f0 = rs.find_fn(src, p["name"], p.get("impl"), int(p["nth"]) if "nth" in p else None)
            bodym = rs.mask(src)[f0["open"]:f0["close"] + 1]
            allowed = "|".join(re.escape(x) for x in p["selfonly"].split(","))
            if re.search(r"\bself\b(?!\s*\.\s*(%s)\b)" % allowed, bodym) or re.search(r"\bSelf\b", bodym):
                raise ScanError("X1b not applicable: %s uses `self` other than through %s" % (p["name"], p["selfonly"]))
        if p.get("localmacros"):
            src, done, names = expand_local_macros(src, p["name"], p.get("impl"), int(p["nth"]) if "nth" in p else None)
            self.extra.append({"rule": "X9", "what": "local macros %s expanded at %d sites" % (", ".join(names), len(done)), "fn": p["name"]})
        if p.get("foreach"):
            src, done = rewrite_for_each(src, p["name"])
            if not done:
                raise ScanError("X8 not applicable: no for_each statement in %s" % p["name"])
            self.extra.extend({"rule": "X8", "what": d, "fn": p["name"]} for d in done)
        f = rs.find_fn(src, p["name"], p.get("impl"), int(p["nth"]) if "nth" in p else None)
        start, o, c = f["start"], f["open"], f["close"]
        text = src[start:c + 1]
        m = rs.mask(src)[start:c + 1]
        bo, bc = o - start, c - start  # body open/close within text
        ins = []   # (offset, order, string)   insert before offset
        repl = []  # (a, b, string)  replace text[a:b]
        x4 = []    # descriptions of X4 rewrites, for validation
        loops = rs.loops_in(m, bo, bc)
        order = [0]

        def add_ins(off, s):
            order[0] += 1
            ins.append((off, order[0], s))

        def loop(n):
            if n < 1 or n > len(loops):
                raise ScanError("LOST-ANCHOR fn %s: loop %d not found (%d loops)" % (p["name"], n, len(loops)))
            return loops[n - 1]

        ret_name = None
        for kind, args, txt in self.directives:
            if kind == "ret":
                ret_name = args[0]
            elif kind == "attr":
                # attribute on the extracted copy (e.g. #[verifier::external_body]: the body is then an assumed contract)
                ins.append((0, -1, txt + "\n"))
            elif kind == "vis":
                # visibility qualifier of the extracted copy only (Verus: contracts of `pub` items may not mention private specs)
                vm = re.match(r"pub(\s*\([^)]*\))?\s+", m)
                newvis = " ".join(args)
                if vm:
                    repl.append((0, vm.end(), newvis + " "))
                else:
                    ins.append((0, 0, newvis + " "))
            elif kind == "sig":
                add_ins(bo, "\n    " + txt + "\n")
            elif kind == "top":
                add_ins(bo + 1, "\n" + txt + "\n")
            elif kind == "tail":
                sts = rs.statements(m, bo, bc)
                if sts and not sts[-1][2]:
                    add_ins(sts[-1][0], txt + "\n")
                else:
                    add_ins(bc, txt + "\n")
            elif kind == "loop":
                n = int(args[0])
                L = loop(n)
                sub = args[1]
                if sub == "hdr":
                    L.setdefault("hdr", []).append(txt)
                elif sub == "iter":
                    L["iter"] = args[2]
                elif sub == "top":
                    add_ins(L["open"] + 1, "\n" + txt + "\n")
                elif sub == "end":
                    L.setdefault("endtxt", []).append(txt)
                elif sub == "stepby":
                    L["stepby"] = args[2]
                elif sub == "itermut":
                    L["itermut"] = args[2]
                elif sub == "enumerate":
                    L["enumerate"] = True
                else:
                    raise ScanError("bad loop directive %s" % sub)
            elif kind in ("before", "after"):
                kv = _kv(args)
                n = int(kv.get("loop", "0"))
                if n == 0:
                    so, sc = bo, bc
                else:
                    L = loop(n)
                    so, sc = L["open"], L["close"]
                guard = kv["guard"]
                sts = [s for s in rs.statements(m, so, sc) if re.search(r"\b%s\b" % re.escape(guard), m[s[0]:s[1]])]
                k = int(kv.get("nth", "0"))
                if k >= len(sts):
                    raise ScanError("LOST-ANCHOR fn %s: statement with `%s` #%d not found in loop %d" % (p["name"], guard, k, n))
                st = sts[k]
                if kind == "before":
                    add_ins(st[0], txt + "\n")
                else:
                    add_ins(st[1], "\n" + txt + "\n")
            else:
                raise ScanError("unknown directive %s" % kind)

        # loop headers
        for idx, L in enumerate(loops):
            hdr = "\n".join(L.get("hdr", []))
            endtxt = "\n".join(L.get("endtxt", []))
            header_src = text[L["kw"]:L["open"]]
            if "enumerate" in L:
                # X6: `for (I, X) in PLACE.iter().enumerate() {` => `{ let mut I: usize = 0; while I < PLACE.len() HDR { let X = &PLACE[I]; body; I += 1; } }`
                mm = re.match(r"for\s+\(\s*([A-Za-z_][A-Za-z0-9_]*)\s*,\s*([A-Za-z_][A-Za-z0-9_]*)\s*\)\s+in\s+([A-Za-z_][A-Za-z0-9_\.]*)\s*\.(iter|iter_mut)\(\)\s*\.enumerate\(\)\s*$", " ".join(m[L["kw"]:L["open"]].split()))
                if not mm:
                    raise ScanError("X6 not applicable: loop %d of %s is `%s`" % (idx + 1, p["name"], header_src.strip()))
                ivar, var, expr = mm.group(1), mm.group(2), mm.group(3)
                mutref = "&mut " if mm.group(4) == "iter_mut" else "&"
                body = m[L["open"] + 1:L["close"]]
                if mutref == "&mut " and re.search(re.escape(expr) + r"\b", body):
                    raise ScanError("X6 not applicable: `%s` mentioned in the body of its own iter_mut loop %d of %s" % (expr, idx + 1, p["name"]))
                if re.search(r"\b(continue|break|return)\b", body) or "?" in body:
                    raise ScanError("X6 not applicable: control transfer in body of loop %d of %s" % (idx + 1, p["name"]))
                if re.search(r"\b%s\s*(=[^=]|\+=|-=)" % ivar, body) or re.search(r"\blet\s+(mut\s+)?(%s|%s)\b" % (ivar, var), body):
                    raise ScanError("X6 not applicable: `%s`/`%s` assigned or rebound in loop %d of %s" % (ivar, var, idx + 1, p["name"]))
                head = "; { let mut %s: usize = 0; while %s < %s.len()\n%s\n" % (ivar, ivar, expr, hdr)
                repl.append((L["kw"], L["open"], head))
                ins.append((L["open"] + 1, 10**8, "\nlet %s = %s%s[%s];\n" % (var, mutref, expr, ivar)))
                add_ins(L["close"], "%s\n%s += 1; " % (endtxt, ivar))
                add_ins(L["close"] + 1, " }")
                x4.append({"fn": p["name"], "iter": expr + "." + mm.group(4) + "().enumerate()", "var": var, "x5": True, "while": "", "side": "true"})
            elif "itermut" in L:
                # X5: `for PAT in &mut EXPR {` => `{ let mut IDX: usize = 0; while IDX < EXPR.len() HDR { let PAT = &mut EXPR[IDX]; body; IDX += 1; } }`
                mm = re.match(r"for\s+([A-Za-z_][A-Za-z0-9_]*)\s+in\s+&mut\s+([A-Za-z_][A-Za-z0-9_\.]*)\s*$", " ".join(m[L["kw"]:L["open"]].split()))
                if not mm:
                    raise ScanError("X5 not applicable: loop %d of %s is `%s`" % (idx + 1, p["name"], header_src.strip()))
                var, expr = mm.group(1), mm.group(2)
                body = m[L["open"] + 1:L["close"]]
                if re.search(r"\b(continue|break|return)\b", body) or "?" in body:
                    raise ScanError("X5 not applicable: control transfer in body of loop %d of %s" % (idx + 1, p["name"]))
                if re.search(re.escape(expr) + r"\b", body) or re.search(r"\blet\s+(mut\s+)?%s\b" % var, body):
                    raise ScanError("X5 not applicable: `%s` mentioned or `%s` rebound in body of loop %d of %s" % (expr, var, idx + 1, p["name"]))
                ix = L["itermut"]
                head = "; { let mut %s: usize = 0; while %s < %s.len()\n%s\n" % (ix, ix, expr, hdr)
                repl.append((L["kw"], L["open"], head))
                ins.append((L["open"] + 1, 10**8, "\nlet %s = &mut %s[%s];\n" % (var, expr, ix)))
                add_ins(L["close"], "%s\n%s += 1; " % (endtxt, ix))
                add_ins(L["close"] + 1, " }")
                x4.append({"fn": p["name"], "iter": "&mut " + expr, "var": var, "x5": True, "while": "", "side": "true"})
            elif "stepby" in L:
                mm = re.match(r"for\s+([A-Za-z_][A-Za-z0-9_]*)\s+in\s+\((.+?)\.\.(.+?)\)\s*\.step_by\((.+?)\)\s*(\.rev\(\))?\s*$", " ".join(m[L["kw"]:L["open"]].split()))
                if not mm:
                    raise ScanError("X4 not applicable: loop %d of %s is `%s`" % (idx + 1, p["name"], header_src.strip()))
                var, a, b, k, rev = mm.group(1), mm.group(2).strip(), mm.group(3).strip(), mm.group(4).strip(), mm.group(5)
                body = m[L["open"] + 1:L["close"]]
                if re.search(r"\b(continue|break|return)\b", body) or "?" in body:
                    raise ScanError("X4 not applicable: control transfer in body of loop %d of %s" % (idx + 1, p["name"]))
                if re.search(r"\b%s\s*(=[^=]|\+=|-=|\*=)" % var, body) or re.search(r"\blet\s+(mut\s+)?%s\b" % var, body) or re.search(r"&\s*mut\s+%s\b" % var, body):
                    raise ScanError("X4 not applicable: index `%s` assigned/shadowed in loop %d of %s" % (var, idx + 1, p["name"]))
                ty = L["stepby"]
                if rev:
                    init = "(%s) + (((%s) - (%s) - 1) / (%s)) * (%s)" % (a, b, a, k, k)
                    head = "{ let mut %s: %s = %s; while %s >= (%s)\n%s\n" % (var, ty, init, var, a, hdr)
                    step = "%s\n%s -= %s; " % (endtxt, var, k)
                    x4.append({"fn": p["name"], "iter": header_src.strip()[len("for"):].split(" in ", 1)[1].strip(), "var": var,
                               "while": "let mut %s: %s = %s; while %s >= (%s) { w[m] = %s as usize; m += 1; %s -= %s; }" % (var, ty, init, var, a, var, var, k),
                               "side": "(%s) >= (%s) && (%s) > (%s)" % (a, k, b, a)})
                else:
                    head = "{ let mut %s: %s = %s; while %s < (%s)\n%s\n" % (var, ty, a, var, b, hdr)
                    step = "%s\n%s += %s; " % (endtxt, var, k)
                    x4.append({"fn": p["name"], "iter": header_src.strip()[len("for"):].split(" in ", 1)[1].strip(), "var": var,
                               "while": "let mut %s: %s = %s; while %s < (%s) { w[m] = %s as usize; m += 1; %s += %s; }" % (var, ty, a, var, b, var, var, k),
                               "side": "true"})
                repl.append((L["kw"], L["open"], head))
                add_ins(L["close"], step)
                add_ins(L["close"] + 1, " }")
            else:
                if "iter" in L:
                    mm = re.match(r"for\s+(.+?)\s+in\s+", m[L["kw"]:L["open"]])
                    if not mm or L["kind"] != "for":
                        raise ScanError("loop %d of %s is not a for loop" % (idx + 1, p["name"]))
                    pos = L["kw"] + mm.end()
                    add_ins(pos, L["iter"] + ": ")
                if hdr:
                    add_ins(L["open"], "\n" + hdr + "\n")
                if endtxt:
                    add_ins(L["close"], endtxt + "\n")

        # X2: name the result
        if ret_name:
            sig = m[:bo]
            am = None
            depth = 0
            # find the top-level `->` of the signature (after the parameter list)
            k = sig.index("(", f["kw"] - start)
            k = rs.match_brace(sig + "{", k)
            mm = re.search(r"->\s*", sig[k:])
            if mm:
                a = k + mm.end()
                b = bo
                ty = text[a:b].rstrip()
                repl.append((a, a + len(ty), "(%s: %s)" % (ret_name, ty)))
            # unit-returning functions: nothing to name

        # apply replacements and insertions from the back
        ops = [(a, b, 10**9, s) for (a, b, s) in repl] + [(off, off, od, s) for (off, od, s) in ins]
        # sort: by offset desc; at equal offsets later-declared insertions come later in text,
        # so apply them first when going backwards
        ops.sort(key=lambda t: (t[0], t[2]), reverse=True)
        out = text
        for a, b, _, s in ops:
            out = out[:a] + s + out[b:]
        out = rs.strip_attrs_and_docs(out) if False else _drop_outer_comments(out)
        return out, x4


def _drop_outer_comments(s):
    return s


def build(template_path, repo):
    """Returns (verus_source_text, info) ; info = {'fns': [(name, first_line, last_line)], 'x4': [...], 'items': [...]}"""
    lines = []
    for ln in open(template_path).read().split("\n"):
        if ln.strip().startswith("//@include "):
            toks = ln.strip().split()
            inc = os.path.join(os.path.dirname(template_path), toks[1])
            frag = open(inc).read().rstrip("\n")
            for k, v in _kv(toks[2:]).items():
                frag = frag.replace("@%s@" % k, v)
            lines.extend(frag.split("\n"))
        else:
            lines.append(ln)
    out = []
    info = {"fns": [], "x4": [], "items": []}
    cur = None
    last_text_holder = None
    for ln in lines:
        s = ln.strip()
        if s.startswith("//@"):
            if s.startswith("//@+"):
                t = ln.split("//@+", 1)[1]
                if t.startswith(" "):
                    t = t[1:]
                if cur is None:
                    raise ScanError("continuation outside //@fn")
                cur.cont(t)
                continue
            kind, args, text = _split_payload(s)
            if kind == "fn":
                cur = FnSplice(repo, _kv(args))
                continue
            if kind == "end":
                rendered, x4 = cur.render()
                first = len("\n".join(out).split("\n")) + 1 if out else 1
                out.append(rendered)
                last = len("\n".join(out).split("\n"))
                info["fns"].append((cur.params["name"], first, last, cur.params["file"]))
                info["x4"].extend(x4)
                info.setdefault("x78", []).extend(getattr(cur, "extra", []))
                info["items"].append("fn %s%s (%s)" % ((cur.params.get("impl", "") + "::") if cur.params.get("impl") else "", cur.params["name"], cur.params["file"]))
                cur = None
                continue
            if kind == "gen":
                import importlib
                mod = importlib.import_module(args[0])
                out.append(getattr(mod, args[1])())
                info["items"].append("generated by tools/%s.py:%s" % (args[0], args[1]))
                continue
            if kind in ("struct", "const", "enum", "static", "type"):
                kv = _kv(args)
                src = open(os.path.join(repo, kv["file"])).read()
                a, b = rs.find_item(src, kind, kv["name"], kv.get("mod"))
                item = rs.strip_attrs_and_docs(src[a:b])
                if "derive" in kv:
                    # keep selected derives of the original item (X1 keeps them only on request; they must be present in the source)
                    pre = src[max(0, a - 600):a]
                    attrs = " ".join(re.findall(r"#\[derive\(([^)]*)\)\]", pre[pre.rfind("}") + 1:] if "}" in pre else pre))
                    for dname in kv["derive"].split(","):
                        if not re.search(r"\b%s\b" % re.escape(dname), attrs):
                            raise ScanError("LOST-ANCHOR %s %s no longer derives %s" % (kind, kv["name"], dname))
                    item = "#[derive(%s)]\n" % ", ".join(kv["derive"].split(",")) + item
                if "keep" in kv:
                    # X1b: keep only the named fields of a struct.  Sound for functions that never mention another field and never use
                    # `self` as a whole value - checked on every extracted fn that declares `selfonly=` (below).
                    keep = kv["keep"].split(",")
                    bm = rs.mask(item)
                    bo_ = bm.index("{")
                    bc_ = rs.match_brace(bm, bo_)
                    fields, depth, fcur = [], 0, bo_ + 1
                    for k in range(bo_ + 1, bc_):
                        ch = bm[k]
                        if ch in "([{<":
                            depth += 1
                        elif ch in ")]}>":
                            depth -= 1
                        elif ch == "," and depth == 0:
                            fields.append(item[fcur:k].strip())
                            fcur = k + 1
                    if item[fcur:bc_].strip():
                        fields.append(item[fcur:bc_].strip())
                    kept = []
                    for f_ in fields:
                        fm = re.match(r"(pub(\s*\([^)]*\))?\s+)?([A-Za-z_][A-Za-z0-9_]*)\s*:", f_)
                        if not fm:
                            raise ScanError("X1b not applicable: field `%s` of struct %s" % (f_, kv["name"]))
                        if fm.group(3) in keep:
                            kept.append(f_)
                    if len(kept) != len(keep):
                        raise ScanError("LOST-ANCHOR struct %s no longer has the fields %s" % (kv["name"], ",".join(keep)))
                    item = item[:bo_ + 1] + "\n    " + ",\n    ".join(kept) + ",\n" + item[bc_:]
                    info.setdefault("x78", []).append({"rule": "X1b", "what": "struct %s reduced to the fields %s (the extracted functions mention no other field)" % (kv["name"], ",".join(keep))})
                if "vis" in kv:  # optional: rewrite visibility (annotation only; types unchanged)
                    item = re.sub(r"^(pub\s*(\([^)]*\))?\s*)?", kv["vis"].replace("_", " ") + " ", item, count=1)
                out.append(item)
                info["items"].append("%s %s (%s)" % (kind, kv["name"], kv["file"]))
                continue
            if cur is not None:
                cur.add(kind, args, text)
                continue
            raise ScanError("directive outside //@fn: %s" % s)
        else:
            if cur is not None:
                if s == "":
                    continue
                raise ScanError("plain line inside //@fn block: %s" % s)
            out.append(ln)
    if cur is not None:
        raise ScanError("unterminated //@fn")
    return "\n".join(out), info


if __name__ == "__main__":
    txt, info = build(sys.argv[1], sys.argv[2] if len(sys.argv) > 2 else "/repo")
    sys.stdout.write(txt)
    sys.stderr.write(repr(info) + "\n")
