"""Verus extractor: builds a single-file Verus unit from /repo's *current* source.

A unit is a template (units/verus/<unit>.vt).  Plain lines are copied (spec
functions, lemmas: the prelude, written independently of the code).  Directive
lines pull items out of the repository source as text and annotate them:

  //@const  file=src/x.rs name=NAME                  copy a const item (X1)
  //@struct file=src/x.rs name=NAME                  copy a struct (X1: attributes, docs, #[br(temp)] fields dropped)
  //@fn file=src/x.rs name=NAME [impl=REGEX] [nth=K] copy a function and annotate it, until //@end:
      //@ret NAME                    name the result            (X2)
      //@vis pub(crate)              rewrite the visibility qualifier of the extracted copy (X1: annotation only)
      //@sig :: TEXT                 requires/ensures clauses   (X2)
      //@top :: TEXT                 inserted at body start     (X3; ghost lets / proof blocks)
      //@tail :: TEXT                inserted before the tail expression (or at body end)
      //@loop N iter NAME            `for p in e` -> `for p in NAME: e`   (X3)
      //@loop N hdr :: TEXT          invariant/decreases clauses between header and body (X3)
      //@loop N top :: TEXT          inserted at start of loop body
      //@loop N end :: TEXT          inserted at end of loop body (before the X4 increment)
      //@loop N stepby TYPE          X4 rewrite of `for i in (a..b).step_by(k)[.rev()]`
      //@loop N enumerate            X6 rewrite of `for (i, x) in place.iter().enumerate() {` into an index loop (`let x = &place[i]`)
      //@loop N itermut IDX          X5 rewrite of `for x in &mut place {` into an index loop (`let x = &mut place[IDX]`)
      //@before loop=N guard=IDENT [nth=K] :: TEXT   before the K-th top-level statement of loop N's body
      //@after  loop=N guard=IDENT [nth=K] :: TEXT   (N=0: the function body) that mentions IDENT
      //@+ TEXT                      continuation of the previous TEXT
  //@end
  //@gen MODULE FUNCTION                              text produced by tools/MODULE.py:FUNCTION() (independent data, e.g. pi words)

Everything that is not covered by a directive is copied verbatim.  If an
anchor cannot be found the extractor raises ScanError (=> exit 2, undecided).
"""
import re
import os
import sys

sys.path.insert(0, os.path.dirname(__file__))
import rustscan as rs
from rustscan import ScanError


def _kv(tokens):
    d = {}
    for t in tokens:
        if "=" in t:
            k, v = t.split("=", 1)
            d[k] = v
    return d


def _split_payload(line):
    """'//@kind args :: text' -> (kind, [args], text|None)"""
    body = line.strip()[3:]
    if "::" in body:
        head, text = body.split("::", 1)
        text = text.strip()
    else:
        head, text = body, None
    toks = head.split()
    return toks[0], toks[1:], text


class FnSplice:
    def __init__(self, repo, params):
        self.repo = repo
        self.params = params
        self.directives = []  # (kind, args, text)

    def add(self, kind, args, text):
        self.directives.append([kind, args, text or ""])

    def cont(self, text):
        self.directives[-1][2] += "\n" + text

    def render(self):
        p = self.params
        path = os.path.join(self.repo, p["file"])
        src = open(path).read()
        f = rs.find_fn(src, p["name"], p.get("impl"), int(p["nth"]) if "nth" in p else None)
        start, o, c = f["start"], f["open"], f["close"]
        text = src[start:c + 1]
        m = rs.mask(src)[start:c + 1]
        bo, bc = o - start, c - start  # body open/close within text
        ins = []   # (offset, order, string)   insert before offset
        repl = []  # (a, b, string)  replace text[a:b]
        x4 = []    # descriptions of X4 rewrites, for validation
        loops = rs.loops_in(m, bo, bc)
        order = [0]

        def add_ins(off, s):
            order[0] += 1
            ins.append((off, order[0], s))

        def loop(n):
            if n < 1 or n > len(loops):
                raise ScanError("LOST-ANCHOR fn %s: loop %d not found (%d loops)" % (p["name"], n, len(loops)))
            return loops[n - 1]

        ret_name = None
        for kind, args, txt in self.directives:
            if kind == "ret":
                ret_name = args[0]
            elif kind == "vis":
                # visibility qualifier of the extracted copy only (Verus: contracts of `pub` items may not mention private specs)
                vm = re.match(r"pub(\s*\([^)]*\))?\s+", m)
                newvis = " ".join(args)
                if vm:
                    repl.append((0, vm.end(), newvis + " "))
                else:
                    ins.append((0, 0, newvis + " "))
            elif kind == "sig":
                add_ins(bo, "\n    " + txt + "\n")
            elif kind == "top":
                add_ins(bo + 1, "\n" + txt + "\n")
            elif kind == "tail":
                sts = rs.statements(m, bo, bc)
                if sts and not sts[-1][2]:
                    add_ins(sts[-1][0], txt + "\n")
                else:
                    add_ins(bc, txt + "\n")
            elif kind == "loop":
                n = int(args[0])
                L = loop(n)
                sub = args[1]
                if sub == "hdr":
                    L.setdefault("hdr", []).append(txt)
                elif sub == "iter":
                    L["iter"] = args[2]
                elif sub == "top":
                    add_ins(L["open"] + 1, "\n" + txt + "\n")
                elif sub == "end":
                    L.setdefault("endtxt", []).append(txt)
                elif sub == "stepby":
                    L["stepby"] = args[2]
                elif sub == "itermut":
                    L["itermut"] = args[2]
                elif sub == "enumerate":
                    L["enumerate"] = True
                else:
                    raise ScanError("bad loop directive %s" % sub)
            elif kind in ("before", "after"):
                kv = _kv(args)
                n = int(kv.get("loop", "0"))
                if n == 0:
                    so, sc = bo, bc
                else:
                    L = loop(n)
                    so, sc = L["open"], L["close"]
                guard = kv["guard"]
                sts = [s for s in rs.statements(m, so, sc) if re.search(r"\b%s\b" % re.escape(guard), m[s[0]:s[1]])]
                k = int(kv.get("nth", "0"))
                if k >= len(sts):
                    raise ScanError("LOST-ANCHOR fn %s: statement with `%s` #%d not found in loop %d" % (p["name"], guard, k, n))
                st = sts[k]
                if kind == "before":
                    add_ins(st[0], txt + "\n")
                else:
                    add_ins(st[1], "\n" + txt + "\n")
            else:
                raise ScanError("unknown directive %s" % kind)

        # loop headers
        for idx, L in enumerate(loops):
            hdr = "\n".join(L.get("hdr", []))
            endtxt = "\n".join(L.get("endtxt", []))
            header_src = text[L["kw"]:L["open"]]
            if "enumerate" in L:
                # X6: `for (I, X) in PLACE.iter().enumerate() {` => `{ let mut I: usize = 0; while I < PLACE.len() HDR { let X = &PLACE[I]; body; I += 1; } }`
                mm = re.match(r"for\s+\(\s*([A-Za-z_][A-Za-z0-9_]*)\s*,\s*([A-Za-z_][A-Za-z0-9_]*)\s*\)\s+in\s+([A-Za-z_][A-Za-z0-9_\.]*)\s*\.iter\(\)\s*\.enumerate\(\)\s*$", " ".join(m[L["kw"]:L["open"]].split()))
                if not mm:
                    raise ScanError("X6 not applicable: loop %d of %s is `%s`" % (idx + 1, p["name"], header_src.strip()))
                ivar, var, expr = mm.group(1), mm.group(2), mm.group(3)
                body = m[L["open"] + 1:L["close"]]
                if re.search(r"\b(continue|break|return)\b", body) or "?" in body:
                    raise ScanError("X6 not applicable: control transfer in body of loop %d of %s" % (idx + 1, p["name"]))
                if re.search(r"\b%s\s*(=[^=]|\+=|-=)" % ivar, body) or re.search(r"\blet\s+(mut\s+)?(%s|%s)\b" % (ivar, var), body):
                    raise ScanError("X6 not applicable: `%s`/`%s` assigned or rebound in loop %d of %s" % (ivar, var, idx + 1, p["name"]))
                head = "; { let mut %s: usize = 0; while %s < %s.len()\n%s\n" % (ivar, ivar, expr, hdr)
                repl.append((L["kw"], L["open"], head))
                ins.append((L["open"] + 1, 10**8, "\nlet %s = &%s[%s];\n" % (var, expr, ivar)))
                add_ins(L["close"], "%s\n%s += 1; " % (endtxt, ivar))
                add_ins(L["close"] + 1, " }")
                x4.append({"fn": p["name"], "iter": expr + ".iter().enumerate()", "var": var, "x5": True, "while": "", "side": "true"})
            elif "itermut" in L:
                # X5: `for PAT in &mut EXPR {` => `{ let mut IDX: usize = 0; while IDX < EXPR.len() HDR { let PAT = &mut EXPR[IDX]; body; IDX += 1; } }`
                mm = re.match(r"for\s+([A-Za-z_][A-Za-z0-9_]*)\s+in\s+&mut\s+([A-Za-z_][A-Za-z0-9_\.]*)\s*$", " ".join(m[L["kw"]:L["open"]].split()))
                if not mm:
                    raise ScanError("X5 not applicable: loop %d of %s is `%s`" % (idx + 1, p["name"], header_src.strip()))
                var, expr = mm.group(1), mm.group(2)
                body = m[L["open"] + 1:L["close"]]
                if re.search(r"\b(continue|break|return)\b", body) or "?" in body:
                    raise ScanError("X5 not applicable: control transfer in body of loop %d of %s" % (idx + 1, p["name"]))
                if re.search(re.escape(expr) + r"\b", body) or re.search(r"\blet\s+(mut\s+)?%s\b" % var, body):
                    raise ScanError("X5 not applicable: `%s` mentioned or `%s` rebound in body of loop %d of %s" % (expr, var, idx + 1, p["name"]))
                ix = L["itermut"]
                head = "; { let mut %s: usize = 0; while %s < %s.len()\n%s\n" % (ix, ix, expr, hdr)
                repl.append((L["kw"], L["open"], head))
                ins.append((L["open"] + 1, 10**8, "\nlet %s = &mut %s[%s];\n" % (var, expr, ix)))
                add_ins(L["close"], "%s\n%s += 1; " % (endtxt, ix))
                add_ins(L["close"] + 1, " }")
                x4.append({"fn": p["name"], "iter": "&mut " + expr, "var": var, "x5": True, "while": "", "side": "true"})
            elif "stepby" in L:
                mm = re.match(r"for\s+([A-Za-z_][A-Za-z0-9_]*)\s+in\s+\((.+?)\.\.(.+?)\)\s*\.step_by\((.+?)\)\s*(\.rev\(\))?\s*$", " ".join(m[L["kw"]:L["open"]].split()))
                if not mm:
                    raise ScanError("X4 not applicable: loop %d of %s is `%s`" % (idx + 1, p["name"], header_src.strip()))
                var, a, b, k, rev = mm.group(1), mm.group(2).strip(), mm.group(3).strip(), mm.group(4).strip(), mm.group(5)
                body = m[L["open"] + 1:L["close"]]
                if re.search(r"\b(continue|break|return)\b", body) or "?" in body:
                    raise ScanError("X4 not applicable: control transfer in body of loop %d of %s" % (idx + 1, p["name"]))
                if re.search(r"\b%s\s*(=[^=]|\+=|-=|\*=)" % var, body) or re.search(r"\blet\s+(mut\s+)?%s\b" % var, body) or re.search(r"&\s*mut\s+%s\b" % var, body):
                    raise ScanError("X4 not applicable: index `%s` assigned/shadowed in loop %d of %s" % (var, idx + 1, p["name"]))
                ty = L["stepby"]
                if rev:
                    init = "(%s) + (((%s) - (%s) - 1) / (%s)) * (%s)" % (a, b, a, k, k)
                    head = "{ let mut %s: %s = %s; while %s >= (%s)\n%s\n" % (var, ty, init, var, a, hdr)
                    step = "%s\n%s -= %s; " % (endtxt, var, k)
                    x4.append({"fn": p["name"], "iter": header_src.strip()[len("for"):].split(" in ", 1)[1].strip(), "var": var,
                               "while": "let mut %s: %s = %s; while %s >= (%s) { w[m] = %s as usize; m += 1; %s -= %s; }" % (var, ty, init, var, a, var, var, k),
                               "side": "(%s) >= (%s) && (%s) > (%s)" % (a, k, b, a)})
                else:
                    head = "{ let mut %s: %s = %s; while %s < (%s)\n%s\n" % (var, ty, a, var, b, hdr)
                    step = "%s\n%s += %s; " % (endtxt, var, k)
                    x4.append({"fn": p["name"], "iter": header_src.strip()[len("for"):].split(" in ", 1)[1].strip(), "var": var,
                               "while": "let mut %s: %s = %s; while %s < (%s) { w[m] = %s as usize; m += 1; %s += %s; }" % (var, ty, a, var, b, var, var, k),
                               "side": "true"})
                repl.append((L["kw"], L["open"], head))
                add_ins(L["close"], step)
                add_ins(L["close"] + 1, " }")
            else:
                if "iter" in L:
                    mm = re.match(r"for\s+(.+?)\s+in\s+", m[L["kw"]:L["open"]])
                    if not mm or L["kind"] != "for":
                        raise ScanError("loop %d of %s is not a for loop" % (idx + 1, p["name"]))
                    pos = L["kw"] + mm.end()
                    add_ins(pos, L["iter"] + ": ")
                if hdr:
                    add_ins(L["open"], "\n" + hdr + "\n")
                if endtxt:
                    add_ins(L["close"], endtxt + "\n")

        # X2: name the result
        if ret_name:
            sig = m[:bo]
            am = None
            depth = 0
            # find the top-level `->` of the signature (after the parameter list)
            k = sig.index("(", f["kw"] - start)
            k = rs.match_brace(sig + "{", k)
            mm = re.search(r"->\s*", sig[k:])
            if mm:
                a = k + mm.end()
                b = bo
                ty = text[a:b].rstrip()
                repl.append((a, a + len(ty), "(%s: %s)" % (ret_name, ty)))
            # unit-returning functions: nothing to name

        # apply replacements and insertions from the back
        ops = [(a, b, 10**9, s) for (a, b, s) in repl] + [(off, off, od, s) for (off, od, s) in ins]
        # sort: by offset desc; at equal offsets later-declared insertions come later in text,
        # so apply them first when going backwards
        ops.sort(key=lambda t: (t[0], t[2]), reverse=True)
        out = text
        for a, b, _, s in ops:
            out = out[:a] + s + out[b:]
        out = rs.strip_attrs_and_docs(out) if False else _drop_outer_comments(out)
        return out, x4


def _drop_outer_comments(s):
    return s


def build(template_path, repo):
    """Returns (verus_source_text, info) ; info = {'fns': [(name, first_line, last_line)], 'x4': [...], 'items': [...]}"""
    lines = open(template_path).read().split("\n")
    out = []
    info = {"fns": [], "x4": [], "items": []}
    cur = None
    last_text_holder = None
    for ln in lines:
        s = ln.strip()
        if s.startswith("//@"):
            if s.startswith("//@+"):
                t = ln.split("//@+", 1)[1]
                if t.startswith(" "):
                    t = t[1:]
                if cur is None:
                    raise ScanError("continuation outside //@fn")
                cur.cont(t)
                continue
            kind, args, text = _split_payload(s)
            if kind == "fn":
                cur = FnSplice(repo, _kv(args))
                continue
            if kind == "end":
                rendered, x4 = cur.render()
                first = len("\n".join(out).split("\n")) + 1 if out else 1
                out.append(rendered)
                last = len("\n".join(out).split("\n"))
                info["fns"].append((cur.params["name"], first, last, cur.params["file"]))
                info["x4"].extend(x4)
                info["items"].append("fn %s%s (%s)" % ((cur.params.get("impl", "") + "::") if cur.params.get("impl") else "", cur.params["name"], cur.params["file"]))
                cur = None
                continue
            if kind == "gen":
                import importlib
                mod = importlib.import_module(args[0])
                out.append(getattr(mod, args[1])())
                info["items"].append("generated by tools/%s.py:%s" % (args[0], args[1]))
                continue
            if kind in ("struct", "const", "enum", "static", "type"):
                kv = _kv(args)
                src = open(os.path.join(repo, kv["file"])).read()
                a, b = rs.find_item(src, kind, kv["name"])
                item = rs.strip_attrs_and_docs(src[a:b])
                if "derive" in kv:
                    # keep selected derives of the original item (X1 keeps them only on request; they must be present in the source)
                    pre = src[max(0, a - 600):a]
                    attrs = " ".join(re.findall(r"#\[derive\(([^)]*)\)\]", pre[pre.rfind("}") + 1:] if "}" in pre else pre))
                    for dname in kv["derive"].split(","):
                        if not re.search(r"\b%s\b" % re.escape(dname), attrs):
                            raise ScanError("LOST-ANCHOR %s %s no longer derives %s" % (kind, kv["name"], dname))
                    item = "#[derive(%s)]\n" % ", ".join(kv["derive"].split(",")) + item
                if "vis" in kv:  # optional: rewrite visibility (annotation only; types unchanged)
                    item = re.sub(r"^(pub\s*(\([^)]*\))?\s*)?", kv["vis"].replace("_", " ") + " ", item, count=1)
                out.append(item)
                info["items"].append("%s %s (%s)" % (kind, kv["name"], kv["file"]))
                continue
            if cur is not None:
                cur.add(kind, args, text)
                continue
            raise ScanError("directive outside //@fn: %s" % s)
        else:
            if cur is not None:
                if s == "":
                    continue
                raise ScanError("plain line inside //@fn block: %s" % s)
            out.append(ln)
    if cur is not None:
        raise ScanError("unterminated //@fn")
    return "\n".join(out), info


if __name__ == "__main__":
    txt, info = build(sys.argv[1], sys.argv[2] if len(sys.argv) > 2 else "/repo")
    sys.stdout.write(txt)
    sys.stderr.write(repr(info) + "\n")
