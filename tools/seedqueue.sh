#!/bin/sh
# usage: tools/seedqueue.sh "<srcdir> <name> [extra args]" ...   - runs seedtest.py for each, one at a time, after any running seedtest
cd "$(dirname "$0")/.."
for job in "$@"; do
  while pgrep -f "^[^ ]*python3 tools/seedtest.py" > /dev/null; do sleep 15; done
  set -- $job
  name=$2
  python3 tools/seedtest.py $job > logs/seed_$name.log 2>&1
done
