"""Minimal comment/string/brace-aware scanner for Rust source text.

Used by the injector (Kani contracts/harness modules) and by the Verus
extractor.  It never evaluates or rewrites code; it only finds spans.
Offsets in the masked text are identical to offsets in the original text.
"""
import re


class ScanError(Exception):
    """Anchor lost / ambiguous / construct not supported by the scanner."""


def mask(src: str) -> str:
    """Return src with comments, string and char literals blanked out
    (newlines kept), so that structural regexes cannot match inside them."""
    out = list(src)
    i, n = 0, len(src)

    def blank(a, b):
        for k in range(a, b):
            if out[k] != "\n":
                out[k] = " "

    while i < n:
        c = src[i]
        if c == "/" and i + 1 < n and src[i + 1] == "/":
            j = src.find("\n", i)
            j = n if j < 0 else j
            blank(i, j)
            i = j
        elif c == "/" and i + 1 < n and src[i + 1] == "*":
            depth, j = 1, i + 2
            while j < n and depth:
                if src.startswith("/*", j):
                    depth += 1
                    j += 2
                elif src.startswith("*/", j):
                    depth -= 1
                    j += 2
                else:
                    j += 1
            blank(i, j)
            i = j
        elif (c == '"' or c in "br") and (c == '"' or i == 0 or not (src[i - 1].isalnum() or src[i - 1] == "_")) and re.match(r'b?(r#*)?"', src[i:i + 40]):
            m = re.match(r'(b?)(r(#*))?"', src[i:i + 40])
            if m.group(2):  # raw string
                hashes = m.group(3)
                end = src.find('"' + hashes, i + m.end())
                j = n if end < 0 else end + 1 + len(hashes)
            else:
                j = i + m.end()
                while j < n and src[j] != '"':
                    j += 2 if src[j] == "\\" else 1
                j += 1
            blank(i + m.end(), j - 1)  # keep the quotes so tokens stay separated
            i = j
        elif c == "'":
            # char literal or lifetime
            m = re.match(r"'(\\(x[0-9a-fA-F]{2}|u\{[0-9a-fA-F_]+\}|.)|[^'\\\n])'", src[i:])
            if m:
                blank(i + 1, i + m.end() - 1)
                i += m.end()
            else:
                i += 1
        else:
            i += 1
    return "".join(out)


def match_brace(m: str, open_pos: int) -> int:
    """m is masked text, m[open_pos] in '{[('.  Returns index of the matching closer."""
    pairs = {"{": "}", "(": ")", "[": "]"}
    o = m[open_pos]
    c = pairs[o]
    depth = 0
    for k in range(open_pos, len(m)):
        ch = m[k]
        if ch == o:
            depth += 1
        elif ch == c:
            depth -= 1
            if depth == 0:
                return k
    raise ScanError("unbalanced %r at offset %d" % (o, open_pos))


def next_body_open(m: str, pos: int) -> int:
    """First '{' at paren/bracket depth 0 at or after pos."""
    depth = 0
    k = pos
    while k < len(m):
        ch = m[k]
        if ch in "([":
            depth += 1
        elif ch in ")]":
            depth -= 1
        elif ch == "{" and depth == 0:
            return k
        elif ch == ";" and depth == 0:
            raise ScanError("no body before ';' (declaration only?)")
        k += 1
    raise ScanError("no '{' found")


def impl_blocks(m: str, header_re: str):
    """Yield (open, close) of every `impl … {` block whose header (text between
    'impl' and '{') matches header_re (searched, not full-matched)."""
    for mm in re.finditer(r"\bimpl\b", m):
        try:
            o = next_body_open(m, mm.end())
        except ScanError:
            continue
        header = " ".join(m[mm.end():o].split())
        if re.search(header_re, header):
            yield o, match_brace(m, o)


def item_start(m: str, kw_pos: int) -> int:
    """Walk back from the `fn`/`struct`/`const` keyword over visibility and qualifiers."""
    pos = kw_pos
    while True:
        head = m[:pos].rstrip()
        mm = re.search(r"(\bpub\s*\([^)]*\)|\bpub|\bconst|\bunsafe|\basync|\bextern(\s*\"[^\"]*\")?|\bdefault)$", head)
        if not mm:
            return pos
        pos = mm.start()


def find_fn(src: str, name: str, impl_re: str | None = None, nth: int | None = None):
    """Locate function `name`.  Returns dict(start, sig_end(open brace), end(close brace incl.), kw).
    impl_re: regex matched against the impl header ("Blowfish", r"From<&\[u8\]> for XivCrc32").
    Top-level search (impl_re None) ignores functions nested in impl blocks / modules named tests."""
    m = mask(src)
    cands = []
    if impl_re is not None:
        regions = list(impl_blocks(m, impl_re))
        if not regions:
            raise ScanError("impl block /%s/ not found" % impl_re)
    else:
        regions = [(-1, len(m))]
    for (ro, rc) in regions:
        for mm in re.finditer(r"\bfn\s+%s\b" % re.escape(name), m[ro + 1:rc]):
            kw = ro + 1 + mm.start()
            # depth relative to region must be 0 (direct member)
            seg = m[ro + 1:kw]
            if seg.count("{") != seg.count("}"):
                continue
            cands.append(kw)
    if nth is not None:
        if nth >= len(cands):
            raise ScanError("fn %s: occurrence %d not found" % (name, nth))
        cands = [cands[nth]]
    if len(cands) != 1:
        raise ScanError("fn %s: %d candidates (impl=%s)" % (name, len(cands), impl_re))
    kw = cands[0]
    o = next_body_open(m, kw)
    c = match_brace(m, o)
    return {"start": item_start(m, kw), "kw": kw, "open": o, "close": c}


def find_item(src: str, kind: str, name: str, within_mod: str | None = None):
    """kind in struct|enum|const|static|type.  Returns (start, end_exclusive) of the item
    *without* its leading attributes/doc comments.  within_mod: the item is a direct member of `mod NAME { .. }`."""
    m = mask(src)
    base = 0
    if within_mod:
        mods = [mm for mm in re.finditer(r"\bmod\s+%s\s*\{" % re.escape(within_mod), m)]
        if len(mods) != 1:
            raise ScanError("mod %s: %d candidates" % (within_mod, len(mods)))
        base = mods[0].end()
        mend = match_brace(m, base - 1)
        hits = [mm for mm in re.finditer(r"\b%s\s+%s\b" % (kind, re.escape(name)), m)
                if base <= mm.start() < mend and m[base:mm.start()].count("{") == m[base:mm.start()].count("}")]
    else:
        hits = [mm for mm in re.finditer(r"\b%s\s+%s\b" % (kind, re.escape(name)), m)
                if m[:mm.start()].count("{") == m[:mm.start()].count("}")]
    if len(hits) != 1:
        raise ScanError("%s %s: %d candidates" % (kind, name, len(hits)))
    kw = hits[0].start()
    start = item_start(m, kw)
    if kind in ("struct", "enum"):
        # tuple/unit structs end with ';'
        k = kw
        depth = 0
        while k < len(m):
            if m[k] == "(":
                k = match_brace(m, k)
            elif m[k] == "{":
                return start, match_brace(m, k) + 1
            elif m[k] == ";":
                return start, k + 1
            k += 1
        raise ScanError("unterminated %s %s" % (kind, name))
    # const/static/type: up to ';' at depth 0
    k = kw
    while k < len(m):
        if m[k] in "([{":
            k = match_brace(m, k)
        elif m[k] == ";":
            return start, k + 1
        k += 1
    raise ScanError("unterminated %s %s" % (kind, name))


def strip_attrs_and_docs(text: str) -> str:
    """X1: drop `#[...]` attributes and comments inside an extracted item.
    Also drops struct fields that carry #[br(temp)] (binrw removes them too)."""
    m = mask(text)
    # remove comments: they are blanked in m; copy code chars only where m is non-blank or whitespace
    out = []
    i = 0
    n = len(text)
    drop_next_field = False
    while i < n:
        if m[i] == "#" and re.match(r"#\s*!?\s*\[", m[i:]):
            o = m.index("[", i)
            c = match_brace(m, o)
            attr = " ".join(text[i:c + 1].split())
            if re.search(r"\bbr\s*\(.*\btemp\b", attr) or re.search(r"\bbrw?\s*\(.*\bignore\b", attr) and False:
                drop_next_field = True
            i = c + 1
            continue
        if drop_next_field and not text[i].isspace():
            # skip the field up to the ',' at depth 0
            k = i
            while k < n and m[k] != ",":
                if m[k] in "([{<" and m[k] != "<":
                    k = match_brace(m, k)
                k += 1
            i = k + 1
            drop_next_field = False
            continue
        # comments are blank in m but not in text
        if text[i] == "/" and m[i] == " ":
            # skip comment chars
            while i < n and m[i] == " " and text[i] != "\n":
                i += 1
            continue
        out.append(text[i])
        i += 1
    res = "".join(out)
    res = re.sub(r"\n[ \t]*(?=\n)", "\n", res)
    return res


def loops_in(m: str, open_pos: int, close_pos: int):
    """Loops (for/while/loop) inside the body m[open_pos:close_pos] in source order.
    Returns list of dict(kw, kind, open, close)."""
    res = []
    for mm in re.finditer(r"\b(for|while|loop)\b", m[open_pos:close_pos]):
        kw = open_pos + mm.start()
        kind = mm.group(1)
        if kind == "for":
            # skip `for<'a>` (HRTB) and `impl X for Y`
            if re.match(r"for\s*<", m[kw:]):
                continue
        o = next_body_open(m, kw + len(kind))
        c = match_brace(m, o)
        res.append({"kw": kw, "kind": kind, "open": o, "close": c})
    return res


def statements(m: str, open_pos: int, close_pos: int):
    """Split the block body (between braces at open_pos/close_pos) into top-level
    statements.  Returns list of (start, end_exclusive, has_semicolon)."""
    res = []
    k = open_pos + 1
    n = close_pos
    while True:
        while k < n and m[k].isspace():
            k += 1
        if k >= n:
            break
        start = k
        blocklike = re.match(r"(while|for|loop|if|match|unsafe)\b|\{", m[k:]) is not None
        semi = False
        while k < n:
            ch = m[k]
            if ch in "([":
                k = match_brace(m, k) + 1
                continue
            if ch == "{":
                k = match_brace(m, k) + 1
                if blocklike:
                    rest = m[k:n]
                    r2 = rest.lstrip()
                    if r2.startswith("else"):
                        k += len(rest) - len(r2) + 4
                        continue
                    if r2[:1] in (".", "?") or (r2[:1] == ";"):
                        blocklike = False
                        continue
                    break
                continue
            if ch == ";":
                k += 1
                semi = True
                break
            k += 1
        res.append((start, k, semi))
    return res
