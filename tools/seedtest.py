#!/usr/bin/env python3
"""Confirm a seeded defect and run the checks against it.

usage: tools/seedtest.py <dir with patch.diff, demo.diff, meta.json> <name> [--tier quick|thorough] [--props C13,C18]

1. fresh scratch worktree of /repo HEAD (outside /repo and /verif); demo alone must pass; patch + demo: demo must fail and the suite must pass
2. ./check <prop> --repo <patched worktree> for each property  (the worktree carries the patch only, not the demo)
3. results are written to /verif/seeded/<name>/meta.json; the worktree and its build output are removed
"""
import sys, os, json, subprocess, shutil, argparse, time
ap = argparse.ArgumentParser()
ap.add_argument("src"); ap.add_argument("name"); ap.add_argument("--tier", default="quick"); ap.add_argument("--props", default="")
ap.add_argument("--skip-confirm", action="store_true"); ap.add_argument("--confirm-only", action="store_true")
a = ap.parse_args()
HERE = os.path.dirname(os.path.dirname(os.path.abspath(__file__)))
dst = os.path.join(HERE, "seeded", a.name)
os.makedirs(dst, exist_ok=True)
for f in ("patch.diff", "demo.diff", "meta.json"):
    if os.path.abspath(a.src) != dst:
        shutil.copy(os.path.join(a.src, f), os.path.join(dst, f))
meta = json.load(open(os.path.join(dst, "meta.json")))
props = a.props.split(",") if a.props else [meta["property"]]
wt = "/tmp/seedchk_%s_%d" % (a.name, os.getpid())
def sh(cmd, cwd=None, timeout=3600):
    p = subprocess.run(cmd, shell=True, cwd=cwd, stdout=subprocess.PIPE, stderr=subprocess.STDOUT, text=True, timeout=timeout, errors="replace")
    return p.returncode, p.stdout
subprocess.check_call(["git", "-C", "/repo", "worktree", "add", "-q", "--detach", wt, "HEAD"])
env_off = "CARGO_NET_OFFLINE=true "
try:
    res = {}
    if not a.skip_confirm:
        rc, out = sh("git apply %s/demo.diff" % dst, wt)
        assert rc == 0, "demo.diff does not apply: " + out
        demo_cmd = meta["demo_cmd"].replace(meta.get("worktree", "/tmp/wt_" + meta["property"]), wt)
        import re
        demo_cmd = re.sub(r"/tmp/w[t0-9]+_C\d+", wt, demo_cmd)
        rc0, out0 = sh(env_off + demo_cmd, wt)
        res["demo_passes_without_patch"] = (rc0 == 0)
        rc, out = sh("git apply %s/patch.diff" % dst, wt)
        assert rc == 0, "patch.diff does not apply: " + out
        rc1, out1 = sh(env_off + demo_cmd, wt)
        res["demo_fails_with_patch"] = (rc1 != 0)
        res["demo_tail_with_patch"] = "\n".join(out1.strip().split("\n")[-12:])
        rc2, out2 = sh(env_off + "cargo test --offline --lib 2>&1 | grep -E '^test result|FAILED|failed'", wt)
        failed = [l for l in out2.split("\n") if "FAILED" in l and "test result" not in l]
        res["suite_with_patch"] = out2.strip()
        res["suite_passes_with_patch"] = all(("patch::tests::test_add_file_op" in l or "patch::tests::test_invalid" in l) for l in failed)
        # leave only the library patch in the worktree for the checks
        sh("git apply -R %s/demo.diff" % dst, wt)
        sh("git status --short", wt)
    else:
        rc, out = sh("git apply %s/patch.diff" % dst, wt)
        assert rc == 0, out
        prev = meta.get("verification", {})
        for k in ("demo_passes_without_patch", "demo_fails_with_patch", "demo_tail_with_patch", "suite_with_patch", "suite_passes_with_patch"):
            if k in prev:
                res[k] = prev[k]
        res["earlier_checks"] = prev.get("checks", {})
    checks = {}
    if a.confirm_only:
        checks = meta.get("verification", {}).get("checks", {}); props = []
    for p in props:
        t0 = time.time()
        rc, out = sh("./check %s --tier %s --repo %s --no-evidence" % (p, a.tier, wt), HERE, timeout=7200)
        lines = [l for l in out.split("\n") if l.startswith("VIOLATION") or l.startswith("UNDECIDED") or l.startswith("KNOWN-FINDING") or l.startswith("OK ") or "failed   " in l or " failed " in l]
        checks[p] = {"exit": rc, "tier": a.tier, "wall_s": round(time.time() - t0), "lines": lines[:20]}
        print(p, "exit", rc); print("\n".join(lines[:12]))
    res["checks"] = checks
    res["caught"] = any(c["exit"] == 1 for c in checks.values())
    res["ran"] = "tools/seedtest.py (scratch worktree of /repo HEAD %s; demo alone, demo+patch, cargo test --lib with patch; then ./check <prop> --repo <worktree with patch only>)" % subprocess.check_output(["git", "-C", "/repo", "log", "--format=%h", "-1"], text=True).strip()
    meta["verification"] = res
    json.dump(meta, open(os.path.join(dst, "meta.json"), "w"), indent=1)
    print(json.dumps({k: v for k, v in res.items() if k not in ("checks", "demo_tail_with_patch", "suite_with_patch")}))
finally:
    subprocess.call(["git", "-C", "/repo", "worktree", "remove", "--force", wt])
