#!/usr/bin/env python3
"""Writes /verif/MANIFEST.json from tools/manifest_src.py (one place to edit)."""
import json, os, sys
HERE = os.path.dirname(os.path.dirname(os.path.abspath(__file__)))
sys.path.insert(0, os.path.join(HERE, "tools"))
from manifest_src import CHECKS, NOT_APPLICABLE, NOTES
checks = []
for pid, c in sorted(CHECKS.items()):
    checks.append({
        "property_id": pid,
        "quick_cmd": "./check %s --tier quick" % pid,
        "thorough_cmd": "./check %s --tier thorough" % pid,
        "evidence_file": "evidence/%s.json" % pid,
        "replay_cmd_template": "./check --replay {path}",
        "engine": "contracts",
        "level_claimed": {"category": c["level"], "text": c["text"], "design_ref": c.get("design_ref", "DESIGN.md section 4, " + pid)},
        "level_note": c["note"],
        "technique": c["technique"],
    })
man = {
    "version": 1,
    "setup_cmd": "./setup.sh",
    "hooks": {
        "guard": "cfg(kani)",
        "enable": "no hooks are committed to /repo: every check copies /repo's working tree to a scratch directory and appends a `#[cfg(kani)] mod verif_units` (harnesses, spec functions) to the modules under contract and `#[cfg_attr(kani, kani::requires/ensures(..))]` attributes above the functions under contract; only lines are added, and with cfg(kani) off the copy is token-identical to /repo. Verus units are re-extracted from /repo's source text on every run (tools/vx.py).",
        "baseline_off_cmd": "cd /repo && cargo test --workspace --no-fail-fast --offline",
        "source_commits": [],
        "add_only": True,
    },
    "engines": [
        {"name": "contracts", "path": "check", "serves_properties": sorted(CHECKS.keys()),
         "kind_free_text": "contract-based deductive verification: Kani 0.68 function contracts / proof harnesses (CBMC) on an annotated scratch copy of /repo, and Verus 0.2026.09.13 (z3) on functions extracted mechanically from /repo on every run"},
    ],
    "checks": checks,
    "not_applicable": [{"property_id": k, "reason": v} for k, v in sorted(NOT_APPLICABLE.items())],
    "notes": NOTES,
}
json.dump(man, open(os.path.join(HERE, "MANIFEST.json"), "w"), indent=1)
print("MANIFEST.json: %d checks, %d not_applicable" % (len(checks), len(man["not_applicable"])))
