#!/usr/bin/env python3
"""Stand-in for Kani's goto-instrument inside the shadow KANI_HOME (see ./check ensure_shadow()).

It forwards every call to the real goto-instrument.  After Kani's last pass over a harness's GOTO
binary (`--ensure-one-backedge-per-target IN OUT`) it additionally replaces the *bodies* of the
functions whose pretty names are listed in $VERIF_ERASE_BODIES (';'-separated, exact pretty names as
in Kani's pretty_name_map.json) by a body that returns without doing anything.

The only use: `std::ptr::drop_glue::<binrw::Error>`.  binrw::Error is a recursive enum; CBMC unwinds
its compiler-generated drop glue at every one of the hundreds of places where a derive-generated
parser may discard an error, which makes every record with an enum / map / restore_position field
time out.  Dropping such a value only frees memory (Physis defines no custom error with a Drop
impl), so a no-op body changes no checked property; it is listed as an assumption in evidence.
"""
import os, sys, json, subprocess

here = os.path.dirname(os.path.abspath(__file__))
real = os.path.join(here, "goto-instrument.real")
args = sys.argv[1:]
rc = subprocess.call([real] + args)
if rc != 0:
    sys.exit(rc)
erase = [x for x in os.environ.get("VERIF_ERASE_BODIES", "").split(";") if x]
if erase and "--ensure-one-backedge-per-target" in args and len(args) >= 3:
    out = args[-1]
    base = out[:-4] if out.endswith(".out") else out
    pm = base + ".pretty_name_map.json"
    names = []
    try:
        d = json.load(open(pm))
        for mangled, pretty in d.items():
            if pretty in erase:
                names.append(mangled)
    except Exception as e:
        sys.stderr.write("verif wrapper: cannot read %s: %s\n" % (pm, e))
    if names:
        cmd = [real]
        for n in names:
            cmd += ["--remove-function-body", n]
        rc = subprocess.call(cmd + [out, out], stdout=subprocess.DEVNULL)
        if rc == 0:
            rc = subprocess.call([real, "--generate-function-body", "|".join(names), "--generate-function-body-options", "nondet-return", out, out], stdout=subprocess.DEVNULL)
        if rc == 0:
            sys.stderr.write("verif wrapper: erased bodies of %d function(s): %s\n" % (len(names), ", ".join(erase)))
            with open(os.path.join(os.path.dirname(out), "verif-erased.log"), "a") as f:
                f.write("%s: %s\n" % (os.path.basename(out), ",".join(names)))
        sys.exit(rc)
sys.exit(0)
