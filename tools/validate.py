#!/usr/bin/env python3-vt
import json, jsonschema, glob, sys
ok = True
try:
    jsonschema.validate(json.load(open('/verif/MANIFEST.json')), json.load(open('/root/.vp/MANIFEST.schema.json'))); print('manifest ok')
except Exception as e:
    ok = False; print('MANIFEST INVALID', str(e)[:300])
sch = json.load(open('/root/.vp/EVIDENCE.schema.json'))
for f in sorted(glob.glob('/verif/evidence/*.json')):
    try:
        jsonschema.validate(json.load(open(f)), sch)
    except Exception as e:
        ok = False; print('EVIDENCE INVALID', f, str(e)[:300])
print('evidence files:', len(glob.glob('/verif/evidence/*.json')))
sys.exit(0 if ok else 1)
