"""Independent computation of the fractional hex digits of pi (Machin's formula, pure
integer arithmetic).  Blowfish's P-array and S-boxes are, by definition, the first
18 + 4*256 32-bit words of that expansion.  Nothing here reads /repo."""


def pi_hex_words(nwords):
    nbits = 32 * nwords + 64
    one = 1 << nbits

    def arctan_inv(x):
        total, term, n, x2, sign = 0, one // x, 1, x * x, 1
        while term:
            total += sign * (term // n)
            term //= x2
            n += 2
            sign = -sign
        return total
    pi = 4 * (4 * arctan_inv(5) - arctan_inv(239))
    frac = pi - (3 << nbits)
    return [(frac >> (nbits - 32 * (i + 1))) & 0xFFFFFFFF for i in range(nwords)]


def verus_table_lemmas():
    """Verus proof functions asserting every word of BLOWFISH_P / BLOWFISH_S (the consts extracted
    from src/blowfish/constants.rs) equals the corresponding word of pi."""
    pw = pi_hex_words(1042)
    lines = ['    assert(BLOWFISH_P[%d] == %#010xu32);' % (i, pw[i]) for i in range(18)]
    for b in range(4):
        for i in range(256):
            lines.append('    assert(BLOWFISH_S[%d][%d] == %#010xu32);' % (b, i, pw[18 + b * 256 + i]))
    chunks = [lines[:18]] + [lines[18 + k * 256:18 + (k + 1) * 256] for k in range(4)]
    names = ["tables_are_pi_p", "tables_are_pi_s0", "tables_are_pi_s1", "tables_are_pi_s2", "tables_are_pi_s3"]
    return '\n'.join('proof fn %s() {\n%s\n}' % (n, '\n'.join(c)) for n, c in zip(names, chunks))
