CHECKS = {
 "C15": dict(level="proof",
   text="Race/tribe ownership, race-code definedness and injectivity, enum code sets: proved by Kani for the full finite input domain (function contract on get_supported_tribes, loop-free harnesses over all (race, tribe, gender) triples).",
   note="Trusts rustc/Kani/CBMC. The String formatters (format!) that turn codes into paths are not inside a proved unit.",
   technique="Kani function contracts + full-domain loop-free proof harnesses (CBMC)"),
}
NOT_APPLICABLE = {k: "check not built yet (work in progress, see DESIGN.md section 4)" for k in
  ["C01","C02","C03","C04","C05","C06","C07","C08","C09","C10","C11","C12","C13","C14","C16","C17","C18"]}
NOTES = "See DESIGN.md. Exit codes of ./check: 0 all obligations discharged; 1 VIOLATION; 2 undecided (never an alarm)."
