"""Single place to edit the per-property claims; run tools/mkmanifest.py afterwards."""

_COMMON_NOTE = ("Trusts rustc, Kani 0.68 + CBMC 6.11 + CaDiCaL, Verus 0.2026.09.13 + z3, the item scanner/extractor (tools/rustscan.py, tools/vx.py, rules X1-X4) "
                "and that binrw derives expand identically under cfg(kani). In every Kani unit the drop glue of binrw::Error is a no-op (tools/goto-instrument-wrapper.py). "
                "Units labelled S hold for all contents of the listed concrete shapes only; units labelled B are bounded stand-ins and are not counted as proved. "
                "Clauses listed under coverage.not_decided in the evidence file are NOT decided by this check.")

CHECKS = {
 "C01": dict(level="other",
   text="Kernels of the lookup path under contract: JAMCRC table and checksum proved for byte strings of any length (Verus, against the bit-serial definition); the 32-bit entry word and the Index1/Index2 entry records proved for all contents (Kani); find_entry/exists and the path-to-repository split bounded (3 entries; listed path shapes). The end-to-end lookup over the file system and the memo clause are not decided.",
   note=_COMMON_NOTE, technique="Verus loop-invariant proof of the extracted Jamcrc functions + Kani proof harnesses/contract models over binrw records"),
 "C02": dict(level="other",
   text="Block-level kernel under contract: block header grammar (raw/compressed switch) for all contents, read_data_block raw and compressed paths for listed shapes with inflate modelled, the zlib wrapper's call protocol incl. release of the inflate state, ModelMemorySizes::total, the synthesized model file header layout (thorough). Reassembly of standard/model/texture entries from a dat file is not decided.",
   note=_COMMON_NOTE + " libz-rs-sys (inflate) is modelled, not verified.", technique="Kani proof harnesses with stubbed (modelled) callees over the real block readers"),
 "C03": dict(level="other",
   text="Chunk grammar and block codec under contract: SqpkAddData/DeleteData/TargetInfo/EOF chunk records (offsets x128, endianness, platform word), BlockHeader read/write, write_data_block_patch o read_data_block_patch = identity with 128-byte alignment (thorough). The directory-tree effect of ZiPatch::apply is not decided by this family.",
   note=_COMMON_NOTE, technique="Kani proof harnesses over derive-generated chunk parsers (all contents per shape)"),
 "C04": dict(level="other",
   text="BOUNDED STAND-IN ONLY, nothing proved: ZiPatch::create is read_dir recursion, fs::metadata and PathBuf comparison and its post-state is a directory tree, which no Verus/Kani contract reaches without a hand-written model of std::fs. The property's contract (apply(create(A,B)) on a copy of A = B's non-empty files; A and B untouched) is checked by executing the real create and apply on 12 pairs of temporary trees (unchanged / changed / added / removed files, depth 0..4, sizes around the 128-byte alignment and the 32000 marker, 300 KB). The block codec kernel underneath is decided under C03.",
   note=_COMMON_NOTE + " Every unit of this property is labelled B (bounded enumeration by native execution).", technique="bounded enumeration of the function's contract by native execution of the real code (stand-in for a function outside the verifiers' reach)"),
 "C08": dict(level="other",
   text="BOUNDED STAND-IN ONLY, nothing proved: ConfigFile and EXL are BufRead::lines / split_once / parse / format! / HashMap<String,_> end to end (Verus has no str reasoning; CBMC times out on 3-8 symbolic bytes of this code, DESIGN.md section 2). The property's contract (write = canonical text, parse o write = id, write o parse = id on canonical files, set_value changes every occurrence and nothing else, has_key/has_category/contains agree with the content) is checked by executing the real functions on 30 generated configurations + FFXIV.cfg with every set_value, and on 90 generated lists + test.exl with comment rows.",
   note=_COMMON_NOTE + " Every unit of this property is labelled B (bounded enumeration by native execution).", technique="bounded enumeration of the function's contract by native execution of the real code (stand-in for functions outside the verifiers' reach)"),
 "C05": dict(level="other",
   text="Cell decoding under contract: read_column for every column type at listed offsets, all row contents (big-endian integers, float bits, one-byte booleans and packed bits, strings bounded to 2 characters); read_row for single rows, sub-rows and unknown ids on values built in the harness; sheet records. Whole-file parses and archive lookup are not decided.",
   note=_COMMON_NOTE, technique="Kani proof harnesses over EXD::read_column / read_row (all contents per shape)"),
 "C06": dict(level="other",
   text="Every typed attribute reader the model parser dispatches to is proved for all byte contents (byte/255, tangent, IEEE half incl. the half crate's conversion against an integer-only binary16 spec, raw bytes/u16/f32), pad_slice, the vertex element record and declaration block (thorough). The element addressing inside MDL::from_existing is not decided.",
   note=_COMMON_NOTE + " half: software conversion path (cpuid stubbed to 'no f16c').", technique="Kani full-domain loop-free proof harnesses over the attribute readers"),
 "C07": dict(level="other",
   text="MDL::update_headers and the edit operations replace_vertices / add_shape_mesh / remove_shape_meshes (each verified modularly against update_headers' contract) are proved by Verus on the extracted real functions for ANY number of meshes per LOD (stream counts <= 3, no-overflow preconditions stated): per-LOD vertex section = sum count x total stride, index section = 2 x indices padded by 1..16 to a multiple of 16, sections chained from runtime+0x44+stack (disjoint, ordered, contiguous), per-mesh stream offsets = running sums inside the section (in-bounds corollary), file-header mirroring, shape counts, frame on mesh fields; calculate_runtime_size = the documented layout formula. Attribute re-encoding proved for every canonical encoding (Kani). Record-size constants vs writers, declaration writer, concrete-layout twins of update_headers (Kani). Whole-model write/parse identity is not decided.",
   note=_COMMON_NOTE + " `for x in &mut vec` and `for (i, x) in v.iter().enumerate()` loops are rewritten to index loops for Verus (rules X5/X6, DESIGN.md 9.5); Vec::from(&[T]) has an assumed length contract; calculate_stack_size is an assumed callee contract in the Verus unit, discharged by the Kani layout units.", technique="Verus deductive proof (loop invariants over prefix-sum specs) of the extracted update_headers + Kani codec round trips and layout twins"),
 "C09": dict(level="other",
   text="CustomizeData read (plain fields all contents; enum positions thorough) and write for every value at the documented offsets; gear-id marker round trip, gear slot record, slot-index table, DatHeader; the documented checksum formula (thorough, empty comment). Whole-file layouts are not decided.",
   note=_COMMON_NOTE, technique="Kani proof harnesses over derive-generated records and pure converters"),
 "C10": dict(level="other",
   text="SHA-1 padding for every buffered length and total length, digest serialisation, block feeding (bounded), FIIN entry record write (and read, thorough). The compression function, FileInfo::new and the patch-list text format are not decided.",
   note=_COMMON_NOTE + " Sha1State::process is replaced by a recorder in the padding unit.", technique="Kani proof harnesses with a recording stub for the compression function"),
 "C11": dict(level="proof",
   text="Proved for all inputs by Verus on the extracted real functions: F, encrypt_pair = 16-round textbook Blowfish, decrypt_pair = the network with P reversed, decrypt(encrypt(l,r)) = (l,r) for every P and S (induction over rounds), Blowfish::new = the standard key schedule over key[0..8] for every key of at least 8 bytes, and all 1042 table words equal the hex digits of pi computed independently. The step_by loop rewrite (X4) is validated by Kani on every run. Message framing (padding, little-endian words, block order, decrypt o encrypt) is proved by Kani for all contents of messages of the listed lengths.",
   note=_COMMON_NOTE + " Framing units replace the pair functions by a fixed bijection model (their own contracts are the Verus unit).", technique="Verus deductive proof (requires/ensures/invariants, induction lemmas) on mechanically extracted functions + Kani shape-enumerated framing harnesses"),
 "C12": dict(level="other",
   text="Path hash: Jamcrc::checksum = bit-serial JAMCRC (CRC-32 reflected 0xEDB88320, init 0xFFFFFFFF, no final inversion) for byte strings of any length, with the table-vs-bitwise lemma (Verus); SHA-1 padding and serialisation (Kani). SHA-1's compression function, the zlib-backed shader-key CRC and lower-casing stay in the trusted base.",
   note=_COMMON_NOTE, technique="Verus loop-invariant proof + bit-vector lemma; Kani harnesses for SHA-1 framing"),
 "C13": dict(level="proof",
   text="Block level proved for all contents: 565 expansion, BC1 (all 2^64 blocks, both modes), BC3 alpha palette and lanes with frame, BC3 and BC5 blocks, copy_block_buffer content+frame+bounds for any image size up to 65536^2 (Verus), RGBA byte order of Texture::decode. Image level proved by Verus for ANY image size up to 65536^2 on the instantiated block_decoder! macro (decode_bc1/bc3/bc5): Err exactly on short data / short image buffer with the image untouched, otherwise pixel (x,y) = texel (x mod 4, y mod 4) of decoded block (y/4)*ceil(w/4)+x/4, pixels past w*h untouched, no out-of-bounds index; the block decoders enter that proof as assumed contracts discharged by the Kani block units.",
   note=_COMMON_NOTE + " The macro is instantiated textually from its real invocation and its `(a..b).for_each(|v| {..})` statements are rewritten to `for v in a..b {..}` for Verus (rules X7/X8, DESIGN.md 9.6); usize is taken as 64-bit there. BC1 blends accept any integer rounding within 2/3 of the exact value; the alpha of BC1's black entry is unconstrained (as the property says). Texture::from_existing's header parse is not inside a proved unit.", technique="Kani loop-free full-domain proof harnesses over the block decoders + Verus proofs of copy_block_buffer and of the three image drivers (nested-loop invariants)"),
 "C14": dict(level="other",
   text="Half-tuple readers, colour-table rows (legacy 32 B all contents; Dawntrail 64 B thorough), dye-table bit fields for all words, plain material/shader records, sampler record (thorough), find_node (bounded table), build_selector = base-31 polynomial mod 2^32 for key lists of any length (Verus). Whole-file material and shader-package grammars are not decided.",
   note=_COMMON_NOTE, technique="Kani proof harnesses over derive-generated records + Verus proof of build_selector"),
 "C15": dict(level="proof",
   text="Proved by Kani over the full finite domains: race r owns exactly tribes 2r-1/2r (function contract on get_supported_tribes), race codes defined exactly for own tribes and injective on body types, enum code sets, slot tables and abbreviation bijection, gear-slot/equipment-slot bijection, Ord for Repository (base first, expansions by number, antisymmetric) and sort of 3, category codes. The String formatters are outside the proved units (deconstruct_equipment_path: thorough).",
   note=_COMMON_NOTE, technique="Kani function contracts + full-domain loop-free proof harnesses"),
 "C16": dict(level="other",
   text="Records returned exactly as stored (racial scaling 56 B, plate position, deformer link: all contents), terrain grid arithmetic write o read = id for every i16, Havok byte reader, packed integers (1..3 bytes) and bit fields. Skeleton/Havok object graph, layer groups and the deformer chain walk are not decided.",
   note=_COMMON_NOTE, technique="Kani proof harnesses over records and arithmetic kernels"),
 "C17": dict(level="other",
   text="Bounded panic-freedom (every implicit check CBMC generates: overflow, bounds, unwrap) on the listed helpers and early-failing entry points: read_string, Blowfish framing and key schedule (Verus: no overflow / out-of-bounds for keys >= 8 bytes), ChatLog header, gear-set header, DatHeader. The whole-file/text entry points and every resource clause are not decided.",
   note=_COMMON_NOTE, technique="Kani bounded model checking of panic-freedom contracts (ensures true, all implicit checks discharged)"),
 "C18": dict(level="other",
   text="Bounded panic-freedom on the listed decoders: BCn image drivers incl. short data (Err), copy_block_buffer bounds (Verus, unbounded), typed model attribute readers on short cursors, CMP on truncated buffers, find_node with wild alias targets, Havok packed ints, inflate-state release on failed decompression (zlib modelled). Whole-file asset parsers, archives on disk and resource clauses are not decided.",
   note=_COMMON_NOTE, technique="Kani bounded model checking of panic-freedom contracts + Verus bounds proof"),
}

NOT_APPLICABLE = {
}

NOTES = ("See DESIGN.md. ./check exit codes: 0 every obligation of every unit discharged (KNOWN-FINDING lines are informational); 1 VIOLATION (replay file under replays/<id>/); "
         "2 undecided (lost anchor, unsupported construct, time-out) - never an alarm. Fix commits made in /repo are listed in known_findings.json ('fixed').")
